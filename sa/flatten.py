"""Statement-level inlining of *unknown* helper functions.

The rule tables refer to the library's functions by name (sa/known_names.py).  A maintainer may extract a few
statements into a new private helper (`_mix`, `_index_selectors`, a nested `declare_side` ...); such a helper is
unknown to the tables, so it is made transparent: at call sites of the forms

    helper(args)            x = helper(args)            return helper(args)

the helper's body is substituted (parameters replaced by the argument expressions, `return e` turned into the
assignment / return of the call site), and applications of lambda arguments are beta-reduced.  Inlining is purely
syntactic and behaviour preserving for helpers with a single exit at the end of a straight-line or if/for body.
Inlined statements keep the helper's source positions (reports point at real lines).
"""
import ast
import copy

from .known_names import KNOWN
from .loader import clone

MAX_STMTS = 40
MAX_ROUNDS = 3


def _single_exit(fn, multi_ok=False):
    """The helper returns only in its last top-level statement (or not at all) and does not yield.
    multi_ok: early returns are acceptable when _tailify can restructure them."""
    body = fn.body
    for i, s in enumerate(body):
        for n in ast.walk(s):
            if isinstance(n, (ast.Yield, ast.YieldFrom, ast.Nonlocal)):
                return False
            if isinstance(n, ast.Return) and not (i == len(body) - 1 and n is s):
                if multi_ok:
                    continue
                return False
            if isinstance(n, (ast.FunctionDef, ast.AsyncFunctionDef, ast.ClassDef)) and n is not fn:
                return False
    return True


def _terminates(stmts):
    """every path through the statement list ends in return / raise"""
    if not stmts:
        return False
    s = stmts[-1]
    if isinstance(s, (ast.Return, ast.Raise)):
        return True
    if isinstance(s, ast.If):
        return _terminates(s.body) and _terminates(s.orelse)
    return False


def _tailify(stmts):
    """Equivalent statement list in which `return` occurs in tail position only (early returns become if/else
    nesting); None if a return sits inside a loop / try / with."""
    out = []
    for i, s in enumerate(stmts):
        rest = stmts[i + 1:]
        if isinstance(s, ast.Return):
            return out + [s]           # anything after it is dead
        if isinstance(s, ast.If):
            has_ret = any(isinstance(x, ast.Return) for b in (s.body, s.orelse) for st in b for x in ast.walk(st))
            if not has_ret:
                out.append(s)
                continue
            tb, te = _terminates(s.body), _terminates(s.orelse)
            body = _tailify(list(s.body) + ([] if tb else rest))
            orelse = _tailify(list(s.orelse) + ([] if te else rest))
            if body is None or orelse is None:
                return None
            n = ast.If(test=s.test, body=body or [ast.Pass()], orelse=orelse)
            return out + [ast.copy_location(n, s)]
        if any(isinstance(x, ast.Return) for x in ast.walk(s)):
            return None
        out.append(s)
    return out


def _map_tail_returns(stmts, fn):
    """replace every tail-position `return e` by fn(e) (a list of statements)"""
    if not stmts:
        return stmts
    s = stmts[-1]
    if isinstance(s, ast.Return):
        return stmts[:-1] + fn(s)
    if isinstance(s, ast.If):
        n = ast.If(test=s.test, body=_map_tail_returns(list(s.body), fn) or [ast.Pass()], orelse=_map_tail_returns(list(s.orelse), fn))
        return stmts[:-1] + [ast.copy_location(n, s)]
    return stmts


def _has_return(stmts):
    return any(isinstance(x, ast.Return) for s in stmts for x in ast.walk(s))


def _count(fn):
    return sum(1 for n in ast.walk(fn) if isinstance(n, ast.stmt))


class _Subst(ast.NodeTransformer):
    def __init__(self, mapping):
        self.mapping = mapping

    def visit_Name(self, n):
        if isinstance(n.ctx, ast.Load) and n.id in self.mapping:
            return clone(self.mapping[n.id])
        return n

    def visit_Lambda(self, n):
        shadow = {a.arg for a in n.args.args}
        inner = {k: v for k, v in self.mapping.items() if k not in shadow}
        n2 = copy.copy(n)
        n2.body = _Subst(inner).visit(clone(n.body))
        return n2


OPERATOR_BIN = {"add": ast.Add, "sub": ast.Sub, "mul": ast.Mult, "truediv": ast.Div, "floordiv": ast.FloorDiv, "mod": ast.Mod,
                "pow": ast.Pow, "lshift": ast.LShift, "rshift": ast.RShift, "and_": ast.BitAnd, "or_": ast.BitOr, "xor": ast.BitXor}
OPERATOR_CMP = {"lt": ast.Lt, "le": ast.LtE, "eq": ast.Eq, "ne": ast.NotEq, "ge": ast.GtE, "gt": ast.Gt, "is_": ast.Is, "is_not": ast.IsNot}
OPERATOR_UN = {"neg": ast.USub, "pos": ast.UAdd, "invert": ast.Invert, "inv": ast.Invert, "not_": ast.Not}


def operator_function(module, f):
    """name of the stdlib `operator` function an expression denotes in this module (operator.ge, or a name imported from it)"""
    if module is None:
        return None
    if isinstance(f, ast.Attribute) and isinstance(f.value, ast.Name):
        b = module.bindings.get(f.value.id)
        if b and b[0] == "module" and b[1] in ("operator", "_operator"):
            return f.attr
    if isinstance(f, ast.Name):
        b = module.bindings.get(f.id)
        if b and b[0] == "attr" and b[1] in ("operator", "_operator"):
            return b[2]
    return None


class _Beta(ast.NodeTransformer):
    """(lambda a, b: E)(x, y)  ->  E[a:=x, b:=y];   operator.ge(x, y) -> x >= y"""

    def __init__(self, module=None):
        self.module = module

    def visit_Call(self, n):
        self.generic_visit(n)
        # f(*(a, b, c))  ->  f(a, b, c)    (a *args helper whose tuple of extra arguments was substituted)
        if any(isinstance(a, ast.Starred) and isinstance(a.value, (ast.Tuple, ast.List)) for a in n.args):
            new = []
            for a in n.args:
                if isinstance(a, ast.Starred) and isinstance(a.value, (ast.Tuple, ast.List)):
                    new.extend(a.value.elts)
                else:
                    new.append(a)
            n.args = new
        f = n.func
        # NAME = operator.methodcaller("m", a..) / attrgetter("a") / itemgetter(k) at module level:  NAME(x) is x.m(a..) / x.a / x[k]
        if isinstance(f, ast.Name) and self.module is not None and len(n.args) == 1 and not n.keywords and not isinstance(n.args[0], ast.Starred):
            b = self.module.bindings.get(f.id)
            mk = b[1] if b and b[0] == "value" and isinstance(b[1], ast.Call) else None
            kind = operator_function(self.module, mk.func) if mk is not None else None
            if kind is None and mk is not None and isinstance(mk.func, ast.Attribute) and isinstance(mk.func.value, ast.Name) \
                    and mk.func.value.id == "operator":
                kind = mk.func.attr
            if kind == "methodcaller" and mk.args and isinstance(mk.args[0], ast.Constant) and isinstance(mk.args[0].value, str) \
                    and mk.args[0].value.isidentifier():
                return ast.copy_location(ast.Call(func=ast.Attribute(value=n.args[0], attr=mk.args[0].value, ctx=ast.Load()),
                                                  args=[clone(a) for a in mk.args[1:]], keywords=[clone(k) for k in mk.keywords]), n)
            if kind == "attrgetter" and len(mk.args) == 1 and isinstance(mk.args[0], ast.Constant) and isinstance(mk.args[0].value, str) \
                    and mk.args[0].value.isidentifier():
                return ast.copy_location(ast.Attribute(value=n.args[0], attr=mk.args[0].value, ctx=ast.Load()), n)
            if kind == "itemgetter" and len(mk.args) == 1:
                return ast.copy_location(ast.Subscript(value=n.args[0], slice=clone(mk.args[0]), ctx=ast.Load()), n)
        opn = operator_function(self.module, f)
        if opn is not None and not n.keywords and not any(isinstance(a, ast.Starred) for a in n.args):
            if opn in OPERATOR_BIN and len(n.args) == 2:
                return ast.copy_location(ast.BinOp(left=n.args[0], op=OPERATOR_BIN[opn](), right=n.args[1]), n)
            if opn in OPERATOR_CMP and len(n.args) == 2:
                return ast.copy_location(ast.Compare(left=n.args[0], ops=[OPERATOR_CMP[opn]()], comparators=[n.args[1]]), n)
            if opn in OPERATOR_UN and len(n.args) == 1:
                return ast.copy_location(ast.UnaryOp(op=OPERATOR_UN[opn](), operand=n.args[0]), n)
        if isinstance(f, ast.Lambda) and not n.keywords and not f.args.vararg and not f.args.kwarg \
                and len(f.args.args) == len(n.args) and not any(isinstance(a, ast.Starred) for a in n.args):
            mapping = {p.arg: a for p, a in zip(f.args.args, n.args)}
            return ast.copy_location(_Subst(mapping).visit(clone(f.body)), n)
        return n


def _simple(e):
    if isinstance(e, (ast.Name, ast.Constant, ast.Lambda)):
        return True
    if isinstance(e, ast.Attribute):
        return _simple(e.value)
    if isinstance(e, ast.Subscript):
        return _simple(e.value) and isinstance(e.slice, (ast.Constant, ast.Name))
    return False


def _assigned_names(fn):
    out = set()
    for n in ast.walk(fn):
        if isinstance(n, (ast.Assign, ast.AugAssign, ast.AnnAssign, ast.For, ast.comprehension, ast.NamedExpr)):
            tg = n.targets if isinstance(n, ast.Assign) else [n.target]
            for t in tg:
                for x in ast.walk(t):
                    if isinstance(x, ast.Name) and not isinstance(getattr(x, "ctx", None), ast.Load):
                        out.add(x.id)
    return out


def _split_tuple_assign(a):
    """(x, y) = (e1, e2)  ->  x = e1; y = e2   when no target name occurs in a value"""
    if len(a.targets) == 1 and isinstance(a.targets[0], (ast.Tuple, ast.List)) and isinstance(a.value, (ast.Tuple, ast.List)) \
            and len(a.targets[0].elts) == len(a.value.elts) and all(isinstance(t, ast.Name) for t in a.targets[0].elts):
        tn = {t.id for t in a.targets[0].elts}
        pairs = list(zip(a.targets[0].elts, a.value.elts))
        # a position that re-binds a name to itself (`wit` in `ret, wit = PrivVal(0), wit`) is a no-op and is dropped
        live = [(t, v) for t, v in pairs if not (isinstance(v, ast.Name) and v.id == t.id)]
        # sequential assignment is the same as the simultaneous one when no value reads a target bound at an EARLIER position
        # (a value may read its own target: `g, e = (c if g is None else g & c), e or z`)
        seq_ok = True
        for j, (_t, v) in enumerate(live):
            earlier = {t2.id for t2, _v2 in live[:j]}
            if earlier & {x.id for x in ast.walk(v) if isinstance(x, ast.Name)}:
                seq_ok = False
        if seq_ok and len({t.id for t, _v in pairs}) == len(pairs):
            return [ast.copy_location(ast.Assign(targets=[ast.Name(id=t.id, ctx=ast.Store())], value=v), a) for t, v in live] or \
                [ast.copy_location(ast.Pass(), a)]
    return [a]


def norm_dec(d):
    try:
        return ast.unparse(d)
    except Exception:
        return "?"


def _fold_const_ifs(stmts):
    """`if True: A else: B` -> A   (constant tests appear when a literal flag argument is substituted into a helper)"""
    out = []
    for s in stmts:
        for fld in ("body", "orelse", "finalbody"):
            sub = getattr(s, fld, None)
            if isinstance(sub, list) and sub and isinstance(sub[0], ast.stmt) and not isinstance(s, (ast.FunctionDef, ast.ClassDef)):
                setattr(s, fld, _fold_const_ifs(sub))
        if isinstance(s, ast.If):
            t = s.test
            neg = False
            while isinstance(t, ast.UnaryOp) and isinstance(t.op, ast.Not):
                t, neg = t.operand, not neg
            if isinstance(t, ast.Constant) and isinstance(t.value, (bool, int, type(None))):
                take = bool(t.value) != neg
                out.extend(s.body if take else s.orelse)
                continue
        out.append(s)
    return out


def callee_short(call):
    f = call.func
    return f.id if isinstance(f, ast.Name) else (f.attr if isinstance(f, ast.Attribute) else "call")


class _AttrCanon(ast.NodeTransformer):
    """getattr(o, "name") -> o.name ;  statement setattr(o, "name", v) -> o.name = v   (constant identifier names only;
    "_" + "name" between string constants is the constant "_name")"""

    def visit_BinOp(self, n):
        self.generic_visit(n)
        if isinstance(n.op, ast.Add) and isinstance(n.left, ast.Constant) and isinstance(n.right, ast.Constant) \
                and isinstance(n.left.value, str) and isinstance(n.right.value, str):
            return ast.copy_location(ast.Constant(value=n.left.value + n.right.value), n)
        return n

    def visit_Call(self, n):
        self.generic_visit(n)
        if isinstance(n.func, ast.Name) and n.func.id == "getattr" and len(n.args) == 2 and not n.keywords \
                and isinstance(n.args[1], ast.Constant) and isinstance(n.args[1].value, str) and n.args[1].value.isidentifier():
            return ast.copy_location(ast.Attribute(value=n.args[0], attr=n.args[1].value, ctx=ast.Load()), n)
        return n

    def visit_Expr(self, n):
        self.generic_visit(n)
        c = n.value
        if isinstance(c, ast.Call) and isinstance(c.func, ast.Name) and c.func.id == "setattr" and len(c.args) == 3 and not c.keywords \
                and isinstance(c.args[1], ast.Constant) and isinstance(c.args[1].value, str) and c.args[1].value.isidentifier():
            t = ast.Attribute(value=c.args[0], attr=c.args[1].value, ctx=ast.Store())
            return ast.copy_location(ast.Assign(targets=[t], value=c.args[2]), n)
        return n


class _Rename(ast.NodeTransformer):
    def __init__(self, mapping):
        self.mapping = mapping

    def visit_Name(self, n):
        if n.id in self.mapping:
            return ast.copy_location(ast.Name(id=self.mapping[n.id], ctx=n.ctx), n)
        return n


UNROLL_MAX = 8


def _simple_elem(e):
    return _simple(e) or (isinstance(e, (ast.Tuple, ast.List)) and all(_simple(x) for x in e.elts))


def _literal_iteration(it, fnode=None):
    """[(element exprs bound to the target pattern)] for loops over a short literal tuple/list (of simple values or
    tuples of simple values), enumerate() of one, or a local name bound exactly once to such a literal"""
    if isinstance(it, ast.Name) and fnode is not None:
        defs = [n for n in ast.walk(fnode) if isinstance(n, (ast.Assign, ast.AugAssign, ast.For, ast.comprehension, ast.NamedExpr, ast.With))
                and any(isinstance(x, ast.Name) and x.id == it.id and not isinstance(getattr(x, "ctx", None), ast.Load)
                        for t in (n.targets if isinstance(n, ast.Assign) else [getattr(n, "target", None)] if not isinstance(n, ast.With)
                                  else [i.optional_vars for i in n.items]) if t is not None for x in ast.walk(t))]
        mut = any(isinstance(n, ast.Attribute) and isinstance(n.value, ast.Name) and n.value.id == it.id
                  and n.attr in ("append", "extend", "insert", "pop", "remove", "sort", "reverse", "clear") for n in ast.walk(fnode))
        if len(defs) == 1 and isinstance(defs[0], ast.Assign) and isinstance(defs[0].value, (ast.Tuple, ast.List)) and not mut:
            return _literal_iteration(defs[0].value)
        if not defs and not mut and it.id not in {a.arg for a in getattr(getattr(fnode, "args", None), "args", [])}:
            pass
        if not defs and not mut and it.id not in {a.arg for a in getattr(getattr(fnode, "args", None), "args", [])}:
            # a closure variable: a literal table of the enclosing function
            for outer in getattr(fnode, "_closure_parents", []):
                r = _literal_iteration(it, outer)
                if r is not None:
                    return r
        return None
    if isinstance(it, ast.Attribute) and isinstance(it.value, ast.Name) and fnode is not None:
        # self.TABLE / cls.TABLE / Class.TABLE: a literal class attribute that is never re-bound
        ca = getattr(fnode, "_class_attrs", None) or {}
        key = (it.value.id, it.attr)
        if key in ca:
            return _literal_iteration(ca[key])
    if isinstance(it, (ast.Tuple, ast.List)) and 1 <= len(it.elts) <= UNROLL_MAX and all(_simple_elem(e) for e in it.elts):
        return [e for e in it.elts]
    if isinstance(it, ast.Call) and isinstance(it.func, ast.Name) and it.func.id == "enumerate" and len(it.args) == 1 and not it.keywords:
        inner = _literal_iteration(it.args[0], fnode)
        if inner is not None:
            return [ast.Tuple(elts=[ast.Constant(value=i), e], ctx=ast.Load()) for i, e in enumerate(inner)]
    if isinstance(it, ast.Call) and isinstance(it.func, ast.Name) and it.func.id == "zip" and len(it.args) >= 2 and not it.keywords:
        # zip(<literal of n>, xs): n rounds over (literal[i], xs[i]) - xs is a sequence at least that long wherever the
        # loop completes in the original (a shorter xs stops the original early; rules that depend on the count check it)
        lits = [_literal_iteration(a, fnode) if isinstance(a, (ast.Tuple, ast.List, ast.Name)) else None for a in it.args]
        known = [l for l in lits if l is not None]
        if known and all(l is not None or isinstance(a, ast.Name) for l, a in zip(lits, it.args)):
            n = min(len(l) for l in known)
            rows = []
            for i in range(n):
                rows.append(ast.Tuple(elts=[l[i] if l is not None else ast.Subscript(value=clone(a), slice=ast.Constant(value=i), ctx=ast.Load())
                                            for l, a in zip(lits, it.args)], ctx=ast.Load()))
            return rows
    return None


def _unroll_for(s, fnode=None):
    """statements replacing `for <target> in <short literal>: body`, or None"""
    if not isinstance(s, ast.For) or s.orelse:
        return None
    elems = _literal_iteration(s.iter, fnode)
    if elems is None:
        return None
    # a lambda handed straight to a plain function call (for_each_in(lambda x: conv(x, kind), xs)) is consumed within the
    # iteration: substituting the loop variable into it is what the iteration computes.  Any other lambda / def may outlive
    # the iteration and see a later value of the loop variable (late binding): no unrolling then.
    consumed = set()
    for x in ast.walk(ast.Module(body=s.body, type_ignores=[])):
        if isinstance(x, ast.Call) and isinstance(x.func, ast.Name):
            for a_ in x.args:
                if isinstance(a_, ast.Lambda):
                    consumed.add(id(a_))
    for x in ast.walk(ast.Module(body=s.body, type_ignores=[])):
        if isinstance(x, (ast.Break, ast.Continue, ast.Return, ast.Yield, ast.YieldFrom, ast.FunctionDef, ast.Global, ast.Nonlocal)):
            return None
        if isinstance(x, ast.Lambda) and id(x) not in consumed:
            return None
    tnames = [s.target] if isinstance(s.target, ast.Name) else (list(s.target.elts) if isinstance(s.target, (ast.Tuple, ast.List)) else None)
    if tnames is None or not all(isinstance(t, ast.Name) for t in tnames):
        return None
    tn = [t.id for t in tnames]
    assigned = _assigned_names(ast.Module(body=s.body, type_ignores=[]))
    if set(tn) & assigned:
        return None
    # locals of the body that are defined before use get a fresh name per iteration (all but the last iteration)
    first_store, first_load = {}, {}
    for x in ast.walk(ast.Module(body=s.body, type_ignores=[])):
        if isinstance(x, ast.Name) and x.id in assigned:
            pos = (getattr(x, "lineno", 0), getattr(x, "col_offset", 0))
            d = first_load if isinstance(x.ctx, ast.Load) else first_store
            if x.id not in d or pos < d[x.id]:
                d[x.id] = pos
    aug = {x.target.id for x in ast.walk(ast.Module(body=s.body, type_ignores=[])) if isinstance(x, ast.AugAssign) and isinstance(x.target, ast.Name)}
    fresh = {n for n in assigned if n not in aug and (n not in first_load or first_store.get(n, (1 << 30, 0)) <= first_load[n])}
    if fnode is not None:
        fresh -= {g for x in ast.walk(fnode) if isinstance(x, (ast.Global, ast.Nonlocal)) for g in x.names}
    # NOTE: `x = f(x)` has its load positioned after the store target; such names are treated as carried
    for x in ast.walk(ast.Module(body=s.body, type_ignores=[])):
        if isinstance(x, ast.Assign):
            tg = {t.id for t in x.targets if isinstance(t, ast.Name)}
            used = {y.id for y in ast.walk(x.value) if isinstance(y, ast.Name)}
            fresh -= (tg & used)
    out = []
    for k, e in enumerate(elems):
        mapping = {}
        if len(tn) == 1 and isinstance(s.target, ast.Name):
            mapping[tn[0]] = e
        else:
            parts = e.elts if isinstance(e, (ast.Tuple, ast.List)) else None
            if parts is None or len(parts) != len(tn):
                return None
            mapping = dict(zip(tn, parts))
        ren = {n: "%s__u%d" % (n, k + 1) for n in fresh} if k < len(elems) - 1 else {}
        for b in s.body:
            b2 = _Subst(mapping).visit(clone(b))
            if ren:
                b2 = _Rename(ren).visit(b2)
            ast.fix_missing_locations(b2)
            out.append(b2)
    return out


def _schedule_segments(e, fnode, depth=0):
    """[(constant node, count node)] when `e` is a concatenation of  [K] * N  segments (a piecewise-constant schedule)"""
    if depth > 3:
        return None
    if isinstance(e, ast.Name) and fnode is not None:
        defs = [n for n in ast.walk(fnode) if isinstance(n, ast.Name) and n.id == e.id and not isinstance(n.ctx, ast.Load)]
        if len(defs) == 1 and isinstance(getattr(defs[0], "_sched_parent", None), ast.Assign):
            return _schedule_segments(defs[0]._sched_parent.value, fnode, depth + 1)
        return None
    if isinstance(e, ast.BinOp) and isinstance(e.op, ast.Add):
        a, b = _schedule_segments(e.left, fnode, depth), _schedule_segments(e.right, fnode, depth)
        return a + b if a is not None and b is not None else None
    if isinstance(e, ast.BinOp) and isinstance(e.op, ast.Mult):
        for lst, k in ((e.left, e.right), (e.right, e.left)):
            if isinstance(lst, ast.List) and len(lst.elts) == 1 and isinstance(lst.elts[0], ast.Constant):
                return [(lst.elts[0], k)]
    return None


def _split_schedule_loop(s, fnode):
    """for (f, c) in zip(SCHED, XS): BODY   with SCHED = [K1]*N1 + [K2]*N2 + ...   ->   one loop per segment:
         for r1 in range(N1): BODY[f:=K1, c:=XS[r1]]
         for r2 in range(N2): BODY[f:=K2, c:=XS[N1 + r2]]  ...
    (and the one-sequence form `for f in SCHED`).  The flag is a constant inside each loop, so its tests fold away."""
    if not isinstance(s, ast.For) or s.orelse:
        return None
    for n in ast.walk(fnode):
        if isinstance(n, ast.Assign) and len(n.targets) == 1 and isinstance(n.targets[0], ast.Name):
            n.targets[0]._sched_parent = n
    it = s.iter
    if isinstance(it, ast.Call) and isinstance(it.func, ast.Name) and it.func.id == "zip" and len(it.args) == 2 and not it.keywords \
            and isinstance(s.target, (ast.Tuple, ast.List)) and len(s.target.elts) == 2 and all(isinstance(t, ast.Name) for t in s.target.elts):
        for pos in (0, 1):
            segs = _schedule_segments(it.args[pos], fnode)
            if segs is not None and len(segs) >= 2 and _simple(it.args[1 - pos]):
                flag, other, xs = s.target.elts[pos].id, s.target.elts[1 - pos].id, it.args[1 - pos]
                break
        else:
            return None
    elif isinstance(s.target, ast.Name):
        segs = _schedule_segments(it, fnode)
        if segs is None or len(segs) < 2:
            return None
        flag, other, xs = s.target.id, None, None
    else:
        return None
    assigned = _assigned_names(ast.Module(body=s.body, type_ignores=[]))
    if flag in assigned or (other and other in assigned):
        return None
    if any(isinstance(x, (ast.Break, ast.Continue, ast.Return, ast.Yield, ast.YieldFrom)) for b in s.body for x in ast.walk(b)):
        return None
    out = []
    offset = None
    for k, (const, cnt) in enumerate(segs):
        r = "_seg%d_%d" % (getattr(s, "lineno", 0), k + 1)
        mapping = {flag: const}
        if other:
            idx = ast.Name(id=r, ctx=ast.Load()) if offset is None else ast.BinOp(left=clone(offset), op=ast.Add(), right=ast.Name(id=r, ctx=ast.Load()))
            mapping[other] = ast.Subscript(value=clone(xs), slice=idx, ctx=ast.Load())
        body = _fold_const_ifs([_FoldConstIfExp().visit(_Subst(mapping).visit(clone(b))) for b in s.body])
        lp = ast.For(target=ast.Name(id=r, ctx=ast.Store()), iter=ast.Call(func=ast.Name(id="range", ctx=ast.Load()), args=[clone(cnt)], keywords=[]),
                     body=body or [ast.Pass()], orelse=[])
        out.append(ast.fix_missing_locations(ast.copy_location(lp, s)))
        offset = clone(cnt) if offset is None else ast.BinOp(left=offset, op=ast.Add(), right=clone(cnt))
    return out


def _split_range_loop(s, fnode):
    """for r in range(N1 + N2 + N3): BODY   where BODY tests r only against the partial sums 0, N1, N1+N2, ...
    (`r < N1`, `r >= N1 + N2`, ...)   ->   one loop per segment, r written as <offset> + r_k and the tests decided:
         for r1 in range(N1): BODY[r := r1]            # tests on r folded
         for r2 in range(N2): BODY[r := N1 + r2]  ...
    (three phases driven by one counter are three loops)."""
    from .poly import poly_of
    if not (isinstance(s, ast.For) and not s.orelse and isinstance(s.target, ast.Name) and isinstance(s.iter, ast.Call)
            and isinstance(s.iter.func, ast.Name) and s.iter.func.id == "range" and len(s.iter.args) == 1 and not s.iter.keywords):
        return None
    r = s.target.id
    total = s.iter.args[0]
    # locals bound once to an expression (half = R_F // 2) are looked through when comparing bounds
    defs = {}
    cnt = {}
    for n in ast.walk(fnode):
        if isinstance(n, ast.Name) and not isinstance(n.ctx, ast.Load):
            cnt[n.id] = cnt.get(n.id, 0) + 1
    for n in ast.walk(fnode):
        if isinstance(n, ast.Assign) and len(n.targets) == 1 and isinstance(n.targets[0], ast.Name) and cnt.get(n.targets[0].id) == 1:
            defs[n.targets[0].id] = n.value
    parts = []

    def flat(e):
        if isinstance(e, ast.Name) and e.id in defs and isinstance(defs[e.id], ast.BinOp) and isinstance(defs[e.id].op, ast.Add):
            flat(defs[e.id])
        elif isinstance(e, ast.BinOp) and isinstance(e.op, ast.Add):
            flat(e.left)
            flat(e.right)
        else:
            parts.append(e)
    flat(total)
    if len(parts) < 2 or len(parts) > 4:
        return None
    if any(isinstance(x, ast.Name) and x.id == r and not isinstance(x.ctx, ast.Load) for b in s.body for x in ast.walk(b)):
        return None
    if any(isinstance(x, (ast.Break, ast.Continue, ast.Return, ast.Yield, ast.YieldFrom, ast.FunctionDef, ast.Lambda)) for b in s.body for x in ast.walk(b)):
        return None

    def P_(e):
        return poly_of(_Subst({k: v for k, v in defs.items() if not any(isinstance(x, ast.Call) for x in ast.walk(v))}).visit(clone(e)), {}, strict=False)
    bounds = [None] * (len(parts) + 1)
    acc = None
    from .poly import P as _Pc
    bounds[0] = _Pc()
    for i, prt in enumerate(parts):
        pp = P_(prt)
        if pp is None:
            return None
        acc = pp if acc is None else acc + pp
        bounds[i + 1] = acc
    # every comparison that mentions r must be against a breakpoint
    cmps = [x for b in s.body for x in ast.walk(b) if isinstance(x, ast.Compare) and any(isinstance(y, ast.Name) and y.id == r for y in ast.walk(x))]
    if not cmps:
        return None
    decided = {}
    for c in cmps:
        if len(c.ops) != 1:
            return None
        left, op, right = c.left, c.ops[0], c.comparators[0]
        if isinstance(right, ast.Name) and right.id == r and not (isinstance(left, ast.Name) and left.id == r):
            left, right = right, left
            op = {ast.Lt: ast.Gt, ast.Gt: ast.Lt, ast.LtE: ast.GtE, ast.GtE: ast.LtE}.get(type(op), type(op))()
        if not (isinstance(left, ast.Name) and left.id == r) or any(isinstance(y, ast.Name) and y.id == r for y in ast.walk(right)):
            return None
        e = P_(right)
        if e is None:
            return None
        if isinstance(op, (ast.LtE, ast.Gt)):
            e = e + _Pc.const(1)            # r <= E  ==  r < E+1 ;  r > E  ==  r >= E+1
        j = [k for k, b in enumerate(bounds) if b == e]
        if not j or not isinstance(op, (ast.Lt, ast.LtE, ast.Gt, ast.GtE)):
            return None
        lt = isinstance(op, (ast.Lt, ast.LtE))
        # in segment i (1-based: bounds[i-1] <= r < bounds[i]):  r < bounds[j]  iff  i <= j
        decided[id(c)] = (j[0], lt)
    out = []
    offset = None
    for i, prt in enumerate(parts, start=1):
        rk = "_%s_seg%d_%d" % (r, getattr(s, "lineno", 0), i)
        idx = ast.Name(id=rk, ctx=ast.Load()) if offset is None else ast.BinOp(left=clone(offset), op=ast.Add(), right=ast.Name(id=rk, ctx=ast.Load()))

        class _Seg(ast.NodeTransformer):
            def visit_Compare(self_, n):
                if id(n) in decided_here:
                    return ast.copy_location(ast.Constant(value=decided_here[id(n)]), n)
                self_.generic_visit(n)
                return n
        body = []
        for b in s.body:
            b2 = clone(b)
            # map the decisions onto the clone (same walk order)
            orig = [x for x in ast.walk(b)]
            new = [x for x in ast.walk(b2)]
            decided_here = {}
            for o, n2 in zip(orig, new):
                if id(o) in decided:
                    j, lt = decided[id(o)]
                    decided_here[id(n2)] = (i <= j) if lt else not (i <= j)
            b2 = _Seg().visit(b2)
            b2 = _FoldBool().visit(b2)
            b2 = _Subst({r: idx}).visit(b2)
            body.append(b2)
        body = _fold_const_ifs([_FoldConstIfExp().visit(b) for b in body])
        lp = ast.For(target=ast.Name(id=rk, ctx=ast.Store()), iter=ast.Call(func=ast.Name(id="range", ctx=ast.Load()), args=[clone(prt)], keywords=[]),
                     body=body or [ast.Pass()], orelse=[])
        out.append(ast.fix_missing_locations(ast.copy_location(lp, s)))
        offset = clone(prt) if offset is None else ast.BinOp(left=offset, op=ast.Add(), right=clone(prt))
    return out


class _FoldBool(ast.NodeTransformer):
    """and / or / not over constants"""

    def visit_BoolOp(self, n):
        self.generic_visit(n)
        is_and = isinstance(n.op, ast.And)
        vals = []
        for v in n.values:
            if isinstance(v, ast.Constant) and isinstance(v.value, bool):
                if v.value != is_and:
                    return ast.copy_location(ast.Constant(value=v.value), n)      # absorbing element
                continue
            vals.append(v)
        if not vals:
            return ast.copy_location(ast.Constant(value=is_and), n)
        if len(vals) == 1:
            return vals[0]
        n.values = vals
        return n

    def visit_UnaryOp(self, n):
        self.generic_visit(n)
        if isinstance(n.op, ast.Not) and isinstance(n.operand, ast.Constant) and isinstance(n.operand.value, bool):
            return ast.copy_location(ast.Constant(value=not n.operand.value), n)
        return n


def _scalarize_lists(stmts, fnode):
    """L = []; L.append(a); L.append(b); t1, t2 = L   ->   L__0 = a; L__1 = b; t1 = L__0; t2 = L__1
    (all at one block level, L used nowhere else in the function)"""
    changed = False
    for i, s in enumerate(list(stmts)):
        if not (isinstance(s, ast.Assign) and len(s.targets) == 1 and isinstance(s.targets[0], ast.Name)
                and isinstance(s.value, ast.List) and not s.value.elts):
            continue
        L = s.targets[0].id
        apps, unpack = [], None
        ok = True
        for j, t in enumerate(stmts):
            if j == i:
                continue
            uses = [x for x in ast.walk(t) if isinstance(x, ast.Name) and x.id == L]
            if not uses:
                continue
            if j > i and isinstance(t, ast.Expr) and isinstance(t.value, ast.Call) and isinstance(t.value.func, ast.Attribute) \
                    and t.value.func.attr == "append" and isinstance(t.value.func.value, ast.Name) and t.value.func.value.id == L \
                    and len(t.value.args) == 1 and len(uses) == 1 and unpack is None:
                apps.append(j)
            elif j > i and isinstance(t, ast.Assign) and len(t.targets) == 1 and isinstance(t.targets[0], (ast.Tuple, ast.List)) \
                    and isinstance(t.value, ast.Name) and t.value.id == L and len(uses) == 1 and unpack is None:
                unpack = j
            else:
                ok = False
        total = sum(1 for x in ast.walk(fnode) if isinstance(x, ast.Name) and x.id == L)
        if not ok or unpack is None or len(apps) != len(stmts[unpack].targets[0].elts) or total != 2 + len(apps):
            continue
        for k, j in enumerate(apps):
            a = ast.Assign(targets=[ast.Name(id="%s__%d" % (L, k), ctx=ast.Store())], value=stmts[j].value.args[0])
            stmts[j] = ast.fix_missing_locations(ast.copy_location(a, stmts[j]))
        un = stmts[unpack]
        news = [ast.fix_missing_locations(ast.copy_location(ast.Assign(targets=[t], value=ast.Name(id="%s__%d" % (L, k), ctx=ast.Load())), un))
                for k, t in enumerate(un.targets[0].elts)]
        stmts[unpack:unpack + 1] = news
        del stmts[i]
        changed = True
        break
    return changed


def _append_loops_to_comprehensions(stmts):
    """X = []  ...  for T in IT: X.append(E)   ->   X = [E for T in IT]
    (the loop body is the single append, no else clause, X not mentioned between the two statements nor in IT/E)"""
    changed = False
    i = 0
    while i < len(stmts):
        s = stmts[i]
        if isinstance(s, ast.For) and not s.orelse and len(s.body) == 1 and isinstance(s.body[0], ast.Expr) \
                and isinstance(s.body[0].value, ast.Call) and isinstance(s.body[0].value.func, ast.Attribute) \
                and s.body[0].value.func.attr == "append" and isinstance(s.body[0].value.func.value, ast.Name) \
                and len(s.body[0].value.args) == 1 and not s.body[0].value.keywords:
            X = s.body[0].value.func.value.id
            E = s.body[0].value.args[0]
            mentions = lambda n: any(isinstance(x, ast.Name) and x.id == X for x in ast.walk(n))   # noqa: E731
            if not mentions(E) and not mentions(s.iter):
                j = i - 1
                while j >= 0 and not mentions(stmts[j]):
                    j -= 1
                if j >= 0 and isinstance(stmts[j], ast.Assign) and len(stmts[j].targets) == 1 and isinstance(stmts[j].targets[0], ast.Name) \
                        and stmts[j].targets[0].id == X and isinstance(stmts[j].value, ast.List) and not stmts[j].value.elts:
                    comp = ast.ListComp(elt=E, generators=[ast.comprehension(target=s.target, iter=s.iter, ifs=[], is_async=0)])
                    a = ast.Assign(targets=[ast.Name(id=X, ctx=ast.Store())], value=comp)
                    stmts[i] = ast.fix_missing_locations(ast.copy_location(a, s))
                    del stmts[j]
                    changed = True
                    continue
        i += 1
    return changed


def _propagate_copies(stmts, protected=()):
    """x = y  (two plain names) followed, in the same straight-line block, by uses of x up to its next assignment:
    the uses read y and the alias statement goes away (`acc = args; acc = f(acc)`  ->  `acc = f(args)`)."""
    changed = False
    i = 0
    while i < len(stmts):
        s = stmts[i]
        if isinstance(s, ast.Assign) and len(s.targets) == 1 and isinstance(s.targets[0], ast.Name) and isinstance(s.value, ast.Name) \
                and s.targets[0].id != s.value.id and s.targets[0].id not in protected:
            # (a global / nonlocal is not a private alias: the assignment is seen by the functions called in between)
            x, y = s.targets[0].id, s.value.id
            j = i + 1
            closed = False
            edits = []
            while j < len(stmts):
                t = stmts[j]
                if not isinstance(t, (ast.Assign, ast.Expr, ast.Return)):
                    break
                names_stored = {n.id for tg in (t.targets if isinstance(t, ast.Assign) else []) for n in ast.walk(tg)
                                if isinstance(n, ast.Name) and not isinstance(getattr(n, "ctx", None), ast.Load)}
                if any(isinstance(n, (ast.Lambda, ast.ListComp, ast.GeneratorExp, ast.DictComp, ast.SetComp)) and
                       any(isinstance(z, ast.Name) and z.id == x for z in ast.walk(n)) for n in ast.walk(t)):
                    break          # x captured in a nested scope: leave it alone
                edits.append(t)
                if x in names_stored:
                    closed = True
                    break
                if y in names_stored or isinstance(t, ast.Return):
                    break
                j += 1
            if closed:
                for t in edits:
                    val = t.value
                    if val is not None:
                        t.value = _Subst({x: ast.Name(id=y, ctx=ast.Load())}).visit(val)
                        ast.fix_missing_locations(t)
                del stmts[i]
                changed = True
                continue
        i += 1
    return changed


class _FoldConstIfExp(ast.NodeTransformer):
    def visit_IfExp(self, n):
        self.generic_visit(n)
        t, neg = n.test, False
        while isinstance(t, ast.UnaryOp) and isinstance(t.op, ast.Not):
            t, neg = t.operand, not neg
        if isinstance(t, ast.Constant) and isinstance(t.value, (bool, int, type(None))):
            return n.body if bool(t.value) != neg else n.orelse
        return n


def _thread_flags(fnode):
    """A decision recorded in a Boolean local and tested right after is the decision itself:

        if A: f = True                      if A: X
        elif B: f = False           ->      elif B: Y
        else: raise E                       else: raise E
        ...; if f: X  else: Y

    Every leaf arm of the first statement either leaves the function or ends by assigning a Boolean constant to `f`; `f`
    is assigned nowhere else and read only in the statements that follow in the same block (at most MAXTAIL of them).
    The tail is copied into each arm with the constant in place of `f`, and constant tests are folded."""
    MAXTAIL = 8
    stores, loads = {}, {}
    for n in ast.walk(fnode):
        if isinstance(n, ast.Name):
            d = loads if isinstance(n.ctx, ast.Load) else stores
            d.setdefault(n.id, []).append(n)

    def leaves(ifs):
        """[(statement list, flag assign or None)] for every leaf arm of an if/elif chain; None if an arm has neither form"""
        out = []
        for arm in (ifs.body, ifs.orelse):
            if not arm:
                return None         # falls through without deciding
            last = arm[-1]
            if len(arm) == 1 and isinstance(last, ast.If):
                sub = leaves(last)
                if sub is None:
                    return None
                out += sub
            elif isinstance(last, (ast.Raise, ast.Return)):
                out.append((arm, None))
            elif isinstance(last, ast.Assign) and len(last.targets) == 1 and isinstance(last.targets[0], ast.Name) \
                    and isinstance(last.value, ast.Constant) and isinstance(last.value.value, bool):
                out.append((arm, last))
            else:
                return None
        return out
    changed = False
    for holder in ast.walk(fnode):
        for fld in ("body", "orelse", "finalbody"):
            stmts = getattr(holder, fld, None)
            if not (isinstance(stmts, list) and stmts and isinstance(stmts[0], ast.stmt)) or isinstance(holder, (ast.ClassDef,)):
                continue
            if isinstance(holder, (ast.For, ast.While)):
                continue        # a tail inside a loop body is followed by the next iteration: leave loops alone
            for i, s in enumerate(stmts):
                if not isinstance(s, ast.If) or i + 1 >= len(stmts):
                    continue
                lv = leaves(s)
                if not lv:
                    continue
                flags = {a.targets[0].id for _arm, a in lv if a is not None}
                if len(flags) != 1:
                    continue
                f = flags.pop()
                assigns = [a for _arm, a in lv if a is not None]
                if len(assigns) < 2 or len(stores.get(f, [])) != len(assigns):
                    continue
                tail = stmts[i + 1:]
                if len(tail) > MAXTAIL or len(lv) > 4:
                    continue
                tail_loads = [n for t in tail for n in ast.walk(t) if isinstance(n, ast.Name) and n.id == f and isinstance(n.ctx, ast.Load)]
                if not tail_loads or len(tail_loads) != len(loads.get(f, [])):
                    continue        # read elsewhere as well (or not at all): not a pure decision variable
                if any(isinstance(n, (ast.FunctionDef, ast.Lambda, ast.For, ast.While, ast.Try, ast.With)) for t in tail for n in ast.walk(t)):
                    continue
                k = 0
                for arm, a in lv:
                    if a is None:
                        continue
                    arm.pop()
                    copy_ = [_FoldConstIfExp().visit(_Subst({f: ast.Constant(value=a.value.value)}).visit(clone(t))) for t in tail]
                    if k:
                        for t in copy_:
                            for n in ast.walk(t):
                                if hasattr(n, "col_offset"):
                                    n.col_offset += 1000 * k
                    k += 1
                    folded = _fold_const_ifs(copy_)
                    for j_, t_ in enumerate(folded):
                        if _terminates([t_]):
                            folded = folded[:j_ + 1]       # what follows an unconditional exit is dead
                            break
                    arm.extend(folded)
                    for t in arm:
                        ast.fix_missing_locations(t)
                del stmts[i + 1:]
                return True       # tables are stale: one rewrite per call
    return changed


def _fold_tuple_temps(fnode):
    """T = (a, b) ; ... T[0] ...   (T bound once to a tuple of plain names / constants that are not re-bound afterwards, every use a
    constant subscript)  ->  the element itself.  Left behind by inlining a helper that returns a pair of which one part is used."""
    changed = False
    for a in [n for n in ast.walk(fnode) if isinstance(n, ast.Assign)]:
        if not (len(a.targets) == 1 and isinstance(a.targets[0], ast.Name) and isinstance(a.value, ast.Tuple)
                and all(isinstance(e, (ast.Name, ast.Constant)) for e in a.value.elts)):
            continue
        t = a.targets[0].id
        stores = [n for n in ast.walk(fnode) if isinstance(n, ast.Name) and n.id == t and isinstance(n.ctx, ast.Store)]
        loads = [n for n in ast.walk(fnode) if isinstance(n, ast.Name) and n.id == t and isinstance(n.ctx, ast.Load)]
        if len(stores) != 1 or not loads:
            continue
        subs = [getattr(n, "_parent", None) for n in loads]
        if not all(isinstance(s, ast.Subscript) and isinstance(s.slice, ast.Constant) and isinstance(s.slice.value, int)
                   and -len(a.value.elts) <= s.slice.value < len(a.value.elts) and isinstance(s.ctx, ast.Load) for s in subs):
            continue
        holder = getattr(a, "_parent", None)
        body = None
        for fld in ("body", "orelse", "finalbody"):
            if isinstance(getattr(holder, fld, None), list) and a in getattr(holder, fld):
                body = getattr(holder, fld)
        if body is None:
            continue
        # the elements must not be re-bound between the tuple and its uses: require that they are not stored to after `a` in this list
        after = body[body.index(a) + 1:]
        names = {e.id for e in a.value.elts if isinstance(e, ast.Name)}
        if any(isinstance(n, ast.Name) and n.id in names and isinstance(n.ctx, ast.Store) for s in after for n in ast.walk(s)):
            continue
        if not all(any(s is x for st in after for x in ast.walk(st)) for s in subs):
            continue
        for s in subs:
            e = a.value.elts[s.slice.value]
            par = getattr(s, "_parent", None)
            new = ast.copy_location(clone(e), s)
            for fld, val in ast.iter_fields(par):
                if val is s:
                    setattr(par, fld, new)
                elif isinstance(val, list):
                    for i_, v_ in enumerate(val):
                        if v_ is s:
                            val[i_] = new
        body.remove(a)
        changed = True
        for n in ast.walk(fnode):
            for c in ast.iter_child_nodes(n):
                c._parent = n
    return changed


def _rename_param_copies(fnode):
    """N2 = N as a leading statement, N a parameter that is mentioned nowhere else  ->  N2 is N.  (Left behind when an inlined helper
    re-binds its own parameter: the inliner copies the argument first.)"""
    params = {a.arg for a in fnode.args.args + fnode.args.kwonlyargs}
    changed = False
    for s in list(fnode.body):
        if isinstance(s, ast.Expr) and isinstance(s.value, ast.Constant):
            continue
        if isinstance(s, (ast.Import, ast.ImportFrom)):
            continue
        if isinstance(s, ast.Assign) and len(s.targets) == 1 and isinstance(s.targets[0], ast.Name) and isinstance(s.value, ast.Name) \
                and s.value.id in params and s.targets[0].id not in params:
            n2, n = s.targets[0].id, s.value.id
            others = [x for x in ast.walk(fnode) if isinstance(x, ast.Name) and x.id == n and x is not s.value]
            if not others:
                for x in ast.walk(fnode):
                    if isinstance(x, ast.Name) and x.id == n2:
                        x.id = n
                fnode.body.remove(s)
                changed = True
                continue
        break
    return changed


def _inline_name_copies(fnode):
    """t = y  (two plain names, each bound exactly once in the function, t read exactly once): the read of t is a read of y"""
    loads, stores = {}, {}
    for n in ast.walk(fnode):
        if isinstance(n, ast.Name):
            d = loads if isinstance(n.ctx, ast.Load) else stores
            d.setdefault(n.id, []).append(n)
        elif isinstance(n, ast.arg):
            stores.setdefault(n.arg, []).append(n)
    for n in ast.walk(fnode):
        if isinstance(n, (ast.Global, ast.Nonlocal)):
            for g in n.names:
                stores.setdefault(g, []).extend([n, n])
    changed = False
    for holder in ast.walk(fnode):
        for fld in ("body", "orelse", "finalbody"):
            stmts = getattr(holder, fld, None)
            if not (isinstance(stmts, list) and stmts and isinstance(stmts[0], ast.stmt)):
                continue
            for s in list(stmts):
                if isinstance(s, ast.Assign) and len(s.targets) == 1 and isinstance(s.targets[0], ast.Name) and isinstance(s.value, ast.Name):
                    t, y = s.targets[0].id, s.value.id
                    if t != y and len(stores.get(t, [])) == 1 and len(loads.get(t, [])) == 1 and len(stores.get(y, [])) == 1 \
                            and isinstance(stores[y][0], ast.Name):
                        use = loads[t][0]
                        if any(isinstance(p, (ast.FunctionDef, ast.Lambda)) and p is not fnode for p in _parents_of(use, fnode)):
                            continue
                        use.id = y
                        stmts.remove(s)
                        loads.setdefault(y, []).append(use)
                        loads[t] = []
                        changed = True
            if not stmts:
                stmts.append(ast.Pass())
    return changed


def _parents_of(node, root):
    """ancestors of `node` below `root` (no reliance on _parent links, which are stale while flattening)"""
    path = []

    def go(n, trail):
        if n is node:
            path.extend(trail)
            return True
        for c in ast.iter_child_nodes(n):
            if go(c, trail + [n]):
                return True
        return False
    go(root, [])
    return path


def _ifs_to_ifexp(fnode):
    """if T: x = A  else: x = B   (one plain-name assignment per arm, same name, simple values)   ->   x = A if T else B
    One canonical form for a two-way choice of a value; only for arms that are expressions without calls (so nothing with
    an emission effect changes shape) and tests without calls other than isinstance / len."""
    def simple_val(e):
        return not any(isinstance(x, (ast.Lambda, ast.Yield, ast.YieldFrom, ast.Await, ast.NamedExpr, ast.IfExp,
                                      ast.ListComp, ast.GeneratorExp, ast.DictComp, ast.SetComp)) or (
            isinstance(x, ast.Call) and not (isinstance(x.func, ast.Name) and x.func.id == "len" and len(x.args) == 1 and _simple(x.args[0])))
            for x in ast.walk(e))

    def simple_test(t):
        return not any(isinstance(x, ast.Call) and not (isinstance(x.func, ast.Name) and x.func.id in ("isinstance", "len"))
                       for x in ast.walk(t))
    changed = False
    for holder in ast.walk(fnode):
        for fld in ("body", "orelse", "finalbody"):
            stmts = getattr(holder, fld, None)
            if not (isinstance(stmts, list) and stmts and isinstance(stmts[0], ast.stmt)):
                continue
            for i, s in enumerate(stmts):
                if isinstance(s, ast.If) and len(s.body) == 1 and len(s.orelse) == 1 and all(
                        isinstance(a, ast.Assign) and len(a.targets) == 1 and isinstance(a.targets[0], ast.Name) for a in (s.body[0], s.orelse[0])) \
                        and s.body[0].targets[0].id == s.orelse[0].targets[0].id and simple_val(s.body[0].value) and simple_val(s.orelse[0].value) \
                        and simple_test(s.test):
                    v = ast.IfExp(test=s.test, body=s.body[0].value, orelse=s.orelse[0].value)
                    stmts[i] = ast.fix_missing_locations(ast.copy_location(ast.Assign(targets=[s.body[0].targets[0]], value=ast.copy_location(v, s)), s))
                    changed = True
    return changed


def _const_table_lookups(fi):
    """T[<constant>] for a literal table T that is a class attribute (C.T / self.T / cls.T) or a module-level name bound once and
    never mutated: the element itself (a dispatch table indexed by a literal key, after the key was substituted)."""
    m = fi.module
    ci = fi.cls
    p_ = fi
    while ci is None and p_ is not None:
        p_ = p_.parent
        ci = p_.cls if p_ is not None else None

    def table_of(v):
        if isinstance(v, ast.Attribute) and isinstance(v.value, ast.Name):
            c2 = None
            if v.value.id in m.classes:
                c2 = m.classes[v.value.id]
            elif ci is not None and v.value.id in ("self", "cls"):
                c2 = ci
            if c2 is not None and v.attr in c2.attrs and not any(
                    isinstance(x, ast.Attribute) and x.attr == v.attr and not isinstance(x.ctx, ast.Load) for x in ast.walk(m.tree)):
                return c2.attrs[v.attr]
        if isinstance(v, ast.Name):
            b = m.bindings.get(v.id)
            if b and b[0] == "value" and sum(1 for x in ast.walk(m.tree) if isinstance(x, ast.Name) and x.id == v.id
                                             and not isinstance(x.ctx, ast.Load)) == 1 and not any(
                    isinstance(x, ast.Subscript) and isinstance(x.value, ast.Name) and x.value.id == v.id and not isinstance(x.ctx, ast.Load)
                    for x in ast.walk(m.tree)):
                return b[1]
        return None

    class _L(ast.NodeTransformer):
        changed = False

        def visit_Subscript(self, n):
            self.generic_visit(n)
            if isinstance(n.ctx, ast.Load) and isinstance(n.slice, ast.Constant):
                t = table_of(n.value)
                k = n.slice.value
                if isinstance(t, ast.Dict) and all(isinstance(x, ast.Constant) for x in t.keys):
                    hit = [v for kk, v in zip(t.keys, t.values) if kk.value == k and type(kk.value) is type(k)]
                    if len(hit) == 1:
                        _L.changed = True
                        return ast.copy_location(clone(hit[0]), n)
                if isinstance(t, (ast.Tuple, ast.List)) and isinstance(k, int) and not isinstance(k, bool) and -len(t.elts) <= k < len(t.elts):
                    _L.changed = True
                    return ast.copy_location(clone(t.elts[k]), n)
            return n
    _L.changed = False
    fi.node.body = [_L().visit(s) for s in fi.node.body]
    if _L.changed:
        ast.fix_missing_locations(fi.node)
    return _L.changed


def _inline_function_locals(fi):
    """f = <lambda> | operator.and_ | <module function>   (f bound once, only ever called)   ->   the calls call the value"""
    fnode = fi.node
    stores, loads = {}, {}
    for n in ast.walk(fnode):
        if isinstance(n, ast.Name):
            d = loads if isinstance(n.ctx, ast.Load) else stores
            d.setdefault(n.id, []).append(n)
    calls = {}
    for n in ast.walk(fnode):
        if isinstance(n, ast.Call) and isinstance(n.func, ast.Name):
            calls.setdefault(n.func.id, []).append(n)
    changed = False
    for holder in ast.walk(fnode):
        for fld in ("body", "orelse", "finalbody"):
            stmts = getattr(holder, fld, None)
            if not (isinstance(stmts, list) and stmts and isinstance(stmts[0], ast.stmt)):
                continue
            for s in list(stmts):
                if not (isinstance(s, ast.Assign) and len(s.targets) == 1 and isinstance(s.targets[0], ast.Name)):
                    continue
                t, v = s.targets[0].id, s.value
                fnval = isinstance(v, ast.Lambda) or operator_function(fi.module, v) is not None
                if not fnval or len(stores.get(t, [])) != 1 or t in {a.arg for a in fnode.args.args}:
                    continue
                if len(loads.get(t, [])) != len(calls.get(t, [])) or not calls.get(t):
                    continue          # also passed on / stored: not only called
                if isinstance(v, ast.Lambda) and any(isinstance(x, ast.Name) and x.id in stores and x.id not in {a.arg for a in v.args.args}
                                                     and len(stores[x.id]) > 1 for x in ast.walk(v.body)):
                    continue          # the lambda reads a local that is re-bound: late binding matters
                for c in calls[t]:
                    c.func = clone(v)
                stmts.remove(s)
                changed = True
            if not stmts:
                stmts.append(ast.Pass())
    if changed:
        fnode.body = [_Beta(fi.module).visit(b) for b in fnode.body]
        ast.fix_missing_locations(fnode)
    return changed


def _propagate_const_locals(fnode):
    """name = <constant>  (bound exactly once in the function, a plain local)  ->  every read is the constant;
    then getattr(o, "name") is o.name."""
    stores = {}
    for n in ast.walk(fnode):
        if isinstance(n, ast.Name) and not isinstance(n.ctx, ast.Load):
            stores.setdefault(n.id, []).append(n)
    params = {a.arg for a in fnode.args.args + fnode.args.kwonlyargs} | ({fnode.args.vararg.arg} if fnode.args.vararg else set()) | (
        {fnode.args.kwarg.arg} if fnode.args.kwarg else set())
    shared = {g for n in ast.walk(fnode) if isinstance(n, (ast.Global, ast.Nonlocal)) for g in n.names}
    consts = {}
    holders = []
    for holder in ast.walk(fnode):
        for fld in ("body", "orelse", "finalbody"):
            stmts = getattr(holder, fld, None)
            if isinstance(stmts, list) and stmts and isinstance(stmts[0], ast.stmt):
                for s in stmts:
                    if isinstance(s, ast.Assign) and len(s.targets) == 1 and isinstance(s.targets[0], ast.Name) and isinstance(s.value, ast.Constant) \
                            and isinstance(s.value.value, (str, int, bool, type(None))) and len(stores.get(s.targets[0].id, [])) == 1 \
                            and s.targets[0].id not in params and s.targets[0].id not in shared and holder is fnode:
                        consts[s.targets[0].id] = s.value
                        holders.append((stmts, s))
    if not consts:
        return False
    # only when every read comes after the binding in the same straight-line body (top-level binding): reads inside nested
    # functions could run before it
    for n in ast.walk(fnode):
        if isinstance(n, (ast.FunctionDef, ast.Lambda)) and n is not fnode:
            for x in ast.walk(n):
                if isinstance(x, ast.Name) and x.id in consts:
                    consts.pop(x.id, None)
    if not consts:
        return False
    for stmts, s in holders:
        if s.targets[0].id in consts:
            stmts.remove(s)
    fnode.body = [_AttrCanon().visit(_Subst(consts).visit(b)) for b in fnode.body] or [ast.Pass()]
    ast.fix_missing_locations(fnode)
    return True


def _canon_tests(fnode):
    """One spelling for tests:  `0 == x` -> `x == 0`, `0 < x` -> `x > 0` (an int constant on the left defers to the right
    operand's reflected method, which is what the swapped form calls);  `if not T: A else: B` -> `if T: B else: A`."""
    FL = {ast.Eq: ast.Eq, ast.NotEq: ast.NotEq, ast.Lt: ast.Gt, ast.Gt: ast.Lt, ast.LtE: ast.GtE, ast.GtE: ast.LtE}
    changed = False
    # the LAST statement of the function body is `if c: A else: B` with an arm that leaves the function: that arm (the shorter
    # one if both do) becomes a guard clause and the other arm continues at function level
    body = fnode.body
    for _ in range(12):
        if not (body and isinstance(body[-1], ast.If) and body[-1].orelse):
            break
        s = body[-1]
        if len(s.orelse) == 1 and isinstance(s.orelse[0], ast.If) and not _terminates(s.body):
            break
        ta, tb = _terminates(s.body), _terminates(s.orelse)
        if not ta and not tb:
            break
        # (an elif chain keeps its order: each arm that leaves becomes a guard clause in turn)
        # when both arms leave, the `if` arm is the guard - unless the else arm is nothing but a raise / a bare refusal
        # (`else: raise TypeError`, `else: return NotImplemented`) after a longer `if` arm
        bare_else = len(s.orelse) == 1 and (isinstance(s.orelse[0], ast.Raise) or (
            isinstance(s.orelse[0], ast.Return) and (s.orelse[0].value is None or isinstance(s.orelse[0].value, (ast.Constant, ast.Name)))))
        guard_is_body = ta and not (tb and bare_else and len(s.body) > 1)
        if guard_is_body:
            tail = s.orelse
            s.orelse = []
        else:
            tail = s.body
            s.body = s.orelse
            s.orelse = []
            s.test = ast.copy_location(s.test.operand if isinstance(s.test, ast.UnaryOp) and isinstance(s.test.op, ast.Not)
                                       else ast.UnaryOp(op=ast.Not(), operand=s.test), s.test)
        body.extend(tail)
        ast.fix_missing_locations(s)
        changed = True
    for n in ast.walk(fnode):
        if isinstance(n, ast.Compare) and len(n.ops) == 1 and type(n.ops[0]) in FL and isinstance(n.left, ast.Constant) \
                and isinstance(n.left.value, int) and not isinstance(n.left.value, bool) and not isinstance(n.comparators[0], ast.Constant):
            n.left, n.comparators[0] = n.comparators[0], n.left
            n.ops[0] = FL[type(n.ops[0])]()
            changed = True
        elif isinstance(n, ast.If) and n.body and n.orelse and isinstance(n.test, ast.UnaryOp) and isinstance(n.test.op, ast.Not) \
                and not (len(n.orelse) == 1 and isinstance(n.orelse[0], ast.If)):
            n.test = n.test.operand
            n.body, n.orelse = n.orelse, n.body
            changed = True
    # if a: (if b: X)  with no else on either and nothing else in the outer body  ->  if a and b: X
    for n in ast.walk(fnode):
        while isinstance(n, ast.If) and not n.orelse and len(n.body) == 1 and isinstance(n.body[0], ast.If) and not n.body[0].orelse:
            inner = n.body[0]
            left = list(n.test.values) if isinstance(n.test, ast.BoolOp) and isinstance(n.test.op, ast.And) else [n.test]
            right = list(inner.test.values) if isinstance(inner.test, ast.BoolOp) and isinstance(inner.test.op, ast.And) else [inner.test]
            n.test = ast.copy_location(ast.BoolOp(op=ast.And(), values=left + right), n.test)
            n.body = inner.body
            ast.fix_missing_locations(n)
            changed = True
    return changed


def _fuse_arg_temps(fnode):
    """t = E ; f(a, t, ..)   (t bound once and read once, as a direct argument of the call that the next statement evaluates,
    callee expression and earlier arguments pure)   ->   f(a, E, ..)      - a named intermediate is the expression it names"""
    def pure(e):
        if isinstance(e, (ast.Name, ast.Constant)):
            return True
        if isinstance(e, ast.Attribute):
            return pure(e.value)
        return False
    loads, stores = {}, {}
    for n in ast.walk(fnode):
        if isinstance(n, ast.Name):
            d = loads if isinstance(n.ctx, ast.Load) else stores
            d[n.id] = d.get(n.id, 0) + 1
    changed = False
    for holder in ast.walk(fnode):
        for fld in ("body", "orelse", "finalbody"):
            stmts = getattr(holder, fld, None)
            if not (isinstance(stmts, list) and stmts and isinstance(stmts[0], ast.stmt)):
                continue
            i = 0
            while i + 1 < len(stmts):
                a, b = stmts[i], stmts[i + 1]
                if isinstance(a, ast.Assign) and len(a.targets) == 1 and isinstance(a.targets[0], ast.Name) and isinstance(a.value, ast.Call) \
                        and isinstance(b, (ast.Expr, ast.Assign, ast.Return)) and isinstance(getattr(b, "value", None), ast.Call):
                    t = a.targets[0].id
                    call = b.value
                    alloc = isinstance(a.value.func, (ast.Name, ast.Attribute)) and (
                        a.value.func.id if isinstance(a.value.func, ast.Name) else a.value.func.attr) in (
                        "PrivVal", "PubVal", "ConstVal", "PrivValBool", "PubValBool", "PrivValFxp", "PubValFxp")
                    # (a wire allocated under a name keeps its name: the gadget rules speak about witnesses by name)
                    if loads.get(t, 0) == 1 and stores.get(t, 0) == 1 and pure(call.func) and not call.keywords and not alloc:
                        for k, arg in enumerate(call.args):
                            if isinstance(arg, ast.Name) and arg.id == t and all(pure(x) for x in call.args[:k]):
                                call.args[k] = a.value
                                del stmts[i]
                                changed = True
                                i -= 1
                                break
                i += 1
                if i < 0:
                    i = 0
    return changed


def _fuse_return_temps(fnode):
    """t = E ; return t   (t bound once, read once)   ->   return E"""
    loads, stores = {}, {}
    for n in ast.walk(fnode):
        if isinstance(n, ast.Name):
            d = loads if isinstance(n.ctx, ast.Load) else stores
            d[n.id] = d.get(n.id, 0) + 1
    changed = False
    for holder in ast.walk(fnode):
        for fld in ("body", "orelse", "finalbody"):
            stmts = getattr(holder, fld, None)
            if not (isinstance(stmts, list) and stmts and isinstance(stmts[0], ast.stmt)):
                continue
            i = 0
            while i + 1 < len(stmts):
                a, b = stmts[i], stmts[i + 1]
                if isinstance(a, ast.Assign) and len(a.targets) == 1 and isinstance(a.targets[0], ast.Name) and isinstance(b, ast.Return) \
                        and isinstance(b.value, ast.Name) and b.value.id == a.targets[0].id \
                        and loads.get(a.targets[0].id, 0) == 1 and stores.get(a.targets[0].id, 0) == 1:
                    b.value = a.value
                    del stmts[i]
                    changed = True
                    continue
                i += 1
    return changed


def _fuse_test_temps(fnode):
    """t = TEST ; if t: / if not t:   with t read nowhere else   ->   if TEST: / if not (TEST):
    (the named intermediate of a predicate helper, or the temporary this pass itself introduced for `if helper(..):`)"""
    loads, stores = {}, {}
    for n in ast.walk(fnode):
        if isinstance(n, ast.Name):
            d = loads if isinstance(n.ctx, ast.Load) else stores
            d[n.id] = d.get(n.id, 0) + 1
    changed = False
    for holder in ast.walk(fnode):
        for fld in ("body", "orelse", "finalbody"):
            stmts = getattr(holder, fld, None)
            if not (isinstance(stmts, list) and stmts and isinstance(stmts[0], ast.stmt)):
                continue
            i = 0
            while i + 1 < len(stmts):
                a, b = stmts[i], stmts[i + 1]
                if isinstance(a, ast.Assign) and len(a.targets) == 1 and isinstance(a.targets[0], ast.Name) and isinstance(b, ast.If):
                    t = a.targets[0].id
                    tst = b.test
                    neg = isinstance(tst, ast.UnaryOp) and isinstance(tst.op, ast.Not)
                    core = tst.operand if neg else tst
                    if isinstance(core, ast.Name) and core.id == t and loads.get(t, 0) == 1 and stores.get(t, 0) == 1 \
                            and isinstance(a.value, (ast.BoolOp, ast.Compare, ast.UnaryOp, ast.Call)):
                        nt = a.value
                        if neg:
                            nt = ast.UnaryOp(op=ast.Not(), operand=nt)
                        b.test = ast.copy_location(nt, tst)
                        ast.fix_missing_locations(b)
                        del stmts[i]
                        changed = True
                        continue
                i += 1
    return changed


def arm_stmts(fnode, test_text):
    """Statements executed when `test_text` holds, whichever way the dispatch is written:
         if <test>: BODY                      -> BODY
         if not <test>: <terminates>; REST    -> REST          (guard clause)
    None if neither form is present."""
    from .loader import norm

    def scan(stmts):
        for i, s in enumerate(stmts):
            if isinstance(s, ast.If):
                t = norm(s.test)
                if t == test_text:
                    return list(s.body)
                neg = s.test.operand if isinstance(s.test, ast.UnaryOp) and isinstance(s.test.op, ast.Not) else None
                if neg is not None and norm(neg) == test_text and _terminates(s.body) and not s.orelse:
                    return list(stmts[i + 1:])
                if neg is not None and norm(neg) == test_text and s.orelse:
                    return list(s.orelse)
                for blk in (s.body, s.orelse):
                    r = scan(blk)
                    if r is not None:
                        return r
            elif isinstance(s, (ast.For, ast.While, ast.With, ast.Try)):
                r = scan(getattr(s, "body", []))
                if r is not None:
                    return r
        return None
    return scan(fnode.body)


class _ExprInline(ast.NodeTransformer):
    """Expression-level beta reduction of unknown helpers that are *expression functions*:
         def h(a, b): return EXPR                      h(x, y)      ->  EXPR[a:=x, b:=y]
         def mk(c, f):                                  mk(int, g)   ->  lambda x: (g(x) if isinstance(x, int) else x)
             def inner(x): return EXPR
             return inner
    Arguments must be simple (names, constants, attribute reads, lambdas), so nothing is duplicated or reordered."""

    def __init__(self, fl, fi):
        self.fl, self.fi = fl, fi
        self.changed = False

    def visit_FunctionDef(self, n):
        return n          # nested functions are flattened on their own (after their loops were unrolled)

    def visit_ClassDef(self, n):
        return n

    def _body(self, fn):
        body = list(fn.body)
        if body and isinstance(body[0], ast.Expr) and isinstance(body[0].value, ast.Constant) and isinstance(body[0].value.value, str):
            body = body[1:]
        # guard clauses that only return:  if T: return A ; return B   ->   return A if T else B
        def as_expr(stmts):
            if len(stmts) == 1 and isinstance(stmts[0], ast.Return) and stmts[0].value is not None:
                return stmts[0].value
            if stmts and isinstance(stmts[0], ast.If) and not any(isinstance(x, ast.Call) and not (
                    isinstance(x.func, ast.Name) and x.func.id in ("isinstance", "len")) for x in ast.walk(stmts[0].test)):
                a = as_expr(stmts[0].body)
                b = as_expr(stmts[0].orelse) if stmts[0].orelse and len(stmts) == 1 else (as_expr(stmts[1:]) if not stmts[0].orelse else None)
                if a is not None and b is not None:
                    return ast.copy_location(ast.IfExp(test=stmts[0].test, body=a, orelse=b), stmts[0])
            return None
        if len(body) > 1 or (body and isinstance(body[0], ast.If)):
            e = as_expr(body)
            if e is not None:
                r = ast.copy_location(ast.Return(value=e), body[0])
                ast.fix_missing_locations(r)
                return [r]
        return body

    def visit_Call(self, n):
        self.generic_visit(n)
        f = n.func
        name = f.id if isinstance(f, ast.Name) else (f.attr if isinstance(f, ast.Attribute) else None)
        if name is None or name in KNOWN or (name.startswith("__") and name.endswith("__")) or n.keywords:
            return n
        if any(isinstance(a, ast.Starred) for a in n.args) or not all(_simple(a) for a in n.args):
            return n
        cand = None
        if isinstance(f, ast.Name):
            g = self.fi
            while g is not None and cand is None:
                cand = g.children.get(name)
                g = g.parent
            if cand is None:
                b = self.fi.module.bindings.get(name)
                cand = b[1] if b and b[0] == "def" else None
        elif isinstance(f.value, ast.Name) and f.value.id in ("self", "cls") and self.fi.cls is not None:
            cand = self.fi.cls.methods.get(name)
        if cand is None or not isinstance(cand.node, ast.FunctionDef) or cand.node is self.fi.node:
            return n
        fn = cand.node
        if fn.args.vararg or fn.args.kwarg or fn.args.kwonlyargs or fn.args.defaults:
            return n
        if fn.decorator_list and not all(isinstance(d, ast.Name) and d.id in ("staticmethod", "classmethod") for d in fn.decorator_list):
            return n
        params = [a.arg for a in fn.args.args]
        args = list(n.args)
        if isinstance(f, ast.Attribute) and params and params[0] in ("self", "cls"):
            args = [f.value] + args
        if len(params) != len(args):
            return n
        body = self._body(fn)
        mapping = dict(zip(params, args))
        # an argument that is evaluated (a subscript: obj[i] may run code, e.g. a secret-index read) must not be duplicated
        for p_, a_ in mapping.items():
            if any(isinstance(x, ast.Subscript) for x in ast.walk(a_)):
                uses_ = sum(1 for s_ in body for x in ast.walk(s_) if isinstance(x, ast.Name) and x.id == p_ and isinstance(x.ctx, ast.Load))
                if uses_ > 1:
                    return n
        if len(body) == 1 and isinstance(body[0], ast.Return) and body[0].value is not None \
                and not any(isinstance(x, (ast.Yield, ast.YieldFrom, ast.Await, ast.NamedExpr)) for x in ast.walk(body[0].value)):
            # parameters used more than once are fine: the arguments are simple
            self.changed = True
            self.fl.inlined_names.add(name)
            e = _Subst(mapping).visit(clone(body[0].value))
            return ast.copy_location(_Beta(self.fi.module).visit(e), n)
        if len(body) == 2 and isinstance(body[0], ast.FunctionDef) and isinstance(body[1], ast.Return) \
                and isinstance(body[1].value, ast.Name) and body[1].value.id == body[0].name:
            inner = body[0]
            ib = self._body(inner)
            if len(ib) == 1 and isinstance(ib[0], ast.Return) and ib[0].value is not None and not inner.decorator_list \
                    and not inner.args.vararg and not inner.args.kwarg and not inner.args.kwonlyargs and not inner.args.defaults:
                shadow = {a.arg for a in inner.args.args}
                m2 = {k: v for k, v in mapping.items() if k not in shadow}
                lam = ast.Lambda(args=clone(inner.args), body=_Subst(m2).visit(clone(ib[0].value)))
                self.changed = True
                self.fl.inlined_names.add(name)
                return ast.copy_location(lam, n)
        return n


class Flattener:
    def __init__(self, repo):
        self.repo = repo
        self.n_inlined = 0
        self.inlined_names = set()
        self.inlined_classes = set()
        self.singletons = set()       # (module, name) of module-level instances whose fields were inlined
        self._names = {}
        self.log = []

    # ---------------------------------------------------------------- resolution of a call to an inlinable helper
    def helper_of(self, fi, call):
        """(helper FunctionDef, receiver expr or None) for a call that may be inlined, else None."""
        f = call.func
        name = None
        recv = None
        cand = None
        if isinstance(f, ast.Name):
            name = f.id
            g = fi
            while g is not None and cand is None:
                if name in g.children:
                    cand = g.children[name]
                g = g.parent
            if cand is None:
                b = fi.module.bindings.get(name)
                if b and b[0] == "def":
                    cand = b[1]
        elif isinstance(f, ast.Attribute) and isinstance(f.value, ast.Name):
            name = f.attr
            base = f.value.id
            ci = fi.cls
            if ci is None and fi.parent is not None:
                p = fi
                while p is not None and p.cls is None:
                    p = p.parent
                ci = p.cls if p is not None else None
            if ci is None or base not in ("self", "cls", ci.name):
                # obj.method(...) on a module-level instance `obj = C()` of a class of this module
                b = fi.module.bindings.get(base)
                if b and b[0] == "value" and isinstance(b[1], ast.Call) and isinstance(b[1].func, ast.Name) \
                        and b[1].func.id in fi.module.classes and (not b[1].args or (fi.module.name, base) in self.singletons):
                    oc = fi.module.classes[b[1].func.id]
                    mi = oc.methods.get(name)
                    if mi is not None and not mi.is_staticmethod and not mi.is_classmethod:
                        cand = mi
                        recv = f.value
            if cand is None and ci is not None and base not in ("self", "cls", ci.name) and name.startswith("_") and not name.startswith("__"):
                # other._helper(...) inside a method of the class that alone defines the private `_helper`: the receiver is
                # another instance of this class (private names are not part of anybody else's interface)
                owners = [c_ for c_ in fi.module.classes.values() if name in c_.methods]
                if len(owners) == 1 and owners[0] is ci and not any(
                        name in m_.functions and m_.functions[name].cls is None for m_ in [fi.module]):
                    mi = ci.methods[name]
                    if not mi.is_staticmethod and not mi.is_classmethod:
                        cand = mi
                        recv = f.value
            if cand is None and ci is not None and base in ("self", "cls", ci.name):
                mi = ci.methods.get(name)
                if mi is not None:
                    cand = mi
                    if not mi.is_staticmethod:
                        recv = f.value if base != ci.name or mi.is_classmethod else None
                        if base == ci.name and not mi.is_classmethod:
                            return None    # Class.method(obj, ...) form: not handled
        if cand is None or name in KNOWN or (name.startswith("__") and name.endswith("__")):
            return None
        fn = cand.node
        if not isinstance(fn, ast.FunctionDef) or fn is fi.node:
            return None
        if fn.decorator_list and not all(isinstance(d, ast.Name) and d.id in ("staticmethod", "classmethod") for d in fn.decorator_list):
            return None
        if fn.args.kwarg or fn.args.kwonlyargs:
            return None
        if any(isinstance(a, ast.Starred) for a in call.args) or any(k.arg is None for k in call.keywords):
            return None
        if fn.args.vararg and (call.keywords or fn.args.defaults or len(call.args) - len(fn.args.args) > UNROLL_MAX):
            return None
        if _count(fn) > MAX_STMTS or not _single_exit(fn, multi_ok=True):
            return None
        if not _single_exit(fn) and _tailify([s for s in fn.body]) is None:
            return None
        if any(isinstance(n, ast.While) for n in ast.walk(fn)):
            return None     # an open-ended loop: a unit of its own (summarised where a rule needs it, e.g. sa/powdom.py)
        # recursion guard
        for n in ast.walk(fn):
            if isinstance(n, ast.Call) and ((isinstance(n.func, ast.Name) and n.func.id == name) or
                                            (isinstance(n.func, ast.Attribute) and n.func.attr == name)):
                return None
        return fn, recv

    # ---------------------------------------------------------------- expansion
    def expand_call(self, fi, call, mode, target=None):
        """Statements replacing a call site.  mode in {'expr', 'assign', 'return'}"""
        h = self.helper_of(fi, call)
        if h is None:
            return None
        fn, recv = h
        params = [a.arg for a in fn.args.args]
        args = list(call.args)
        if recv is not None:
            args = [recv] + args
        elif params and params[0] in ("self", "cls") and isinstance(call.func, ast.Attribute):
            args = [call.func.value] + args
        mapping = {}
        pre = []
        defaults = fn.args.defaults
        off = len(params) - len(defaults)
        kw = {k.arg: k.value for k in call.keywords}
        assigned = _assigned_names(fn)
        for i, p in enumerate(params):
            if i < len(args):
                a = args[i]
            elif p in kw:
                a = kw[p]
            elif i >= off:
                a = defaults[i - off]
            else:
                return None
            nuse = sum(1 for x in ast.walk(fn) if isinstance(x, ast.Name) and x.id == p and isinstance(x.ctx, ast.Load))
            if _simple(a) and p not in assigned and not (nuse > 1 and any(isinstance(x, ast.Subscript) for x in ast.walk(a))):
                mapping[p] = a
            else:
                asg = ast.Assign(targets=[ast.Name(id=p, ctx=ast.Store())], value=clone(a))
                pre.append(ast.copy_location(asg, call))
        if fn.args.vararg:
            # *rest bound to the tuple of the extra (simple) positional arguments
            if fn.args.vararg.arg in assigned:
                return None
            extra = []
            for k_, a in enumerate(args[len(params):]):
                if _simple(a) or isinstance(a, ast.Constant):
                    extra.append(clone(a))
                else:
                    # an evaluated extra argument is bound once, in order, and the tuple refers to it
                    tn_ = "_%s_va%d_%d" % (fn.args.vararg.arg, getattr(call, "lineno", 0), k_)
                    pre.append(ast.copy_location(ast.Assign(targets=[ast.Name(id=tn_, ctx=ast.Store())], value=clone(a)), call))
                    extra.append(ast.Name(id=tn_, ctx=ast.Load()))
            mapping[fn.args.vararg.arg] = ast.Tuple(elts=extra, ctx=ast.Load())
        elif len(args) > len(params):
            return None
        body = [clone(s) for s in fn.body]
        if body and isinstance(body[0], ast.Expr) and isinstance(body[0].value, ast.Constant) and isinstance(body[0].value.value, str):
            body = body[1:]
        body = [s for s in body if not isinstance(s, ast.Global)]
        sub = _Subst(mapping)
        body = [sub.visit(s) for s in body]
        out = list(pre)
        ret = None
        multi = any(isinstance(x, ast.Return) for s in body[:-1] for x in ast.walk(s)) or (
            body and not isinstance(body[-1], ast.Return) and _has_return(body[-1:]))
        if multi and mode == "return":
            # every return of the helper is a return of the caller
            out += body
            if not _terminates(body):
                out.append(ast.copy_location(ast.Return(value=ast.Constant(value=None)), call))
            out = self._finish(fi, fn, out, target if mode == "assign" else None, npre=len(pre))
            for s in out:
                ast.fix_missing_locations(s)
            self.n_inlined += 1
            self.inlined_names.add(fn.name)
            self.log.append("%s: inlined %s (multi-exit) at line %s" % (fi.fq, fn.name, getattr(call, "lineno", "?")))
            return out
        if multi:
            tb = _tailify(body)
            if tb is None:
                return None

            def repl(r):
                val = r.value if r.value is not None else ast.Constant(value=None)
                if mode == "assign":
                    return _split_tuple_assign(ast.copy_location(ast.Assign(targets=[clone(t) for t in target], value=val), r))
                if any(isinstance(x, ast.Call) for x in ast.walk(val)):
                    return [ast.copy_location(ast.Expr(value=val), r)]
                return [ast.copy_location(ast.Pass(), r)]
            out += _map_tail_returns(tb, repl)
            out = self._finish(fi, fn, out, target if mode == "assign" else None, npre=len(pre))
            for s in out:
                ast.fix_missing_locations(s)
            self.n_inlined += 1
            self.inlined_names.add(fn.name)
            self.log.append("%s: inlined %s (multi-exit, restructured) at line %s" % (fi.fq, fn.name, getattr(call, "lineno", "?")))
            return out
        if body and isinstance(body[-1], ast.Return):
            ret = body[-1].value
            body = body[:-1]
        out += body
        if mode == "assign":
            val = ret if ret is not None else ast.Constant(value=None)
            trivial = len(target) == 1 and isinstance(target[0], ast.Name) and isinstance(val, ast.Name) and val.id == target[0].id
            if not trivial:
                a = ast.Assign(targets=[clone(t) for t in target], value=val)
                out.extend(_split_tuple_assign(ast.copy_location(a, call)))
        elif mode == "return":
            r = ast.Return(value=ret)
            out.append(ast.copy_location(r, call))
        elif mode == "expr" and ret is not None and any(isinstance(x, ast.Call) for x in ast.walk(ret)):
            e = ast.Expr(value=ret)
            out.append(ast.copy_location(e, call))
        out = self._finish(fi, fn, out, target if mode == "assign" else None, npre=len(pre))
        for s in out:
            ast.fix_missing_locations(s)
        self.n_inlined += 1
        self.inlined_names.add(fn.name)
        self.log.append("%s: inlined %s at line %s" % (fi.fq, fn.name, getattr(call, "lineno", "?")))
        return out

    def expand_with_generator(self, fi, w, call, gi):
        """`with helper(args): body` for an unknown @contextmanager generator with a single top-level `yield`:
             pre; body; post                      (post is skipped on exceptions, exactly as in the generator)
           or, when the yield is the body of a top-level try/finally:  pre; try: body finally: post"""
        fn = gi.node
        decs = [norm_dec(d) for d in fn.decorator_list]
        if decs not in (["contextmanager"], ["contextlib.contextmanager"]):
            return None
        if fn.args.vararg or fn.args.kwarg or fn.args.kwonlyargs or _count(fn) > MAX_STMTS or len(fn.args.args) != len(call.args):
            return None
        params = [a.arg for a in fn.args.args]
        mapping, pre = {}, []
        for p_, a in zip(params, call.args):
            if _simple(a):
                mapping[p_] = a
            else:
                pre.append(ast.copy_location(ast.Assign(targets=[ast.Name(id=p_, ctx=ast.Store())], value=clone(a)), w))
        body = [clone(s) for s in fn.body]
        if body and isinstance(body[0], ast.Expr) and isinstance(body[0].value, ast.Constant) and isinstance(body[0].value.value, str):
            body = body[1:]
        body = [s for s in body if not isinstance(s, ast.Global)]
        body = [_Subst(mapping).visit(s) for s in body]

        def is_yield(s):
            return isinstance(s, ast.Expr) and isinstance(s.value, ast.Yield)
        n_yield = sum(1 for s in body for x in ast.walk(s) if isinstance(x, (ast.Yield, ast.YieldFrom)))
        if n_yield != 1 or any(isinstance(x, ast.Return) for s in body for x in ast.walk(s)):
            return None
        var = w.items[0].optional_vars
        idx = [i for i, s in enumerate(body) if is_yield(s)]
        fin = None
        if idx:
            i = idx[0]
            y = body[i].value.value
            before, after = body[:i], body[i + 1:]
        else:
            tries = [i for i, s in enumerate(body) if isinstance(s, ast.Try) and not s.handlers and not s.orelse
                     and len(s.body) == 1 and is_yield(s.body[0])]
            if len(tries) != 1:
                return None
            i = tries[0]
            y = body[i].body[0].value.value
            before, after, fin = body[:i], body[i + 1:], list(body[i].finalbody)
        yv = []
        if var is not None:
            yv = [ast.copy_location(ast.Assign(targets=[clone(var)], value=y if y is not None else ast.Constant(value=None)), w)]
        # helper-owned statements are finished (reduced / renamed) on their own; the with-body is the caller's code
        own = pre + before + yv + (fin or []) + after
        keep = [var] if var is not None else None
        res = self._finish(fi, fn, own, keep, npre=len(pre))
        n1 = len(pre) + len(before) + len(yv)
        n2 = n1 + len(fin or [])
        if fin is None:
            out = res[:n1] + list(w.body) + res[n2:]
        else:
            out = res[:n1] + [ast.copy_location(ast.Try(body=list(w.body), handlers=[], orelse=[], finalbody=res[n1:n2] or [ast.Pass()]), w)] + res[n2:]
        for s in out:
            ast.fix_missing_locations(s)
        self.n_inlined += 1
        self.inlined_names.add(fn.name)
        self.log.append("%s: desugared `with %s(...)` (generator) at line %s" % (fi.fq, fn.name, getattr(w, "lineno", "?")))
        return out

    # ---------------------------------------------------------------- `with Helper(args): body`
    def expand_with(self, fi, w):
        """Desugar `with C(args): body` for an *unknown* repo class C that is a plain context manager (fields set in
        __init__, __enter__/__exit__ straight-line, __exit__ not swallowing exceptions) into

            <fields as locals>; <__enter__ body>; try: body  finally: <__exit__ body>

        (scalar replacement of the non-escaping manager object)."""
        if len(w.items) != 1 or not isinstance(w.items[0].context_expr, ast.Call):
            return None
        call = w.items[0].context_expr
        if not isinstance(call.func, ast.Name) or call.func.id in KNOWN or call.keywords or any(isinstance(a, ast.Starred) for a in call.args):
            return None
        b = fi.module.bindings.get(call.func.id)
        if b and b[0] == "def":
            return self.expand_with_generator(fi, w, call, b[1])
        if not b or b[0] != "class":
            return None
        ci = b[1]
        if ci.base_names and ci.base_names != ["object"]:
            return None
        en, ex, init = ci.methods.get("__enter__"), ci.methods.get("__exit__"), ci.methods.get("__init__")
        if en is None or ex is None:
            return None
        var = w.items[0].optional_vars
        prefix = "_%s_%d_" % (ci.name.strip("_"), getattr(w, "lineno", 0))
        fields = {}

        class _Self(ast.NodeTransformer):
            def __init__(self, selfname):
                self.selfname = selfname
                self.escapes = False

            def visit_Attribute(self, n):
                if isinstance(n.value, ast.Name) and n.value.id == self.selfname:
                    nm = fields.setdefault(n.attr, prefix + n.attr)
                    return ast.copy_location(ast.Name(id=nm, ctx=n.ctx), n)
                self.generic_visit(n)
                return n

            def visit_Name(self, n):
                if n.id == self.selfname:
                    self.escapes = True
                return n

        def method_body(mi, args, allow_return_self):
            fn = mi.node
            if fn.args.vararg or fn.args.kwarg or fn.args.kwonlyargs or fn.decorator_list or not _single_exit(fn) or _count(fn) > MAX_STMTS:
                return None
            params = [a.arg for a in fn.args.args]
            if not params:
                return None
            mapping = {}
            pre = []
            for p_, a in zip(params[1:], args):
                if a is None:
                    continue
                if _simple(a):
                    mapping[p_] = a
                else:
                    pre.append(ast.copy_location(ast.Assign(targets=[ast.Name(id=p_, ctx=ast.Store())], value=clone(a)), w))
            body = [clone(s) for s in fn.body]
            if body and isinstance(body[0], ast.Expr) and isinstance(body[0].value, ast.Constant) and isinstance(body[0].value.value, str):
                body = body[1:]
            ret = None
            if body and isinstance(body[-1], ast.Return):
                ret = body[-1].value
                body = body[:-1]
            tr = _Self(params[0])
            body = [tr.visit(_Subst(mapping).visit(s)) for s in body]
            if tr.escapes:
                return None
            return pre + body, ret, params[0]
        out = []
        if init is not None:
            if len(init.node.args.args) - 1 != len(call.args):
                return None
            r = method_body(init, list(call.args), False)
            if r is None or r[1] is not None:
                return None
            out += r[0]
        elif call.args:
            return None
        r = method_body(en, [], True)
        if r is None:
            return None
        body_en, ret_en, selfname = r
        if var is not None:
            if ret_en is None or (isinstance(ret_en, ast.Name) and ret_en.id == selfname):
                if any(isinstance(x, ast.Name) and isinstance(var, ast.Name) and x.id == var.id for s in w.body for x in ast.walk(s)):
                    return None
            else:
                tr = _Self(selfname)
                val = tr.visit(clone(ret_en))
                if tr.escapes:
                    return None
                body_en = body_en + [ast.copy_location(ast.Assign(targets=[clone(var)], value=val), w)]
        elif ret_en is not None and not (isinstance(ret_en, (ast.Name, ast.Constant))):
            return None
        out += body_en
        r = method_body(ex, [None, None, None], False)
        if r is None:
            return None
        body_ex, ret_ex, _s = r
        if ret_ex is not None and not (isinstance(ret_ex, ast.Constant) and not ret_ex.value):
            return None          # may swallow exceptions: not a plain try/finally
        t = ast.Try(body=list(w.body), handlers=[], orelse=[], finalbody=body_ex or [ast.Pass()])
        out.append(ast.copy_location(t, w))
        for s in out:
            ast.fix_missing_locations(s)
        self.n_inlined += 1
        self.inlined_classes.add(ci.name)
        self.log.append("%s: desugared `with %s(...)` at line %s" % (fi.fq, ci.name, getattr(w, "lineno", "?")))
        return out

    def scalarize_objects(self, fi):
        """x = C(args) ... x.m(a) ... x.f   for an unknown, base-less repo class C whose instance never leaves the function
        (x occurs only as `x.<attr>`): the fields become locals `x__f`, __init__ and the methods are inlined at their calls
        (scalar replacement of a non-escaping helper object, e.g. a small state holder introduced by a refactoring)."""
        fnode = fi.node
        changed = False
        cands = []
        for n in ast.walk(fnode):
            if isinstance(n, ast.Assign) and len(n.targets) == 1 and isinstance(n.targets[0], ast.Name) and isinstance(n.value, ast.Call) \
                    and isinstance(n.value.func, ast.Name) and n.value.func.id not in KNOWN and not n.value.keywords \
                    and not any(isinstance(a, ast.Starred) for a in n.value.args):
                b = fi.module.bindings.get(n.value.func.id)
                if b and b[0] == "class" and not (b[1].base_names and b[1].base_names != ["object"]):
                    cands.append((n, b[1]))
        for asg0, ci in cands:
            # work on a copy of the function; it replaces the body only when the whole rewrite succeeds
            order0 = list(ast.walk(fnode))
            if not any(n is asg0 for n in order0):
                continue
            real_fnode = fnode
            work = clone(fnode)
            asg = list(ast.walk(work))[[i for i, n in enumerate(order0) if n is asg0][0]]
            fnode = work
            try:
                if self._scalarize_one(fi, fnode, asg, ci):
                    real_fnode.body = work.body
                    changed = True
            finally:
                fnode = real_fnode
        return changed

    def _scalarize_one(self, fi, fnode, asg, ci):
        changed = False
        if True:
            x = asg.targets[0].id
            occ = [n for n in ast.walk(fnode) if isinstance(n, ast.Name) and n.id == x]
            stores = [n for n in occ if not isinstance(n.ctx, ast.Load)]
            if len(stores) != 1 or x in {a.arg for a in fnode.args.args}:
                return False
            for n in ast.walk(fnode):
                if isinstance(n, ast.Call):
                    n.func._sc_parent = n
            attr_parents = {id(n.value): n for n in ast.walk(fnode) if isinstance(n, ast.Attribute) and isinstance(n.value, ast.Name) and n.value.id == x}
            if any(id(n) not in attr_parents for n in occ if n is not stores[0]):
                return False        # the object itself is used (passed on, returned, compared): it escapes
            if any(isinstance(n, (ast.FunctionDef, ast.Lambda)) and any(isinstance(y, ast.Name) and y.id == x for y in ast.walk(n))
                   for n in ast.walk(fnode) if n is not fnode):
                return False
            methods = ci.methods
            if any(m_.startswith("__") and m_ != "__init__" for m_ in methods):
                return False        # operators / protocols: not a plain record with helpers
            prefix = "%s__" % x
            ok = True
            # every field is the instance's own: bound by a top-level statement of __init__ (a field that only exists as a
            # class attribute is shared between instances - that is state, not a local)
            init_ = methods.get("__init__")
            own = set()
            if init_ is not None and init_.params:
                for s_ in init_.node.body:
                    if isinstance(s_, ast.Assign):
                        for t_ in s_.targets:
                            if isinstance(t_, ast.Attribute) and isinstance(t_.value, ast.Name) and t_.value.id == init_.params[0]:
                                own.add(t_.attr)
            used_fields = {a_.attr for mi_ in methods.values() for a_ in ast.walk(mi_.node)
                           if isinstance(a_, ast.Attribute) and isinstance(a_.value, ast.Name) and mi_.params and a_.value.id == mi_.params[0]}
            used_fields |= {n.attr for n in attr_parents.values() if n.attr not in methods}
            if not used_fields <= own:
                return False
            if any(n.attr in methods and not (isinstance(getattr(n, "_sc_parent", None), ast.Call) and n._sc_parent.func is n)
                   for n in attr_parents.values()):
                return False        # a bound method is handed on (obj.meth as a callback): the object escapes
            field_names = [ast.Name(id=prefix + a_.attr, ctx=ast.Store()) for mi_ in methods.values() for a_ in ast.walk(mi_.node)
                           if isinstance(a_, ast.Attribute) and isinstance(a_.value, ast.Name) and mi_.params and a_.value.id == mi_.params[0]]

            class _Self(ast.NodeTransformer):
                def __init__(self_, selfname):
                    self_.selfname = selfname
                    self_.bad = False

                def visit_Attribute(self_, n):
                    if isinstance(n.value, ast.Name) and n.value.id == self_.selfname:
                        if n.attr in methods:
                            self_.bad = True
                        return ast.copy_location(ast.Name(id=prefix + n.attr, ctx=n.ctx), n)
                    self_.generic_visit(n)
                    return n

                def visit_Name(self_, n):
                    if n.id == self_.selfname:
                        self_.bad = True
                    return n

            def method_body(mi, args, at):
                fn = mi.node
                if fn.args.vararg or fn.args.kwarg or fn.args.kwonlyargs or fn.args.defaults or fn.decorator_list \
                        or not _single_exit(fn) or _count(fn) > MAX_STMTS:
                    return None
                params = [a.arg for a in fn.args.args]
                if not params or len(params) - 1 != len(args):
                    return None
                mapping, pre = {}, []
                assigned = _assigned_names(fn)
                for p_, a in zip(params[1:], args):
                    nuse = sum(1 for y in ast.walk(fn) if isinstance(y, ast.Name) and y.id == p_ and isinstance(y.ctx, ast.Load))
                    if _simple(a) and p_ not in assigned and not (nuse > 1 and any(isinstance(y, ast.Subscript) for y in ast.walk(a))):
                        mapping[p_] = a
                    else:
                        pre.append(ast.copy_location(ast.Assign(targets=[ast.Name(id=p_, ctx=ast.Store())], value=clone(a)), at))
                body = [clone(s) for s in fn.body]
                if body and isinstance(body[0], ast.Expr) and isinstance(body[0].value, ast.Constant) and isinstance(body[0].value.value, str):
                    body = body[1:]
                ret = None
                if body and isinstance(body[-1], ast.Return):
                    ret = body[-1].value
                    body = body[:-1]
                tr = _Self(params[0])
                body = [tr.visit(_Subst(mapping).visit(s)) for s in body]
                if ret is not None:
                    ret = tr.visit(_Subst(mapping).visit(clone(ret)))
                if tr.bad:
                    return None
                return pre, body, ret, fn

            def rewrite(stmts):
                nonlocal ok
                out = []
                for s in stmts:
                    if s is asg:
                        init = methods.get("__init__")
                        if init is None:
                            if asg.value.args:
                                ok = False
                            continue
                        r = method_body(init, list(asg.value.args), s)
                        if r is None or r[2] is not None:
                            ok = False
                            return stmts
                        out += self._finish(fi, r[3], r[0] + r[1], field_names, npre=len(r[0]))
                        continue
                    call = None
                    if isinstance(s, (ast.Expr, ast.Assign, ast.Return)) and isinstance(s.value, ast.Call) and isinstance(s.value.func, ast.Attribute) \
                            and isinstance(s.value.func.value, ast.Name) and s.value.func.value.id == x:
                        call = s.value
                    if call is not None:
                        mi = methods.get(call.func.attr)
                        if mi is None or call.keywords or any(isinstance(a, ast.Starred) for a in call.args) or any(
                                isinstance(y, ast.Name) and y.id == x for a in call.args for y in ast.walk(a)):
                            ok = False
                            return stmts
                        r = method_body(mi, list(call.args), s)
                        if r is None:
                            ok = False
                            return stmts
                        pre, body, ret, fn_ = r
                        tail = []
                        if isinstance(s, ast.Assign):
                            tail = [ast.copy_location(ast.Assign(targets=[clone(t) for t in s.targets],
                                                                 value=ret if ret is not None else ast.Constant(value=None)), s)]
                        elif isinstance(s, ast.Return):
                            tail = [ast.copy_location(ast.Return(value=ret if ret is not None else ast.Constant(value=None)), s)]
                        elif ret is not None and any(isinstance(y, ast.Call) for y in ast.walk(ret)):
                            tail = [ast.copy_location(ast.Expr(value=ret), s)]
                        fin = self._finish(fi, fn_, pre + body + tail, field_names + (list(s.targets) if isinstance(s, ast.Assign) else []), npre=len(pre))
                        out += fin
                        continue
                    for fld in ("body", "orelse", "finalbody"):
                        sub = getattr(s, fld, None)
                        if isinstance(sub, list) and sub and isinstance(sub[0], ast.stmt) and not isinstance(s, (ast.FunctionDef, ast.ClassDef)):
                            setattr(s, fld, rewrite(sub))
                    for h in getattr(s, "handlers", []) or []:
                        h.body = rewrite(h.body)
                    out.append(s)
                return out
            new_body = rewrite(fnode.body)
            # whatever is left of x must be plain field access
            left = [n for s in new_body for n in ast.walk(s) if isinstance(n, ast.Name) and n.id == x]
            if ok:
                class _Fields(ast.NodeTransformer):
                    def visit_Attribute(self_, n):
                        if isinstance(n.value, ast.Name) and n.value.id == x:
                            if n.attr in methods:
                                nonlocal_bad.append(n)
                            return ast.copy_location(ast.Name(id=prefix + n.attr, ctx=n.ctx), n)
                        self_.generic_visit(n)
                        return n
                nonlocal_bad = []
                new_body = [_Fields().visit(s) for s in new_body]
                if nonlocal_bad or any(isinstance(n, ast.Name) and n.id == x for s in new_body for n in ast.walk(s)):
                    ok = False
            if not ok:
                return False
            for s in new_body:
                ast.fix_missing_locations(s)
            fnode.body = new_body
            self.inlined_classes.add(ci.name)
            self.log.append("%s: scalarised local object `%s` of class %s" % (fi.fq, x, ci.name))
            return True

    def _finish(self, fi, fn, out, target, npre=0):
        """beta/operator reduction, constant getattr/setattr canonicalisation, and renaming of helper locals that collide
        with names already used in the caller (a helper inlined twice must not share its locals)."""
        out = _fold_const_ifs([_AttrCanon().visit(_Beta(fi.module).visit(s)) for s in out])
        names = self._names.setdefault(id(fi.node), None)
        if names is None:
            names = set(_assigned_names(fi.node)) | {a.arg for a in fi.node.args.args}
            self._names[id(fi.node)] = names
        keep = set()
        for t in target or []:
            keep |= {x.id for x in ast.walk(t) if isinstance(x, ast.Name)}
        globs = {g for n in ast.walk(fn) if isinstance(n, ast.Global) for g in n.names}
        local = set(_assigned_names(ast.Module(body=list(out), type_ignores=[]))) - keep - globs
        ren = {}
        for n in sorted(local):
            if n in names:
                k = 2
                while "%s__%d" % (n, k) in names:
                    k += 1
                ren[n] = "%s__%d" % (n, k)
        if ren:
            # the first `npre` statements bind parameters to ARGUMENT expressions: those belong to the caller (only the
            # parameter name on the left is the helper's)
            res_ = []
            for k_, s_ in enumerate(out):
                if k_ < npre and isinstance(s_, ast.Assign):
                    s_.targets = [_Rename(ren).visit(t) for t in s_.targets]
                    res_.append(s_)
                else:
                    res_.append(_Rename(ren).visit(s_))
            out = res_
        names |= {ren.get(n, n) for n in local}
        return out

    # ---------------------------------------------------------------- helper calls nested inside an expression
    def hoist_nested(self, fi, s):
        """`return Sig([(1, helper(v))])` -> `t = helper(v)` (inlined) ; `return Sig([(1, t)])` when everything the
        expression evaluates before the call is side-effect free (names, constants, attribute reads)."""
        if isinstance(s, (ast.Expr, ast.Return)) and s.value is not None:
            root = s.value
        elif isinstance(s, (ast.Assign, ast.AugAssign)):
            root = s.value
        elif isinstance(s, ast.If):
            root = s.test
        elif isinstance(s, ast.For):
            root = s.iter          # evaluated once, before the first iteration
        else:
            return None

        def pure(e):
            if isinstance(e, (ast.Name, ast.Constant)):
                return True
            if isinstance(e, ast.Attribute):
                return pure(e.value)
            if isinstance(e, (ast.Tuple, ast.List)):
                return all(pure(x) for x in e.elts)
            if isinstance(e, ast.UnaryOp):
                return pure(e.operand)
            return False

        def ordered_children(e):
            """sub-expressions in evaluation order, or None where hoisting out of `e` is not order preserving"""
            if isinstance(e, ast.Call):
                return [e.func] + list(e.args) + [k.value for k in e.keywords]
            if isinstance(e, ast.BinOp):
                return [e.left, e.right]
            if isinstance(e, ast.UnaryOp):
                return [e.operand]
            if isinstance(e, (ast.Tuple, ast.List, ast.Set)):
                return list(e.elts)
            if isinstance(e, ast.Subscript):
                return [e.value, e.slice]
            if isinstance(e, ast.Attribute):
                return [e.value]
            if isinstance(e, ast.Starred):
                return [e.value]
            if isinstance(e, ast.Compare) and len(e.ops) == 1:
                return [e.left, e.comparators[0]]
            if isinstance(e, ast.BoolOp):
                return [e.values[0]]          # only the first operand is evaluated unconditionally
            if isinstance(e, ast.IfExp):
                return [e.test]
            return None

        def find(e):
            """(call, ok) first inlinable nested helper call in evaluation order"""
            kids = ordered_children(e)
            if kids is None:
                return None
            for i, k in enumerate(kids):
                if isinstance(k, ast.Call) and self.helper_of(fi, k) is not None and k is not root:
                    return k if all(pure(x) for x in kids[:i]) and all(pure(a) or True for a in []) else None
                r = find(k)
                if r is not None:
                    return r if all(pure(x) for x in kids[:i]) else None
                if not pure(k) and any(isinstance(x, ast.Call) for x in ast.walk(k)):
                    # an impure sub-expression without an inlinable call precedes anything later: stop looking
                    later = kids[i + 1:]
                    if any(isinstance(x, ast.Call) and self.helper_of(fi, x) is not None for l in later for x in ast.walk(l)):
                        return None
            return None
        call = find(root)
        if call is None:
            return None
        # arguments of the call itself must not contain further inlinable calls evaluated earlier (handled in a later round)
        tmp = "_%s_%d_%d" % (callee_short(call).strip("_"), getattr(call, "lineno", 0), getattr(call, "col_offset", 0))
        pre = self.expand_call(fi, call, "assign", [ast.Name(id=tmp, ctx=ast.Store())])
        if pre is None:
            return None

        class _Repl(ast.NodeTransformer):
            def visit_Call(self_, n):
                if n is call:
                    return ast.copy_location(ast.Name(id=tmp, ctx=ast.Load()), n)
                self_.generic_visit(n)
                return n
        if isinstance(s, ast.If):
            s.test = _Repl().visit(s.test)
        elif isinstance(s, ast.For):
            s.iter = _Repl().visit(s.iter)
        else:
            s.value = _Repl().visit(s.value)
        ast.fix_missing_locations(s)
        return pre

    def expand_generator_loop(self, fi, s):
        """for X in gen(args): BODY   with an unknown generator helper   def gen(p): for T in IT: yield E
           ->  for T in IT[p:=args]: X = E; BODY"""
        if s.orelse or not isinstance(s.iter, ast.Call) or not isinstance(s.iter.func, ast.Name) or s.iter.keywords:
            return None
        name = s.iter.func.id
        if name in KNOWN:
            return None
        b = fi.module.bindings.get(name)
        cand = b[1] if b and b[0] == "def" else fi.children.get(name)
        if cand is None or not isinstance(getattr(cand, "node", None), ast.FunctionDef):
            return None
        fn = cand.node
        if fn.decorator_list or fn.args.vararg or fn.args.kwarg or fn.args.kwonlyargs or fn.args.defaults \
                or len(fn.args.args) != len(s.iter.args) or not all(_simple(a) for a in s.iter.args):
            return None
        body = list(fn.body)
        if body and isinstance(body[0], ast.Expr) and isinstance(body[0].value, ast.Constant) and isinstance(body[0].value.value, str):
            body = body[1:]
        if len(body) != 1 or not isinstance(body[0], ast.For) or body[0].orelse:
            return None
        inner = body[0]
        if len(inner.body) != 1 or not (isinstance(inner.body[0], ast.Expr) and isinstance(inner.body[0].value, ast.Yield)
                                        and inner.body[0].value.value is not None):
            return None
        mapping = dict(zip([a.arg for a in fn.args.args], s.iter.args))
        names = set(_assigned_names(fi.node)) | {a.arg for a in fi.node.args.args}
        tnames = {x.id for x in ast.walk(inner.target) if isinstance(x, ast.Name)}
        ren = {}
        for n in sorted(tnames):
            if n in names:
                k = 2
                while "%s__%d" % (n, k) in names:
                    k += 1
                ren[n] = "%s__%d" % (n, k)
        target = _Rename(ren).visit(clone(inner.target)) if ren else clone(inner.target)
        it = _Subst(mapping).visit(clone(inner.iter))
        elt = _Subst(mapping).visit(clone(inner.body[0].value.value))
        if ren:
            elt = _Rename(ren).visit(elt)
        bind = ast.Assign(targets=[clone(s.target)], value=elt)
        new = ast.For(target=target, iter=it, body=[ast.copy_location(bind, s)] + list(s.body), orelse=[])
        ast.fix_missing_locations(ast.copy_location(new, s))
        self.n_inlined += 1
        self.inlined_names.add(name)
        self.log.append("%s: inlined generator %s at line %s" % (fi.fq, name, getattr(s, "lineno", "?")))
        return [new]

    def flat_block(self, fi, stmts):
        out = []
        changed = False
        for s in stmts:
            rep = None
            pre = self.hoist_nested(fi, s)
            if pre is not None:
                out.extend(pre)
                changed = True
            if isinstance(s, ast.Assign) and isinstance(s.value, (ast.Tuple, ast.List)):
                sp_ = _split_tuple_assign(s)
                if len(sp_) > 1:
                    rep = sp_       # head, rest = item[0], item[1:]  ->  two assignments
            if rep is not None:
                pass
            elif isinstance(s, ast.Expr) and isinstance(s.value, ast.Call):
                rep = self.expand_call(fi, s.value, "expr")
            elif isinstance(s, ast.Assign) and isinstance(s.value, ast.Call):
                rep = self.expand_call(fi, s.value, "assign", s.targets)
            elif isinstance(s, ast.Return) and isinstance(s.value, ast.Call):
                rep = self.expand_call(fi, s.value, "return")
            elif isinstance(s, ast.With):
                # `cm = CM(args)` directly followed by `with cm:` (cm used nowhere else) is `with CM(args):`
                if len(s.items) == 1 and isinstance(s.items[0].context_expr, ast.Name) and out and isinstance(out[-1], ast.Assign) \
                        and len(out[-1].targets) == 1 and isinstance(out[-1].targets[0], ast.Name) \
                        and out[-1].targets[0].id == s.items[0].context_expr.id and isinstance(out[-1].value, ast.Call):
                    nm_ = s.items[0].context_expr.id
                    uses_ = [x for x in ast.walk(fi.node) if isinstance(x, ast.Name) and x.id == nm_]
                    if len([x for x in uses_ if isinstance(x.ctx, ast.Load)]) == 1 and len([x for x in uses_ if not isinstance(x.ctx, ast.Load)]) == 1:
                        s.items[0].context_expr = out.pop().value
                        if s.items[0].optional_vars is None:
                            pass
                        changed = True
                rep = self.expand_with(fi, s)
            elif isinstance(s, (ast.Assign, ast.Return)) and isinstance(s.value, ast.IfExp) and any(
                    isinstance(c, ast.Call) and self.helper_of(fi, c) is not None
                    for arm in (s.value.body, s.value.orelse) for c in ast.walk(arm)) and (
                    isinstance(s, ast.Return) or (len(s.targets) == 1 and isinstance(s.targets[0], ast.Name))):
                # `x = helper(a) if T else B`  ->  `if T: x = helper(a)  else: x = B`   (the helper is inlined next round)
                def _arm(v):
                    if isinstance(s, ast.Return):
                        return ast.copy_location(ast.Return(value=v), s)
                    return ast.copy_location(ast.Assign(targets=[clone(s.targets[0])], value=v), s)
                rep = [ast.copy_location(ast.If(test=s.value.test, body=[_arm(s.value.body)], orelse=[_arm(s.value.orelse)]), s)]
                ast.fix_missing_locations(rep[0])
            elif isinstance(s, ast.If):
                # `if helper(args):` / `if not helper(args):`  ->  t = helper(args) [inlined]; if t:
                tcall = s.test.operand if (isinstance(s.test, ast.UnaryOp) and isinstance(s.test.op, ast.Not)) else s.test
                if isinstance(tcall, ast.Call) and self.helper_of(fi, tcall) is not None:
                    tmp = "_%s_%d" % (callee_short(tcall).strip("_"), getattr(s, "lineno", 0))
                    pre = self.expand_call(fi, tcall, "assign", [ast.Name(id=tmp, ctx=ast.Store())])
                    if pre is not None:
                        nt = ast.Name(id=tmp, ctx=ast.Load())
                        if tcall is not s.test:
                            nt = ast.UnaryOp(op=ast.Not(), operand=nt)
                        s.test = ast.copy_location(nt, s.test)
                        ast.fix_missing_locations(s)
                        out.extend(pre)
                        changed = True
            if rep is None and isinstance(s, ast.For):
                rep = self.expand_generator_loop(fi, s)
            if rep is None and isinstance(s, ast.For):
                rep = _split_range_loop(s, fi.node)
                if rep is not None:
                    self.log.append("%s: loop over range(a + b + ..) split at its phase boundaries, line %s" % (fi.fq, getattr(s, "lineno", "?")))
            if rep is None and isinstance(s, ast.For):
                rep = _split_schedule_loop(s, fi.node)
                if rep is not None:
                    self.log.append("%s: loop over a piecewise-constant schedule split at line %s" % (fi.fq, getattr(s, "lineno", "?")))
            if rep is None and isinstance(s, ast.For):
                rep = _unroll_for(s, fi.node)
                if rep is not None:
                    self.log.append("%s: unrolled loop at line %s" % (fi.fq, getattr(s, "lineno", "?")))
            if rep is not None:
                out.extend(rep)
                changed = True
                continue
            for fld in ("body", "orelse", "finalbody"):
                sub = getattr(s, fld, None)
                if isinstance(sub, list) and sub and isinstance(sub[0], ast.stmt) and not isinstance(s, (ast.FunctionDef, ast.ClassDef, ast.AsyncFunctionDef)):
                    nb, ch = self.flat_block(fi, sub)
                    if ch:
                        setattr(s, fld, nb)
                        changed = True
            for h in getattr(s, "handlers", []) or []:
                nb, ch = self.flat_block(fi, h.body)
                if ch:
                    h.body = nb
                    changed = True
            out.append(s)
        while _scalarize_lists(out, fi.node):
            changed = True
        if _append_loops_to_comprehensions(out):
            changed = True
        if _propagate_copies(out, {g for n_ in ast.walk(fi.node) if isinstance(n_, (ast.Global, ast.Nonlocal)) for g in n_.names}):
            changed = True
        return out, changed

    def flatten_function(self, fi):
        if not isinstance(fi.node, ast.FunctionDef):
            return False
        chain, p_ = [], fi.parent
        while p_ is not None:
            if isinstance(p_.node, ast.FunctionDef):
                chain.append(p_.node)
            p_ = p_.parent
        fi.node._closure_parents = chain
        ci_, p2_ = fi.cls, fi
        while ci_ is None and p2_ is not None:
            p2_ = p2_.parent
            ci_ = p2_.cls if p2_ is not None else None
        ca_ = {}
        for cn_, c_ in fi.module.classes.items():
            for an_, av_ in c_.attrs.items():
                if isinstance(av_, (ast.Tuple, ast.List)) and not any(
                        isinstance(x, ast.Attribute) and x.attr == an_ and not isinstance(x.ctx, ast.Load) for x in ast.walk(fi.module.tree)):
                    ca_[(cn_, an_)] = av_
                    if c_ is ci_:
                        ca_[("self", an_)] = av_
                        ca_[("cls", an_)] = av_
        fi.node._class_attrs = ca_
        try:
            pre_changed = _canon_tests(fi.node)
            pre_changed = self.scalarize_objects(fi) or pre_changed
        except Exception as e:
            self.log.append("scalarize_objects failed for %s: %r" % (fi.fq, e))
            pre_changed = False
        any_change = bool(pre_changed)
        # calls of a hand-written scalar bit allocator are PrivValBool (lemma (D), sa/bitnorm.py): before the helper is inlined
        from .bitnorm import scalar_allocators, rewrite_scalar_allocators
        if not hasattr(fi.module, "_scalar_allocators"):
            fi.module._scalar_allocators = scalar_allocators(fi.module.tree)
        if fi.module._scalar_allocators and rewrite_scalar_allocators(fi.node, fi.module._scalar_allocators):
            any_change = True
            self.log.append("%s: hand-written bit allocator call rewritten to PrivValBool by lemma (D)" % fi.fq)
        for _ in range(MAX_ROUNDS):
            if _const_table_lookups(fi):
                any_change = True
            nb, ch = self.flat_block(fi, fi.node.body)
            ei = _ExprInline(self, fi)
            nb = [ei.visit(s) for s in nb]
            if ei.changed:
                nb = [_Beta(fi.module).visit(s) for s in nb]
                for s in nb:
                    ast.fix_missing_locations(s)
                self.log.append("%s: expression-level helper inlining" % fi.fq)
            if not ch and not ei.changed:
                break
            fi.node.body = nb
            any_change = True
        if _const_table_lookups(fi):
            any_change = True
            nb_, ch_ = self.flat_block(fi, fi.node.body)      # tuple assignments of table rows are split
            fi.node.body = nb_
        if any(isinstance(x, ast.Call) and isinstance(x.func, ast.Name) and x.func.id in ("getattr", "setattr") for x in ast.walk(fi.node)):
            before_ = ast.dump(fi.node)
            fi.node.body = [_AttrCanon().visit(b) for b in fi.node.body]
            ast.fix_missing_locations(fi.node)
            if ast.dump(fi.node) != before_:
                any_change = True
        if _inline_function_locals(fi):
            any_change = True
        if _propagate_const_locals(fi.node):
            any_change = True
        if _fuse_test_temps(fi.node):
            any_change = True
        if _fuse_return_temps(fi.node):
            any_change = True
        for _ in range(4):
            if not _fuse_arg_temps(fi.node):
                break
            any_change = True
        if _ifs_to_ifexp(fi.node):
            any_change = True
        if _inline_name_copies(fi.node):
            any_change = True
        for _ in range(6):
            if not _thread_flags(fi.node):
                break
            any_change = True
        for n_ in ast.walk(fi.node):
            for c_ in ast.iter_child_nodes(n_):
                c_._parent = n_
        if _fold_tuple_temps(fi.node):
            any_change = True
        if _rename_param_copies(fi.node):
            any_change = True
        from .loopnorm import canon_loops
        lp_ = canon_loops(fi.node)
        if lp_:
            any_change = True
            self.log.append("%s: loop(s) rewritten by lemma %s (binary digits by halving / Horner recomposition, sa/loopnorm.py)" % (fi.fq, "/".join(lp_)))
        from .bitnorm import canon_bit_allocation
        if canon_bit_allocation(fi.node):
            any_change = True
            self.log.append("%s: hand-written witness-bit allocation rewritten to PrivValBool form by lemma (D) (sa/bitnorm.py)" % fi.fq)
        from .signnorm import canon_sign_test
        sg = canon_sign_test(fi.node)
        if sg:
            any_change = True
            self.log.append("%s: offset-binary sign test (%s) rewritten to the library form by lemma (F) (sa/signnorm.py)" % (fi.fq, sg))
        from .selnorm import canon_selector_designs
        lem = canon_selector_designs(fi.node)
        if lem:
            any_change = True
            self.log.append("%s: one-hot selector design %s rewritten to the library form by its lemma (sa/selnorm.py)" % (fi.fq, "/".join(lem)))
        if any_change:
            for n in ast.walk(fi.node):
                for c in ast.iter_child_nodes(n):
                    c._parent = n
        return any_change


class _FieldSub(ast.NodeTransformer):
    """`<recv>.f` (load) -> the expression the field was initialised with"""

    def __init__(self, recv, exprs):
        self.recv, self.exprs = recv, exprs

    def visit_Attribute(self, n):
        if isinstance(n.value, ast.Name) and n.value.id == self.recv and n.attr in self.exprs and isinstance(n.ctx, ast.Load):
            return ast.copy_location(clone(self.exprs[n.attr]), n)
        self.generic_visit(n)
        return n


def inline_module_singletons(repo, fl):
    """X = C(consts) at module level, C a private record-with-helpers class of the module (fields bound once in __init__,
    never written again, X never rebound): `X.f` is the expression the field was initialised with, in the module's
    functions and in C's own methods (which then mention no `self.f`); `X.m(a)` with an expression method m is its value."""
    for m in repo.modules.values():
        done = False
        for s in list(m.tree.body):
            if not (isinstance(s, ast.Assign) and len(s.targets) == 1 and isinstance(s.targets[0], ast.Name) and isinstance(s.value, ast.Call)
                    and isinstance(s.value.func, ast.Name) and s.value.func.id in m.classes and s.value.func.id not in KNOWN
                    and not s.value.keywords and all(_simple(a) for a in s.value.args)):
                continue
            X, ci = s.targets[0].id, m.classes[s.value.func.id]
            if ci.base_names and ci.base_names != ["object"]:
                continue
            if sum(1 for n in ast.walk(m.tree) if isinstance(n, ast.Name) and n.id == X and not isinstance(n.ctx, ast.Load)) != 1:
                continue
            if any(isinstance(n, ast.Global) and X in n.names for n in ast.walk(m.tree)):
                continue
            if any(isinstance(n, ast.Attribute) and isinstance(n.value, ast.Name) and n.value.id == X and not isinstance(n.ctx, ast.Load)
                   for n in ast.walk(m.tree)):
                continue
            init = ci.methods.get("__init__")
            if init is None or not init.params or len(init.params) - 1 != len(s.value.args) or init.node.args.defaults \
                    or init.node.args.vararg or init.node.args.kwarg:
                continue
            selfn = init.params[0]
            env = dict(zip(init.params[1:], s.value.args))
            exprs = {}
            ok = True
            for st in init.node.body:
                if isinstance(st, ast.Expr) and isinstance(st.value, ast.Constant):
                    continue
                if isinstance(st, ast.Assign) and len(st.targets) == 1 and isinstance(st.targets[0], ast.Attribute) \
                        and isinstance(st.targets[0].value, ast.Name) and st.targets[0].value.id == selfn \
                        and not any(isinstance(x, (ast.Call,)) and not (isinstance(x.func, ast.Attribute) and x.func.attr == "bit_length")
                                    for x in ast.walk(st.value)):
                    v = _FieldSub(selfn, exprs).visit(_Subst(env).visit(clone(st.value)))
                    if st.targets[0].attr in exprs:
                        ok = False
                    exprs[st.targets[0].attr] = v
                else:
                    ok = False
            for mn, mi in ci.methods.items():
                if mn != "__init__" and mi.params and any(isinstance(n, ast.Attribute) and isinstance(n.value, ast.Name) and n.value.id == mi.params[0]
                                                           and not isinstance(n.ctx, ast.Load) for n in ast.walk(mi.node)):
                    ok = False
            if not ok or not exprs:
                continue
            # the class's own methods read the fields of the one instance there is
            for mn, mi in ci.methods.items():
                if mn != "__init__" and mi.params:
                    mi.node.body = [_FieldSub(mi.params[0], exprs).visit(b) for b in mi.node.body]
                    ast.fix_missing_locations(mi.node)
            # expression methods: value of X.m(args)   (methods calling expression methods of self are resolved first)
            expr_methods = {}
            for _round in range(3):
                for mn, mi in ci.methods.items():
                    if mn == "__init__" or mn in expr_methods or not mi.params or mi.node.decorator_list or mi.node.args.defaults \
                            or mi.node.args.vararg or mi.node.args.kwarg:
                        continue
                    sn_ = mi.params[0]

                    class _SelfCall(ast.NodeTransformer):
                        def visit_Call(self_, n):
                            self_.generic_visit(n)
                            f = n.func
                            if isinstance(f, ast.Attribute) and isinstance(f.value, ast.Name) and f.value.id == sn_ and f.attr in expr_methods \
                                    and not n.keywords and len(n.args) == len(expr_methods[f.attr][0]) and all(_simple(a) for a in n.args):
                                ps, e = expr_methods[f.attr]
                                return ast.copy_location(_Subst(dict(zip(ps, n.args))).visit(clone(e)), n)
                            return n
                    mi.node.body = [_SelfCall().visit(b) for b in mi.node.body]
                    ast.fix_missing_locations(mi.node)
                    body = [b for b in mi.node.body if not (isinstance(b, ast.Expr) and isinstance(b.value, ast.Constant))]
                    if len(body) == 1 and isinstance(body[0], ast.Return) and body[0].value is not None and not any(
                            isinstance(n, ast.Name) and n.id == sn_ for n in ast.walk(body[0].value)):
                        expr_methods[mn] = (mi.params[1:], body[0].value)

            class _Use(ast.NodeTransformer):
                def visit_Call(self_, n):
                    self_.generic_visit(n)
                    f = n.func
                    if isinstance(f, ast.Attribute) and isinstance(f.value, ast.Name) and f.value.id == X and f.attr in expr_methods \
                            and not n.keywords and len(n.args) == len(expr_methods[f.attr][0]) and all(_simple(a) for a in n.args):
                        ps, e = expr_methods[f.attr]
                        # each argument used once, or plain
                        for p_, a_ in zip(ps, n.args):
                            uses = sum(1 for x in ast.walk(e) if isinstance(x, ast.Name) and x.id == p_)
                            if uses > 1 and any(isinstance(x, ast.Subscript) for x in ast.walk(a_)):
                                return n
                        fl.inlined_names.add(f.attr)
                        return ast.copy_location(_Use().visit(_Subst(dict(zip(ps, n.args))).visit(clone(e))), n)
                    return n
            for i, st in enumerate(m.tree.body):
                if st is s or (isinstance(st, ast.ClassDef) and st is ci.node and False):
                    continue
                st2 = _Use().visit(_FieldSub(X, exprs).visit(st))
                ast.fix_missing_locations(st2)
                m.tree.body[i] = st2
            fl.log.append("%s: module singleton `%s` of %s: fields %s inlined" % (m.name, X, ci.name, sorted(exprs)))
            fl.singletons.add((m.name, X))
            done = True
        if done:
            for n in ast.walk(m.tree):
                for c in ast.iter_child_nodes(n):
                    c._parent = n


def flatten_repo(repo):
    """Inline unknown helpers everywhere (in place: FunctionInfo.node bodies are rewritten)."""
    fl = Flattener(repo)
    try:
        inline_module_singletons(repo, fl)
    except Exception as e:
        import traceback
        fl.log.append("inline_module_singletons failed: %r %s" % (e, traceback.format_exc().splitlines()[-3:]))
    touched = []
    for m in repo.modules.values():
        if m.name.startswith("pysnark.zkinterface.") and m.name not in ("pysnark.zkinterface.backend",):
            continue
        for fi in list(m.functions.values()):
            if fi.name in KNOWN or fi.parent is not None:
                try:
                    if fl.flatten_function(fi):
                        touched.append(fi.fq)
                except Exception as e:
                    import traceback
                    fl.log.append("flatten failed for %s: %r %s" % (fi.fq, e, traceback.format_exc().splitlines()[-3:]))
                    continue
    # module-level statements: expression functions only (BL = _byte_length(modulus))
    class _ModFi:
        def __init__(self, m):
            self.module, self.parent, self.cls, self.children, self.node, self.fq = m, None, None, {}, m.tree, m.name + ":<module>"
    for m in repo.modules.values():
        if m.name.startswith("pysnark.zkinterface.") and m.name not in ("pysnark.zkinterface.backend",):
            continue
        try:
            ei = _ExprInline(fl, _ModFi(m))
            for i, s in enumerate(m.tree.body):
                if not isinstance(s, (ast.FunctionDef, ast.ClassDef, ast.Import, ast.ImportFrom)):
                    m.tree.body[i] = ei.visit(s)
            if ei.changed:
                for n in ast.walk(m.tree):
                    for c in ast.iter_child_nodes(n):
                        c._parent = n
                ast.fix_missing_locations(m.tree)
                for k, b in list(m.bindings.items()):
                    if b[0] == "value":
                        for s in m.tree.body:
                            if isinstance(s, ast.Assign) and any(isinstance(t, ast.Name) and t.id == k for t in s.targets):
                                m.bindings[k] = ("value", s.value)
                fl.log.append("%s: module-level expression helpers inlined" % m.name)
        except Exception as e:
            fl.log.append("module-level inlining failed for %s: %r" % (m.name, e))
    _drop_dead_helpers(repo, fl)
    repo.flatten_log = fl.log
    return fl


def _drop_dead_helpers(repo, fl):
    """A private helper (or helper context-manager class) every use of which was inlined is no longer part of the
    analysed program: it is removed from the function tables (its body lives on at the call sites)."""
    if not fl.inlined_names and not fl.inlined_classes:
        return
    refs = {}
    for m in repo.modules.values():
        for n in ast.walk(m.tree):
            if isinstance(n, ast.Name) and isinstance(n.ctx, ast.Load):
                refs[n.id] = refs.get(n.id, 0) + 1
            elif isinstance(n, ast.Attribute):
                refs[n.attr] = refs.get(n.attr, 0) + 1
            elif isinstance(n, ast.Constant) and isinstance(n.value, str) and n.value.isidentifier():
                refs[n.value] = refs.get(n.value, 0) + 1
    dropped = []
    # a nested helper is private to its function whatever its name: once no use is left there, it is gone
    for m in repo.modules.values():
        for q, fi in list(m.functions.items()):
            if fi.parent is None or fi.name not in fl.inlined_names or not isinstance(fi.node, ast.FunctionDef) or q not in m.functions:
                continue
            pn = fi.parent.node
            used = any(isinstance(x, ast.Name) and x.id == fi.name and isinstance(x.ctx, ast.Load) for x in ast.walk(pn))
            if used:
                continue
            for holder in ast.walk(pn):
                for fld in ("body", "orelse", "finalbody"):
                    lst = getattr(holder, fld, None)
                    if isinstance(lst, list) and any(s is fi.node for s in lst):
                        lst[:] = [s for s in lst if s is not fi.node] or [ast.Pass()]
            del m.functions[q]
            fi.parent.children.pop(fi.name, None)
            for q2 in [k for k in m.functions if k.startswith(q + ".")]:
                del m.functions[q2]
            dropped.append(fi.fq)
    for m in repo.modules.values():
        for q, fi in list(m.functions.items()):
            nm = fi.name
            if nm in fl.inlined_names and not nm.endswith("__") and nm not in KNOWN and refs.get(nm, 0) == 0 and (
                    nm.startswith("_") or (fi.cls is None and fi.parent is None)):
                del m.functions[q]
                if fi.cls is not None:
                    fi.cls.methods.pop(nm, None)
                elif fi.parent is not None:
                    fi.parent.children.pop(nm, None)
                else:
                    m.bindings.pop(nm, None)
                for q2 in [k for k in m.functions if k.startswith(q + ".")]:
                    del m.functions[q2]
                dropped.append(fi.fq)
        for cn, ci in list(m.classes.items()):
            if cn in fl.inlined_classes and cn not in KNOWN and refs.get(cn, 0) == 0:
                for q in [k for k in m.functions if k.startswith(cn + ".")]:
                    del m.functions[q]
                del m.classes[cn]
                m.bindings.pop(cn, None)
                dropped.append(ci.fq)
    for d in dropped:
        fl.log.append("dropped after inlining: %s" % d)


def resolve_locals(fnode, expr, max_depth=4, copies_only=False, keep=()):
    """Copy of `expr` with single-assignment local names replaced by their defining expressions (def-use
    substitution), so that `t = f(x); g(t)` and `g(f(x))` normalise to the same text."""
    counts = {}
    defs = {}
    params = {a.arg for a in fnode.args.args} if hasattr(fnode, "args") else set()
    for n in ast.walk(fnode):
        if isinstance(n, ast.Assign) and len(n.targets) == 1 and isinstance(n.targets[0], ast.Name):
            counts[n.targets[0].id] = counts.get(n.targets[0].id, 0) + 1
            defs[n.targets[0].id] = n.value
        elif isinstance(n, (ast.AugAssign, ast.For, ast.comprehension, ast.NamedExpr, ast.With)):
            t = getattr(n, "target", None)
            if t is not None:
                for x in ast.walk(t):
                    if isinstance(x, ast.Name):
                        counts[x.id] = counts.get(x.id, 0) + 2
    single = {k: v for k, v in defs.items() if counts.get(k) == 1 and k not in params}
    # a name whose object is mutated after the assignment (x.append(..), x[i] = .., x.update(..)) does not stand for its
    # defining expression
    mutated = set()
    for n in ast.walk(fnode):
        if isinstance(n, ast.Call) and isinstance(n.func, ast.Attribute) and isinstance(n.func.value, ast.Name) \
                and n.func.attr in ("append", "extend", "insert", "pop", "remove", "clear", "sort", "reverse", "update", "add", "setdefault"):
            mutated.add(n.func.value.id)
        elif isinstance(n, (ast.Assign, ast.AugAssign, ast.Delete)):
            for t in (n.targets if not isinstance(n, ast.AugAssign) else [n.target]):
                for x in ast.walk(t):
                    if isinstance(x, ast.Subscript) and isinstance(x.value, ast.Name):
                        mutated.add(x.value.id)
    shared = {g for n in ast.walk(fnode) if isinstance(n, (ast.Global, ast.Nonlocal)) for g in n.names}
    single = {k: v for k, v in single.items() if k not in mutated and k not in keep and k not in shared}
    if copies_only:
        # copy propagation only (t = u): always sound for single-assignment locals, whatever state changes in between
        single = {k: v for k, v in single.items() if isinstance(v, ast.Name)}
    e = clone(expr)
    for _ in range(max_depth):
        names = {x.id for x in ast.walk(e) if isinstance(x, ast.Name) and isinstance(x.ctx, ast.Load)}
        todo = {k: single[k] for k in names if k in single}
        if not todo:
            break
        e = _Subst(todo).visit(e)
    return e


def resolutions(fnode, expr, max_depth=4):
    """normalised texts of `expr` with 0, 1, ... levels of def-use substitution applied (for `x in resolutions(...)` tests)"""
    from .loader import norm
    out = []
    for d in range(max_depth + 1):
        t = norm(resolve_locals(fnode, expr, max_depth=d))
        if t not in out:
            out.append(t)
    return out


def helper_closure(repo, fi):
    """AST nodes of `fi` and of every helper *unknown to the rule tables* that it references by name, transitively
    (helpers that could not be inlined - e.g. called inside a comprehension - still belong to the function's code)."""
    out, seen, todo = [], set(), [fi]
    while todo:
        f = todo.pop()
        if id(f.node) in seen:
            continue
        seen.add(id(f.node))
        out.append(f)
        for n in ast.walk(f.node):
            if isinstance(n, ast.Call):
                name = n.func.id if isinstance(n.func, ast.Name) else (n.func.attr if isinstance(n.func, ast.Attribute) and isinstance(
                    n.func.value, ast.Name) and n.func.value.id in ("self", "cls") else None)
                if name is None or name in KNOWN:
                    continue
                cand = None
                g = f
                while g is not None and cand is None:
                    cand = g.children.get(name)
                    g = g.parent
                if cand is None:
                    b = f.module.bindings.get(name)
                    cand = b[1] if b and b[0] == "def" else None
                if cand is None and f.cls is not None:
                    cand = f.cls.methods.get(name)
                if cand is not None and hasattr(cand, "node"):
                    todo.append(cand)
    return out
