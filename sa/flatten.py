"""Statement-level inlining of *unknown* helper functions.

The rule tables refer to the library's functions by name (sa/known_names.py).  A maintainer may extract a few
statements into a new private helper (`_mix`, `_index_selectors`, a nested `declare_side` ...); such a helper is
unknown to the tables, so it is made transparent: at call sites of the forms

    helper(args)            x = helper(args)            return helper(args)

the helper's body is substituted (parameters replaced by the argument expressions, `return e` turned into the
assignment / return of the call site), and applications of lambda arguments are beta-reduced.  Inlining is purely
syntactic and behaviour preserving for helpers with a single exit at the end of a straight-line or if/for body.
Inlined statements keep the helper's source positions (reports point at real lines).
"""
import ast
import copy

from .known_names import KNOWN

MAX_STMTS = 40
MAX_ROUNDS = 3


def _single_exit(fn):
    """The helper returns only in its last top-level statement (or not at all) and does not yield."""
    body = fn.body
    for i, s in enumerate(body):
        for n in ast.walk(s):
            if isinstance(n, (ast.Yield, ast.YieldFrom, ast.Nonlocal)):
                return False
            if isinstance(n, ast.Return) and not (i == len(body) - 1 and n is s):
                return False
            if isinstance(n, (ast.FunctionDef, ast.AsyncFunctionDef, ast.ClassDef)) and n is not fn:
                return False
    return True


def _count(fn):
    return sum(1 for n in ast.walk(fn) if isinstance(n, ast.stmt))


class _Subst(ast.NodeTransformer):
    def __init__(self, mapping):
        self.mapping = mapping

    def visit_Name(self, n):
        if isinstance(n.ctx, ast.Load) and n.id in self.mapping:
            return copy.deepcopy(self.mapping[n.id])
        return n

    def visit_Lambda(self, n):
        shadow = {a.arg for a in n.args.args}
        inner = {k: v for k, v in self.mapping.items() if k not in shadow}
        n2 = copy.copy(n)
        n2.body = _Subst(inner).visit(copy.deepcopy(n.body))
        return n2


class _Beta(ast.NodeTransformer):
    """(lambda a, b: E)(x, y)  ->  E[a:=x, b:=y]"""

    def visit_Call(self, n):
        self.generic_visit(n)
        f = n.func
        if isinstance(f, ast.Lambda) and not n.keywords and not f.args.vararg and not f.args.kwarg \
                and len(f.args.args) == len(n.args) and not any(isinstance(a, ast.Starred) for a in n.args):
            mapping = {p.arg: a for p, a in zip(f.args.args, n.args)}
            return ast.copy_location(_Subst(mapping).visit(copy.deepcopy(f.body)), n)
        return n


def _simple(e):
    if isinstance(e, (ast.Name, ast.Constant, ast.Lambda)):
        return True
    if isinstance(e, ast.Attribute):
        return _simple(e.value)
    if isinstance(e, ast.Subscript):
        return _simple(e.value) and isinstance(e.slice, (ast.Constant, ast.Name))
    return False


def _assigned_names(fn):
    out = set()
    for n in ast.walk(fn):
        if isinstance(n, (ast.Assign, ast.AugAssign, ast.AnnAssign, ast.For, ast.comprehension, ast.NamedExpr)):
            tg = n.targets if isinstance(n, ast.Assign) else [n.target]
            for t in tg:
                for x in ast.walk(t):
                    if isinstance(x, ast.Name):
                        out.add(x.id)
    return out


class Flattener:
    def __init__(self, repo):
        self.repo = repo
        self.n_inlined = 0
        self.log = []

    # ---------------------------------------------------------------- resolution of a call to an inlinable helper
    def helper_of(self, fi, call):
        """(helper FunctionDef, receiver expr or None) for a call that may be inlined, else None."""
        f = call.func
        name = None
        recv = None
        cand = None
        if isinstance(f, ast.Name):
            name = f.id
            g = fi
            while g is not None and cand is None:
                if name in g.children:
                    cand = g.children[name]
                g = g.parent
            if cand is None:
                b = fi.module.bindings.get(name)
                if b and b[0] == "def":
                    cand = b[1]
        elif isinstance(f, ast.Attribute) and isinstance(f.value, ast.Name):
            name = f.attr
            base = f.value.id
            ci = fi.cls
            if ci is None and fi.parent is not None:
                p = fi
                while p is not None and p.cls is None:
                    p = p.parent
                ci = p.cls if p is not None else None
            if ci is not None and base in ("self", "cls", ci.name):
                mi = ci.methods.get(name)
                if mi is not None:
                    cand = mi
                    if not mi.is_staticmethod:
                        recv = f.value if base != ci.name or mi.is_classmethod else None
                        if base == ci.name and not mi.is_classmethod:
                            return None    # Class.method(obj, ...) form: not handled
        if cand is None or name in KNOWN or (name.startswith("__") and name.endswith("__")):
            return None
        fn = cand.node
        if not isinstance(fn, ast.FunctionDef) or fn is fi.node:
            return None
        if fn.decorator_list and not all(isinstance(d, ast.Name) and d.id in ("staticmethod", "classmethod") for d in fn.decorator_list):
            return None
        if fn.args.vararg or fn.args.kwarg or fn.args.kwonlyargs:
            return None
        if any(isinstance(a, ast.Starred) for a in call.args) or any(k.arg is None for k in call.keywords):
            return None
        if _count(fn) > MAX_STMTS or not _single_exit(fn):
            return None
        # recursion guard
        for n in ast.walk(fn):
            if isinstance(n, ast.Call) and ((isinstance(n.func, ast.Name) and n.func.id == name) or
                                            (isinstance(n.func, ast.Attribute) and n.func.attr == name)):
                return None
        return fn, recv

    # ---------------------------------------------------------------- expansion
    def expand_call(self, fi, call, mode, target=None):
        """Statements replacing a call site.  mode in {'expr', 'assign', 'return'}"""
        h = self.helper_of(fi, call)
        if h is None:
            return None
        fn, recv = h
        params = [a.arg for a in fn.args.args]
        args = list(call.args)
        if recv is not None:
            args = [recv] + args
        elif params and params[0] in ("self", "cls") and isinstance(call.func, ast.Attribute):
            args = [call.func.value] + args
        mapping = {}
        pre = []
        defaults = fn.args.defaults
        off = len(params) - len(defaults)
        kw = {k.arg: k.value for k in call.keywords}
        assigned = _assigned_names(fn)
        for i, p in enumerate(params):
            if i < len(args):
                a = args[i]
            elif p in kw:
                a = kw[p]
            elif i >= off:
                a = defaults[i - off]
            else:
                return None
            if _simple(a) and p not in assigned:
                mapping[p] = a
            else:
                asg = ast.Assign(targets=[ast.Name(id=p, ctx=ast.Store())], value=copy.deepcopy(a))
                pre.append(ast.copy_location(asg, call))
        body = [copy.deepcopy(s) for s in fn.body]
        if body and isinstance(body[0], ast.Expr) and isinstance(body[0].value, ast.Constant) and isinstance(body[0].value.value, str):
            body = body[1:]
        body = [s for s in body if not isinstance(s, ast.Global)]
        sub = _Subst(mapping)
        body = [sub.visit(s) for s in body]
        out = list(pre)
        ret = None
        if body and isinstance(body[-1], ast.Return):
            ret = body[-1].value
            body = body[:-1]
        out += body
        if mode == "assign":
            val = ret if ret is not None else ast.Constant(value=None)
            trivial = len(target) == 1 and isinstance(target[0], ast.Name) and isinstance(val, ast.Name) and val.id == target[0].id
            if not trivial:
                a = ast.Assign(targets=[copy.deepcopy(t) for t in target], value=val)
                out.append(ast.copy_location(a, call))
        elif mode == "return":
            r = ast.Return(value=ret)
            out.append(ast.copy_location(r, call))
        elif mode == "expr" and ret is not None and any(isinstance(x, ast.Call) for x in ast.walk(ret)):
            e = ast.Expr(value=ret)
            out.append(ast.copy_location(e, call))
        out = [_Beta().visit(s) for s in out]
        for s in out:
            ast.fix_missing_locations(s)
        self.n_inlined += 1
        self.log.append("%s: inlined %s at line %s" % (fi.fq, fn.name, getattr(call, "lineno", "?")))
        return out

    def flat_block(self, fi, stmts):
        out = []
        changed = False
        for s in stmts:
            rep = None
            if isinstance(s, ast.Expr) and isinstance(s.value, ast.Call):
                rep = self.expand_call(fi, s.value, "expr")
            elif isinstance(s, ast.Assign) and isinstance(s.value, ast.Call):
                rep = self.expand_call(fi, s.value, "assign", s.targets)
            elif isinstance(s, ast.Return) and isinstance(s.value, ast.Call):
                rep = self.expand_call(fi, s.value, "return")
            if rep is not None:
                out.extend(rep)
                changed = True
                continue
            for fld in ("body", "orelse", "finalbody"):
                sub = getattr(s, fld, None)
                if isinstance(sub, list) and sub and isinstance(sub[0], ast.stmt) and not isinstance(s, (ast.FunctionDef, ast.ClassDef, ast.AsyncFunctionDef)):
                    nb, ch = self.flat_block(fi, sub)
                    if ch:
                        setattr(s, fld, nb)
                        changed = True
            for h in getattr(s, "handlers", []) or []:
                nb, ch = self.flat_block(fi, h.body)
                if ch:
                    h.body = nb
                    changed = True
            out.append(s)
        return out, changed

    def flatten_function(self, fi):
        if not isinstance(fi.node, ast.FunctionDef):
            return False
        any_change = False
        for _ in range(MAX_ROUNDS):
            nb, ch = self.flat_block(fi, fi.node.body)
            if not ch:
                break
            fi.node.body = nb
            any_change = True
        if any_change:
            for n in ast.walk(fi.node):
                for c in ast.iter_child_nodes(n):
                    c._parent = n
        return any_change


def flatten_repo(repo):
    """Inline unknown helpers everywhere (in place: FunctionInfo.node bodies are rewritten)."""
    fl = Flattener(repo)
    touched = []
    for m in repo.modules.values():
        if m.name.startswith("pysnark.zkinterface.") and m.name not in ("pysnark.zkinterface.backend",):
            continue
        for fi in list(m.functions.values()):
            if fi.name in KNOWN or fi.parent is not None:
                try:
                    if fl.flatten_function(fi):
                        touched.append(fi.fq)
                except Exception:
                    continue
    repo.flatten_log = fl.log
    return fl


def resolve_locals(fnode, expr, max_depth=4):
    """Copy of `expr` with single-assignment local names replaced by their defining expressions (def-use
    substitution), so that `t = f(x); g(t)` and `g(f(x))` normalise to the same text."""
    counts = {}
    defs = {}
    params = {a.arg for a in fnode.args.args} if hasattr(fnode, "args") else set()
    for n in ast.walk(fnode):
        if isinstance(n, ast.Assign) and len(n.targets) == 1 and isinstance(n.targets[0], ast.Name):
            counts[n.targets[0].id] = counts.get(n.targets[0].id, 0) + 1
            defs[n.targets[0].id] = n.value
        elif isinstance(n, (ast.AugAssign, ast.For, ast.comprehension, ast.NamedExpr, ast.With)):
            t = getattr(n, "target", None)
            if t is not None:
                for x in ast.walk(t):
                    if isinstance(x, ast.Name):
                        counts[x.id] = counts.get(x.id, 0) + 2
    single = {k: v for k, v in defs.items() if counts.get(k) == 1 and k not in params}
    e = copy.deepcopy(expr)
    for _ in range(max_depth):
        names = {x.id for x in ast.walk(e) if isinstance(x, ast.Name) and isinstance(x.ctx, ast.Load)}
        todo = {k: single[k] for k in names if k in single}
        if not todo:
            break
        e = _Subst(todo).visit(e)
    return e
