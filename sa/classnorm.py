"""Class-body normalisation applied to a module's tree before it is indexed: methods produced by a class-level factory

    class C:
        def _comparison(name):
            def compare(self, other): return getattr(self.lc, name)(self._operand(other))
            compare.__name__ = name
            return compare
        __lt__, __le__ = map(_comparison, ["__lt__", "__le__"])          # or (F("a"), F("b")), [F(n) for n in (..)], x = F("a")
        del _comparison

are written out as the `def`s they stand for (`def __lt__(self, other): return self.lc.__lt__(self._operand(other))`), so that
every rule sees the methods the class really has.  Only closed forms are expanded: the factory's body is one inner `def`
(plus assignments to attributes of that inner function) and `return <inner>`; its arguments at the use are constants."""
import ast

from .loader import clone


class _Sub(ast.NodeTransformer):
    def __init__(self, mapping):
        self.mapping = mapping

    def visit_Name(self, n):
        if isinstance(n.ctx, ast.Load) and n.id in self.mapping:
            return ast.copy_location(clone(self.mapping[n.id]), n)
        return n


class _GetattrConst(ast.NodeTransformer):
    def visit_Call(self, n):
        self.generic_visit(n)
        if isinstance(n.func, ast.Name) and n.func.id == "getattr" and len(n.args) == 2 and not n.keywords \
                and isinstance(n.args[1], ast.Constant) and isinstance(n.args[1].value, str) and n.args[1].value.isidentifier():
            return ast.copy_location(ast.Attribute(value=n.args[0], attr=n.args[1].value, ctx=ast.Load()), n)
        return n


def _factory_shape(fn):
    """(params, inner def) when `fn` is a closed method factory, else None"""
    if fn.decorator_list or fn.args.vararg or fn.args.kwarg or fn.args.kwonlyargs or fn.args.defaults:
        return None
    params = [a.arg for a in fn.args.args]
    if not params or params[0] in ("self", "cls"):
        return None
    body = [s for s in fn.body if not (isinstance(s, ast.Expr) and isinstance(s.value, ast.Constant))]
    inner = [s for s in body if isinstance(s, ast.FunctionDef)]
    if len(inner) != 1 or not isinstance(body[-1], ast.Return) or not isinstance(body[-1].value, ast.Name) \
            or body[-1].value.id != inner[0].name:
        return None
    for s in body:
        if s is inner[0] or s is body[-1]:
            continue
        # g.__name__ = name / g.__doc__ = ... : metadata of the produced function
        if isinstance(s, ast.Assign) and all(isinstance(t, ast.Attribute) and isinstance(t.value, ast.Name) and t.value.id == inner[0].name
                                             and t.attr.startswith("__") for t in s.targets):
            continue
        return None
    # the inner function must not rebind the factory's parameters
    for n in ast.walk(inner[0]):
        if isinstance(n, ast.Name) and n.id in params and not isinstance(n.ctx, ast.Load):
            return None
        if isinstance(n, ast.arg) and n.arg in params:
            return None
    return params, inner[0]


def _const_list(e):
    if isinstance(e, (ast.List, ast.Tuple)) and all(isinstance(x, ast.Constant) for x in e.elts):
        return list(e.elts)
    return None


def _uses(value, factories):
    """list of (factory name, [constant args]) produced by `value`, or None"""
    def one(c):
        if isinstance(c, ast.Call) and isinstance(c.func, ast.Name) and c.func.id in factories and not c.keywords \
                and all(isinstance(a, ast.Constant) for a in c.args) and len(c.args) == len(factories[c.func.id][0]):
            return (c.func.id, list(c.args))
        return None
    r = one(value)
    if r is not None:
        return [r], False
    if isinstance(value, (ast.Tuple, ast.List)):
        rs = [one(x) for x in value.elts]
        return (rs, True) if rs and None not in rs else (None, True)
    if isinstance(value, ast.Call) and isinstance(value.func, ast.Name) and value.func.id in ("tuple", "list") and len(value.args) == 1:
        return _uses(value.args[0], factories)[0], True
    if isinstance(value, ast.Call) and isinstance(value.func, ast.Name) and value.func.id == "map" and len(value.args) == 2 \
            and isinstance(value.args[0], ast.Name) and value.args[0].id in factories and len(factories[value.args[0].id][0]) == 1:
        cs = _const_list(value.args[1])
        if cs is not None:
            return [(value.args[0].id, [c]) for c in cs], True
    if isinstance(value, (ast.ListComp, ast.GeneratorExp)) and len(value.generators) == 1 and not value.generators[0].ifs \
            and isinstance(value.generators[0].target, ast.Name):
        cs = _const_list(value.generators[0].iter)
        e = value.elt
        v = value.generators[0].target.id
        if cs is not None and isinstance(e, ast.Call) and isinstance(e.func, ast.Name) and e.func.id in factories \
                and len(e.args) == 1 and isinstance(e.args[0], ast.Name) and e.args[0].id == v and not e.keywords \
                and len(factories[e.func.id][0]) == 1:
            return [(e.func.id, [c]) for c in cs], True
    return None, False


def expand_class_factories(tree):
    changed = False
    for cls in [n for n in ast.walk(tree) if isinstance(n, ast.ClassDef)]:
        factories = {}
        for s in cls.body:
            if isinstance(s, ast.FunctionDef):
                sh = _factory_shape(s)
                if sh is not None:
                    factories[s.name] = sh
        if not factories:
            continue
        new_body = []
        used = set()
        failed = set()
        for s in cls.body:
            if isinstance(s, ast.Assign) and len(s.targets) == 1:
                us, multi = _uses(s.value, factories)
                tg = s.targets[0]
                names = None
                if us is not None:
                    if isinstance(tg, ast.Name) and not multi:
                        names = [tg.id]
                    elif isinstance(tg, (ast.Tuple, ast.List)) and multi and all(isinstance(x, ast.Name) for x in tg.elts) \
                            and len(tg.elts) == len(us):
                        names = [x.id for x in tg.elts]
                if names is not None:
                    for nm, (fname, args) in zip(names, us):
                        params, inner = factories[fname]
                        d = clone(inner)
                        d.name = nm
                        d = _GetattrConst().visit(_Sub(dict(zip(params, args))).visit(d))
                        ast.copy_location(d, inner)
                        ast.fix_missing_locations(d)
                        new_body.append(d)
                        used.add(fname)
                    changed = True
                    continue
            for n in ast.walk(s) if not isinstance(s, ast.FunctionDef) or s.name not in factories else []:
                if isinstance(n, ast.Name) and n.id in factories and not isinstance(n.ctx, ast.Del):
                    failed.add(n.id)       # some other use of the factory: keep its definition
            new_body.append(s)
        if used:
            out = []
            for s in new_body:
                if isinstance(s, ast.FunctionDef) and s.name in used and s.name not in failed:
                    continue
                if isinstance(s, ast.Delete):
                    s.targets = [t for t in s.targets if not (isinstance(t, ast.Name) and t.id in used and t.id not in failed)]
                    if not s.targets:
                        continue
                out.append(s)
            cls.body = out or [ast.Pass()]
    return changed
