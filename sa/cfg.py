"""Statement-level control-flow graph of one function, with exceptional edges.

Nodes are integers; `self.stmt[n]` is the ast statement (or test expression) of node n,
`self.kind[n]` in {'entry','exit','raise-exit','stmt','test','loop','handler','join'}.
Edges carry a label in {'next','true','false','exc','back','break','continue','return'}.

Every statement that can raise (anything but pass/global/nonlocal/import-free trivia) has
an 'exc' edge to the innermost enclosing handler dispatch (or to RAISE-EXIT, running the
enclosing `finally` bodies on the way: finally bodies are instantiated once per way of
leaving the try statement).
"""
import ast


class CFG:
    def __init__(self, fnode):
        self.fnode = fnode
        self.kind = {}
        self.stmt = {}
        self.succ = {}
        self.pred = {}
        self.n = 0
        self.entry = self.new("entry")
        self.exit = self.new("exit")
        self.rexit = self.new("raise-exit")
        body = fnode.body if isinstance(fnode.body, list) else [ast.Return(value=fnode.body)]
        ctx = {"exc": self.rexit, "ret": self.exit, "brk": None, "cont": None}
        first, outs = self.block(body, ctx)
        self.edge(self.entry, first if first is not None else self.exit, "next")
        for o, lab in outs:
            self.edge(o, self.exit, lab)

    # ------------------------------------------------------------------ construction
    def new(self, kind, stmt=None):
        i = self.n
        self.n += 1
        self.kind[i] = kind
        self.stmt[i] = stmt
        self.succ[i] = []
        self.pred[i] = []
        return i

    def edge(self, a, b, lab):
        if b is None:
            return
        if (b, lab) not in self.succ[a]:
            self.succ[a].append((b, lab))
            self.pred[b].append((a, lab))

    @staticmethod
    def may_raise(s):
        if isinstance(s, (ast.Pass, ast.Global, ast.Nonlocal, ast.Break, ast.Continue)):
            return False
        if isinstance(s, (ast.FunctionDef, ast.AsyncFunctionDef, ast.ClassDef)):
            return bool(getattr(s, "decorator_list", None))
        if isinstance(s, ast.Return) and (s.value is None or isinstance(s.value, (ast.Name, ast.Constant))):
            return False
        if isinstance(s, ast.Assign) and isinstance(s.value, (ast.Name, ast.Constant)) and all(
                isinstance(t, ast.Name) for t in s.targets):
            return False
        if isinstance(s, ast.Assign) and all(isinstance(t, ast.Name) for t in s.targets) and \
                isinstance(s.value, ast.Tuple) and all(isinstance(e, (ast.Name, ast.Constant)) for e in s.value.elts):
            return False
        if isinstance(s, ast.Assign) and isinstance(s.value, (ast.Name, ast.Constant)) and all(
                isinstance(t, ast.Tuple) and all(isinstance(e, ast.Name) for e in t.elts) for t in s.targets):
            return False   # tuple unpacking of a name: may raise only on arity mismatch; treated as safe
        return True

    def block(self, stmts, ctx):
        """returns (first node or None, [(open node, label)])"""
        first = None
        outs = None
        for s in stmts:
            f, o = self.statement(s, ctx)
            if f is None:
                continue
            if first is None:
                first = f
            else:
                for (x, lab) in outs:
                    self.edge(x, f, lab)
            outs = o
            if not outs:
                break
        if first is None:
            j = self.new("join")
            return j, [(j, "next")]
        return first, outs

    def statement(self, s, ctx):
        if isinstance(s, ast.If):
            t = self.new("test", s)
            if self.may_raise_expr(s.test):
                self.edge(t, ctx["exc"], "exc")
            bf, bo = self.block(s.body, ctx)
            self.edge(t, bf, "true")
            outs = list(bo)
            if s.orelse:
                ef, eo = self.block(s.orelse, ctx)
                self.edge(t, ef, "false")
                outs += eo
            else:
                outs.append((t, "false"))
            return t, outs
        if isinstance(s, (ast.For, ast.AsyncFor, ast.While)):
            h = self.new("loop", s)
            self.edge(h, ctx["exc"], "exc")
            after = self.new("join")
            c2 = dict(ctx, brk=after, cont=h)
            bf, bo = self.block(s.body, c2)
            self.edge(h, bf, "true")
            for x, lab in bo:
                self.edge(x, h, "back")
            if s.orelse:
                ef, eo = self.block(s.orelse, ctx)
                self.edge(h, ef, "false")
                for x, lab in eo:
                    self.edge(x, after, lab)
            else:
                self.edge(h, after, "false")
            return h, [(after, "next")]
        if isinstance(s, (ast.With, ast.AsyncWith)):
            w = self.new("stmt", s)
            self.edge(w, ctx["exc"], "exc")
            bf, bo = self.block(s.body, ctx)
            self.edge(w, bf, "next")
            return w, bo
        if isinstance(s, (ast.Try,)) or type(s).__name__ == "TryStar":
            return self.try_stmt(s, ctx)
        if isinstance(s, ast.Return):
            n = self.new("stmt", s)
            if self.may_raise(s):
                self.edge(n, ctx["exc"], "exc")
            self.edge(n, ctx["ret"], "return")
            return n, []
        if isinstance(s, ast.Raise):
            n = self.new("stmt", s)
            self.edge(n, ctx["exc"], "exc")
            return n, []
        if isinstance(s, ast.Break):
            n = self.new("stmt", s)
            self.edge(n, ctx["brk"], "break")
            return n, []
        if isinstance(s, ast.Continue):
            n = self.new("stmt", s)
            self.edge(n, ctx["cont"], "continue")
            return n, []
        n = self.new("stmt", s)
        if self.may_raise(s):
            self.edge(n, ctx["exc"], "exc")
        return n, [(n, "next")]

    @staticmethod
    def may_raise_expr(e):
        return not isinstance(e, (ast.Name, ast.Constant))

    def try_stmt(self, s, ctx):
        after_outs = []
        fin = s.finalbody

        def through_finally(target, label):
            """A fresh copy of the finally body that continues to `target`."""
            if not fin or target is None:
                return target
            ff, fo = self.block(fin, ctx)
            for x, lab in fo:
                self.edge(x, target, label)
            return ff

        # where exceptions inside handlers / orelse / (unhandled) body go
        outer_exc = through_finally(ctx["exc"], "exc")
        inner_ctx_after = dict(ctx, exc=outer_exc,
                               ret=through_finally(ctx["ret"], "return"),
                               brk=through_finally(ctx["brk"], "break") if ctx["brk"] is not None else None,
                               cont=through_finally(ctx["cont"], "continue") if ctx["cont"] is not None else None)
        if s.handlers:
            disp = self.new("handler", s)
            catches_all = False
            for h in s.handlers:
                hf, ho = self.block(h.body, inner_ctx_after)
                self.edge(disp, hf, "exc")
                after_outs += ho
                if h.type is None or (isinstance(h.type, ast.Name) and h.type.id in ("BaseException",)):
                    catches_all = True
            if not catches_all:
                self.edge(disp, outer_exc, "exc")
            body_ctx = dict(inner_ctx_after, exc=disp)
        else:
            body_ctx = inner_ctx_after
        bf, bo = self.block(s.body, body_ctx)
        if s.orelse:
            of, oo = self.block(s.orelse, inner_ctx_after)
            for x, lab in bo:
                self.edge(x, of, lab)
            bo = oo
        after_outs += bo
        if fin:
            ff, fo = self.block(fin, ctx)
            for x, lab in after_outs:
                self.edge(x, ff, lab)
            after_outs = fo
        return bf, after_outs

    # ------------------------------------------------------------------ queries
    def nodes_where(self, pred):
        return [n for n in range(self.n) if self.stmt[n] is not None and pred(self.stmt[n], self.kind[n])]

    def reach_avoiding(self, start, avoid, first_labels=None):
        """Nodes reachable from `start` without passing through a node in `avoid`.
        `first_labels`: restrict the edges leaving `start` itself to these labels."""
        seen = set()
        stack = []
        for b, lab in self.succ[start]:
            if first_labels is None or lab in first_labels:
                stack.append(b)
        path = {}
        for b in stack:
            path.setdefault(b, start)
        while stack:
            x = stack.pop()
            if x in seen or x in avoid:
                continue
            seen.add(x)
            for b, lab in self.succ[x]:
                if b not in seen and b not in avoid:
                    path.setdefault(b, x)
                    stack.append(b)
        self._last_path = path
        return seen

    def path_to(self, start, target):
        p = getattr(self, "_last_path", {})
        out = [target]
        x = target
        guard = 0
        while x != start and x in p and guard < 1000:
            x = p[x]
            out.append(x)
            guard += 1
        return list(reversed(out))

    def dominators(self):
        nodes = list(range(self.n))
        dom = {n: set(nodes) for n in nodes}
        dom[self.entry] = {self.entry}
        changed = True
        while changed:
            changed = False
            for n in nodes:
                if n == self.entry:
                    continue
                ps = [p for p, _l in self.pred[n]]
                if not ps:
                    new = {n}
                else:
                    new = set.intersection(*[dom[p] for p in ps]) | {n}
                if new != dom[n]:
                    dom[n] = new
                    changed = True
        return dom

    def describe(self, n):
        from .loader import norm
        s = self.stmt[n]
        if s is None:
            return self.kind[n]
        txt = norm(s.test if self.kind[n] == "test" else s)
        return "%s@%s `%s`" % (self.kind[n], getattr(s, "lineno", "?"), txt[:70])


def calls_in(node):
    """Call nodes of a statement, not descending into nested function bodies."""
    out = []
    stack = [node]
    while stack:
        n = stack.pop()
        if isinstance(n, ast.Call):
            out.append(n)
        for c in ast.iter_child_nodes(n):
            if isinstance(c, (ast.FunctionDef, ast.AsyncFunctionDef, ast.Lambda, ast.ClassDef)) and c is not node:
                continue
            stack.append(c)
    return out


def own_stmt_part(s, kind):
    """The part of a compound statement that belongs to its own CFG node."""
    if kind == "test":
        return s.test
    if kind == "loop":
        return s.iter if isinstance(s, (ast.For, ast.AsyncFor)) else s.test
    if isinstance(s, (ast.FunctionDef, ast.AsyncFunctionDef, ast.ClassDef)):
        m = ast.Module(body=[], type_ignores=[])
        m.body = [ast.Expr(value=d) for d in s.decorator_list]
        return m
    if isinstance(s, (ast.With, ast.AsyncWith)):
        m = ast.Module(body=[], type_ignores=[])
        m.body = [ast.Expr(value=i.context_expr) for i in s.items]
        return m
    return s
