"""Rule results, findings, known-finding matching, evidence and replay files."""
import hashlib
import json
import os
import re
import time

VERIF = os.path.dirname(os.path.dirname(os.path.abspath(__file__)))
KNOWN_FILE = os.path.join(VERIF, "known_findings.txt")


class Instance:
    """One evaluated rule instance."""
    __slots__ = ("rule", "where", "construct", "term", "status", "msg", "key")

    def __init__(self, rule, where, construct, term, status, msg="", key=None):
        self.rule = rule
        self.where = where            # file:line
        self.construct = construct    # qualified function / class / table entry
        self.term = term              # normalised text / algebraic form that was compared
        self.status = status          # ok | violation | undecided | note
        self.msg = msg
        self.key = key                # stable key for violations (rule+construct+discriminator)

    def as_dict(self):
        d = {"rule": self.rule, "where": self.where, "construct": self.construct,
             "term": self.term, "status": self.status}
        if self.msg:
            d["msg"] = self.msg
        if self.key:
            d["key"] = self.key
        return d


class Rule:
    def __init__(self, rid, title, floor=0):
        self.id = rid
        self.title = title
        self.floor = floor
        self.instances = []

    def ok(self, where, construct, term, msg=""):
        self.instances.append(Instance(self.id, where, construct, term, "ok", msg))

    def note(self, where, construct, term, msg=""):
        self.instances.append(Instance(self.id, where, construct, term, "note", msg))

    def undecided(self, where, construct, term, msg=""):
        self.instances.append(Instance(self.id, where, construct, term, "undecided", msg))

    def violation(self, where, construct, term, msg, key):
        key = re.sub(r"\s+", "_", key)
        self.instances.append(Instance(self.id, where, construct, term, "violation", msg,
                                       self.id + "/" + key))

    def counts(self):
        c = {"ok": 0, "violation": 0, "undecided": 0, "note": 0}
        for i in self.instances:
            c[i.status] += 1
        return c


def load_known():
    known, fixed = {}, []
    if not os.path.exists(KNOWN_FILE):
        return known, fixed
    with open(KNOWN_FILE) as fh:
        for ln in fh:
            ln = ln.strip()
            if not ln or ln.startswith("#"):
                continue
            if ln.startswith("known:"):
                m = re.match(r"known:\s+property=(\S+)\s+key=(\S+)\s+::\s*(.*)$", ln)
                if m:
                    known[(m.group(1), m.group(2))] = m.group(3)
            elif ln.startswith("fixed:"):
                fixed.append(ln)
    return known, fixed


class Report:
    def __init__(self, prop, tier, seed, repo_root):
        self.prop = prop
        self.tier = tier
        self.seed = seed
        self.repo_root = repo_root
        self.rules = []
        self.assumptions = []
        self.trusted = []
        self.not_decided = []
        self.explanation = ""
        self.extra = {}
        self.t0 = time.time()

    def rule(self, rid, title, floor=0):
        r = Rule(rid, title, floor)
        self.rules.append(r)
        return r

    # ------------------------------------------------------------------
    def finish(self, repo, write_evidence=True, evidence_dir=None, quiet=False):
        """Print verdict lines, write evidence + replay records, return exit code."""
        from .loader import AnalysisError
        evidence_dir = evidence_dir or os.path.join(VERIF, "evidence")
        known, _fixed = load_known()
        out = []
        violations = []
        known_hit = []
        floor_errors = []
        for r in self.rules:
            n = sum(1 for i in r.instances if i.status in ("ok", "violation", "undecided"))
            if n < r.floor:
                floor_errors.append("%s: %d instances found, floor is %d (%s)" % (r.id, n, r.floor, r.title))
            for i in r.instances:
                if i.status == "violation":
                    if (self.prop, i.key) in known:
                        known_hit.append((i, known[(self.prop, i.key)]))
                    else:
                        violations.append(i)
        for i, what in known_hit:
            out.append("KNOWN-FINDING: property=%s %s [%s at %s]" % (self.prop, what, i.key, i.where))
        replay_dir = os.path.join(evidence_dir, "replay")
        for i in violations:
            h = hashlib.sha1(i.key.encode()).hexdigest()[:10]
            path = os.path.join(replay_dir, "%s-%s.json" % (self.prop, h))
            if write_evidence:
                os.makedirs(replay_dir, exist_ok=True)
                with open(path, "w") as fh:
                    json.dump({"property": self.prop, "rule": i.rule, "key": i.key, "where": i.where,
                               "construct": i.construct, "term": i.term, "message": i.msg,
                               "repo_root": self.repo_root}, fh, indent=1)
            out.append("VIOLATION property=%s replay=%s" % (self.prop, path))
            out.append("  rule=%s at %s in %s: %s" % (i.rule, i.where, i.construct, i.msg))
            out.append("  term: %s" % (i.term,))
        if floor_errors:
            for e in floor_errors:
                out.append("ANALYSIS-ERROR property=%s instance floor undercut: %s" % (self.prop, e))

        # ---------------- evidence
        allinst = [i for r in self.rules for i in r.instances]
        oblig = [i for i in allinst if i.status in ("ok", "violation", "undecided")]
        discharged = [i for i in oblig if i.status == "ok"]
        distinct = len({(i.rule, i.construct, i.term) for i in oblig})
        per_rule = []
        for r in self.rules:
            c = r.counts()
            per_rule.append({"rule": r.id, "title": r.title, "floor": r.floor, **c})
        samples = []
        for r in self.rules:
            for i in r.instances[:3]:
                samples.append(i.as_dict())
        for i in allinst:
            if i.status in ("violation", "undecided") and i.as_dict() not in samples:
                samples.append(i.as_dict())
        cov = {
            "explanation": self.explanation or ("static rules %s evaluated over the ast of %s" % (
                ", ".join(r.id for r in self.rules), self.repo_root)),
            "rule": "one case = one rule instance (rule, construct, normalised term); non-trivial = the rule had "
                    "something to decide at that construct (status ok/violation/undecided; notes excluded); "
                    "distinct = distinct (rule, construct, term) triples",
            "obligations": len(oblig),
            "discharged": len(discharged),
            "evaluations": len(allinst),
            "distinct_nontrivial": distinct,
            "undecided": sum(1 for i in oblig if i.status == "undecided"),
            "known_findings_matched": [i.key for i, _ in known_hit],
            "per_rule": per_rule,
            "samples": samples[:60],
            "trusted_base": self.trusted,
            "not_decided": self.not_decided,
            "checker_cmd": "/venv/bin/python check.py %s --tier %s" % (self.prop, self.tier),
            "files": repo.digests() if repo is not None else {},
            "exhaustive": True,
        }
        cov.update(self.extra)
        ev = {
            "property_id": self.prop, "tier": self.tier, "seed": self.seed, "level": "other",
            "coverage": cov, "assumptions": self.assumptions,
            "wall_s": round(time.time() - self.t0, 3),
            "violations": len(violations),
        }
        if write_evidence:
            os.makedirs(evidence_dir, exist_ok=True)
            with open(os.path.join(evidence_dir, self.prop + ".json"), "w") as fh:
                json.dump(ev, fh, indent=1, sort_keys=True)
        if not quiet:
            for ln in out:
                print(ln)
            tot = {"ok": 0, "violation": 0, "undecided": 0, "note": 0}
            for r in self.rules:
                c = r.counts()
                for k in tot:
                    tot[k] += c[k]
                print("  %-10s %-62s ok=%d viol=%d undecided=%d notes=%d (floor %d)" % (
                    r.id, r.title[:62], c["ok"], c["violation"], c["undecided"], c["note"], r.floor))
            print("%s tier=%s: %d rule instances, %d ok, %d known findings, %d new violations, %d undecided" % (
                self.prop, self.tier, len(oblig), len(discharged), len(known_hit), len(violations),
                tot["undecided"]))
        self.violations = violations
        self.known_hit = known_hit
        if violations:
            return 1
        if floor_errors:
            return 2
        return 0
