"""metamorph.py <transform> <tree>  : rewrite every pysnark/*.py under <tree> (a scratch export, NOT /repo) with one
behaviour-preserving, purely syntactic transformation, applied everywhere it is applicable.  Used to find rules that are
bound to the spelling of the source: all 20 checks must stay silent on the result (and the pinned tests must still pass).

transforms:  rename   locals of functions without nested scopes get a suffix
             iftemp   `if T:` -> `_ifN = T; if _ifN:`   (statement ifs that are not an elif arm)
             rettemp  `return E` -> `_retN = E; return _retN`
             ifexp    `x = A if T else B` -> if T: x = A / else: x = B
             guard    `if T: A(terminating) else: B` -> `if T: A` ; B
             unelse   `if not T: A else: B` -> `if T: B else: A`
"""
import ast, glob, os, sys


def scopes_free(fn):
    return not any(isinstance(n, (ast.FunctionDef, ast.AsyncFunctionDef, ast.Lambda, ast.ClassDef, ast.Global, ast.Nonlocal))
                   for n in ast.walk(fn) if n is not fn)


def t_rename(tree):
    for fn in [n for n in ast.walk(tree) if isinstance(n, ast.FunctionDef)]:
        if not scopes_free(fn):
            continue
        params = {a.arg for a in fn.args.args + fn.args.kwonlyargs} | ({fn.args.vararg.arg} if fn.args.vararg else set()) | (
            {fn.args.kwarg.arg} if fn.args.kwarg else set())
        stored = {n.id for n in ast.walk(fn) if isinstance(n, ast.Name) and not isinstance(n.ctx, ast.Load)} - params
        imported = {(a.asname or a.name).split(".")[0] for n in ast.walk(fn) if isinstance(n, (ast.Import, ast.ImportFrom)) for a in n.names}
        stored -= imported
        # names read before any store could be globals shadowed later: skip functions where a stored name is also a module global read
        ren = {s: s + "_v" for s in stored if not s.startswith("__")}
        for n in ast.walk(fn):
            if isinstance(n, ast.Name) and n.id in ren:
                n.id = ren[n.id]
            elif isinstance(n, ast.ExceptHandler) and n.name in ren:
                n.name = ren[n.name]
    return tree


class _Ctr:
    n = 0


def _blocks(tree):
    for n in ast.walk(tree):
        for fld in ("body", "orelse", "finalbody"):
            lst = getattr(n, fld, None)
            if isinstance(lst, list) and lst and isinstance(lst[0], ast.stmt) and not isinstance(n, ast.ClassDef):
                yield n, fld, lst
        for h in getattr(n, "handlers", []) or []:
            yield h, "body", h.body


def in_function(tree):
    inside = set()
    for fn in ast.walk(tree):
        if isinstance(fn, ast.FunctionDef):
            for n in ast.walk(fn):
                inside.add(id(n))
    return inside


def t_iftemp(tree):
    inside = in_function(tree)
    for holder, fld, lst in list(_blocks(tree)):
        if id(lst[0]) not in inside:
            continue
        is_elif_arm = isinstance(holder, ast.If) and fld == "orelse" and len(lst) == 1 and isinstance(lst[0], ast.If)
        out = []
        for s in lst:
            if isinstance(s, ast.If) and not is_elif_arm and not isinstance(s.test, (ast.Name, ast.Constant)):
                _Ctr.n += 1
                nm = "_if%d" % _Ctr.n
                out.append(ast.copy_location(ast.Assign(targets=[ast.Name(id=nm, ctx=ast.Store())], value=s.test), s))
                s.test = ast.copy_location(ast.Name(id=nm, ctx=ast.Load()), s.test)
            out.append(s)
        lst[:] = out
    return tree


def t_rettemp(tree):
    for holder, fld, lst in list(_blocks(tree)):
        out = []
        for s in lst:
            if isinstance(s, ast.Return) and s.value is not None and not isinstance(s.value, (ast.Name, ast.Constant)):
                _Ctr.n += 1
                nm = "_ret%d" % _Ctr.n
                out.append(ast.copy_location(ast.Assign(targets=[ast.Name(id=nm, ctx=ast.Store())], value=s.value), s))
                s.value = ast.copy_location(ast.Name(id=nm, ctx=ast.Load()), s.value)
            out.append(s)
        lst[:] = out
    return tree


def t_ifexp(tree):
    inside = in_function(tree)
    for holder, fld, lst in list(_blocks(tree)):
        out = []
        for s in lst:
            if id(s) in inside and isinstance(s, ast.Assign) and len(s.targets) == 1 and isinstance(s.targets[0], ast.Name) and isinstance(s.value, ast.IfExp):
                a = ast.Assign(targets=[ast.Name(id=s.targets[0].id, ctx=ast.Store())], value=s.value.body)
                b = ast.Assign(targets=[ast.Name(id=s.targets[0].id, ctx=ast.Store())], value=s.value.orelse)
                out.append(ast.copy_location(ast.If(test=s.value.test, body=[ast.copy_location(a, s)], orelse=[ast.copy_location(b, s)]), s))
            else:
                out.append(s)
        lst[:] = out
    return tree


def _terminates(stmts):
    if not stmts:
        return False
    s = stmts[-1]
    if isinstance(s, (ast.Return, ast.Raise)):
        return True
    if isinstance(s, ast.If):
        return _terminates(s.body) and _terminates(s.orelse)
    return False


def t_guard(tree):
    for holder, fld, lst in list(_blocks(tree)):
        if not lst:
            continue
        s = lst[-1]
        # only the last statement of a FUNCTION body (falling off the end == falling into what follows)
        if isinstance(holder, ast.FunctionDef) and fld == "body" and isinstance(s, ast.If) and s.orelse and _terminates(s.body) \
                and not (len(s.orelse) == 1 and isinstance(s.orelse[0], ast.If) and False):
            tail = s.orelse
            s.orelse = []
            lst.extend(tail)
    return tree


def t_unelse(tree):
    for n in ast.walk(tree):
        if isinstance(n, ast.If) and n.orelse and isinstance(n.test, ast.UnaryOp) and isinstance(n.test.op, ast.Not) \
                and not (len(n.orelse) == 1 and isinstance(n.orelse[0], ast.If)):
            n.test = n.test.operand
            n.body, n.orelse = n.orelse, n.body
    return tree


def _pure(e):
    if isinstance(e, (ast.Name, ast.Constant)):
        return True
    if isinstance(e, ast.Attribute):
        return _pure(e.value)
    return False


def t_argtemp(tree):
    """f(g(x), y) as a statement / assignment value / return value  ->  _argN = g(x); f(_argN, y)   (callee expression pure,
    every argument before the hoisted one pure)"""
    inside = in_function(tree)
    for holder, fld, lst in list(_blocks(tree)):
        out = []
        for s in lst:
            call = s.value if isinstance(s, (ast.Expr, ast.Assign, ast.Return)) and isinstance(getattr(s, "value", None), ast.Call) else None
            if call is not None and id(s) in inside and _pure(call.func) and not call.keywords:
                for i, a in enumerate(call.args):
                    if isinstance(a, ast.Call) and all(_pure(b) for b in call.args[:i]) and not isinstance(a, ast.Starred):
                        _Ctr.n += 1
                        nm = "_arg%d" % _Ctr.n
                        out.append(ast.copy_location(ast.Assign(targets=[ast.Name(id=nm, ctx=ast.Store())], value=a), s))
                        call.args[i] = ast.copy_location(ast.Name(id=nm, ctx=ast.Load()), a)
                        break
            out.append(s)
        lst[:] = out
    return tree


def t_compr2loop(tree):
    """x = [E for t in it]  ->  x = []; for t in it: x.append(E)      (x not read inside E / it, single generator, no filter)"""
    inside = in_function(tree)
    for holder, fld, lst in list(_blocks(tree)):
        out = []
        for s in lst:
            if id(s) in inside and isinstance(s, ast.Assign) and len(s.targets) == 1 and isinstance(s.targets[0], ast.Name) \
                    and isinstance(s.value, ast.ListComp) and len(s.value.generators) == 1 and not s.value.generators[0].ifs \
                    and not any(isinstance(x, ast.Name) and x.id == s.targets[0].id for x in ast.walk(s.value)):
                # the comprehension variable is local to the comprehension: give the loop variable a fresh name
                g = s.value.generators[0]
                tnames = {x.id for x in ast.walk(g.target) if isinstance(x, ast.Name)}
                _Ctr.n += 1
                ren = {t: "%s_c%d" % (t, _Ctr.n) for t in tnames}

                class R(ast.NodeTransformer):
                    def visit_Name(self, n):
                        if n.id in ren:
                            n.id = ren[n.id]
                        return n
                if any(isinstance(x, (ast.Lambda, ast.ListComp, ast.GeneratorExp)) for x in ast.walk(s.value.elt)):
                    out.append(s)
                    continue
                elt, tgt = R().visit(s.value.elt), R().visit(g.target)
                x = s.targets[0].id
                out.append(ast.copy_location(ast.Assign(targets=[ast.Name(id=x, ctx=ast.Store())], value=ast.List(elts=[], ctx=ast.Load())), s))
                app = ast.Expr(value=ast.Call(func=ast.Attribute(value=ast.Name(id=x, ctx=ast.Load()), attr="append", ctx=ast.Load()), args=[elt], keywords=[]))
                out.append(ast.copy_location(ast.For(target=tgt, iter=g.iter, body=[ast.copy_location(app, s)], orelse=[]), s))
            else:
                out.append(s)
        lst[:] = out
    return tree


def t_swapif(tree):
    for n in ast.walk(tree):
        if isinstance(n, ast.If) and n.body and n.orelse and not (len(n.orelse) == 1 and isinstance(n.orelse[0], ast.If)) \
                and not (isinstance(n.test, ast.UnaryOp) and isinstance(n.test.op, ast.Not)):
            n.test = ast.copy_location(ast.UnaryOp(op=ast.Not(), operand=n.test), n.test)
            n.body, n.orelse = n.orelse, n.body
    return tree


def t_cmpflip(tree):
    FL = {ast.Eq: ast.Eq, ast.NotEq: ast.NotEq, ast.Lt: ast.Gt, ast.Gt: ast.Lt, ast.LtE: ast.GtE, ast.GtE: ast.LtE}
    for n in ast.walk(tree):
        if isinstance(n, ast.Compare) and len(n.ops) == 1 and type(n.ops[0]) in FL and isinstance(n.comparators[0], ast.Constant) \
                and isinstance(n.comparators[0].value, int) and not isinstance(n.left, ast.Constant):
            t = ast.unparse(n.left)
            if t.endswith(".value") or t.startswith("len(") or t.endswith(".bit_length()"):
                n.left, n.comparators[0] = n.comparators[0], n.left
                n.ops[0] = FL[type(n.ops[0])]()
    return tree


def t_andsplit(tree):
    """if a and b: X   (no else)  ->  if a: if b: X"""
    for n in ast.walk(tree):
        if isinstance(n, ast.If) and not n.orelse and isinstance(n.test, ast.BoolOp) and isinstance(n.test.op, ast.And) and len(n.test.values) == 2:
            a, b = n.test.values
            n.test = a
            n.body = [ast.copy_location(ast.If(test=b, body=n.body, orelse=[]), n)]
    return tree


def t_andmerge(tree):
    """if a: if b: X   (no else on either, nothing else in the outer body)  ->  if a and b: X"""
    for n in ast.walk(tree):
        if isinstance(n, ast.If) and not n.orelse and len(n.body) == 1 and isinstance(n.body[0], ast.If) and not n.body[0].orelse:
            inner = n.body[0]
            n.test = ast.copy_location(ast.BoolOp(op=ast.And(), values=[n.test, inner.test]), n.test)
            n.body = inner.body
    return tree


def t_isnot(tree):
    """x is not None  ->  not x is None"""
    class V(ast.NodeTransformer):
        def visit_Compare(self, n):
            self.generic_visit(n)
            if len(n.ops) == 1 and isinstance(n.ops[0], ast.IsNot):
                return ast.copy_location(ast.UnaryOp(op=ast.Not(), operand=ast.Compare(left=n.left, ops=[ast.Is()], comparators=n.comparators)), n)
            return n
    return V().visit(tree)


def t_elsewrap(tree):
    """if c: <terminating>; REST   ->   if c: <terminating> else: REST      (inverse of `guard`)"""
    for holder, fld, lst in list(_blocks(tree)):
        for i, s in enumerate(lst):
            if isinstance(s, ast.If) and not s.orelse and _terminates(s.body) and i + 1 < len(lst) and isinstance(holder, ast.FunctionDef) and fld == "body":
                s.orelse = lst[i + 1:]
                del lst[i + 1:]
                break
    return tree


def t_tupassign(tree):
    """a = e1 ; b = e2   (plain names, e2 does not read a, neither value is a call)  ->  a, b = e1, e2"""
    inside = in_function(tree)
    for holder, fld, lst in list(_blocks(tree)):
        i = 0
        while i + 1 < len(lst):
            a, b = lst[i], lst[i + 1]
            if id(a) in inside and all(isinstance(s, ast.Assign) and len(s.targets) == 1 and isinstance(s.targets[0], ast.Name) for s in (a, b)) \
                    and a.targets[0].id != b.targets[0].id and not any(isinstance(x, ast.Name) and x.id == a.targets[0].id for x in ast.walk(b.value)) \
                    and not any(isinstance(x, (ast.Call, ast.Lambda, ast.ListComp, ast.GeneratorExp)) for s in (a, b) for x in ast.walk(s.value)):
                t = ast.Tuple(elts=[a.targets[0], b.targets[0]], ctx=ast.Store())
                v = ast.Tuple(elts=[a.value, b.value], ctx=ast.Load())
                lst[i:i + 2] = [ast.copy_location(ast.Assign(targets=[t], value=v), a)]
            i += 1
    return tree


T = {"andsplit": t_andsplit, "andmerge": t_andmerge, "isnot": t_isnot, "elsewrap": t_elsewrap, "tupassign": t_tupassign, "argtemp": t_argtemp, "compr2loop": t_compr2loop, "swapif": t_swapif, "cmpflip": t_cmpflip, "rename": t_rename, "iftemp": t_iftemp, "rettemp": t_rettemp, "ifexp": t_ifexp, "guard": t_guard, "unelse": t_unelse}

if __name__ == "__main__":
    name, root = sys.argv[1], sys.argv[2]
    assert not os.path.abspath(root).startswith("/repo"), "never rewrite /repo"
    n = 0
    for p in sorted(glob.glob(os.path.join(root, "pysnark", "**", "*.py"), recursive=True)):
        if "/zkinterface/" in p and not p.endswith("backend.py"):
            continue
        src = open(p, newline="").read()
        tree = ast.parse(src)
        tree = T[name](tree)
        ast.fix_missing_locations(tree)
        new = ast.unparse(tree) + "\n"
        if new != src:
            open(p, "w").write(new)
            n += 1
    print("rewrote", n, "files with", name)
