"""Lemma-based canonical form of the sign test.

The library decides  [x >= 0]  for  |x| < 2^W  with a sign witness, W magnitude bits and one product constraint

    (A)   if is_guard() and x.value.bit_length() <= W:  ret = PrivValBool(1 if x.value >= 0 else 0); bits of x or -x-1
          elif ignore_errors(): zeros          else: raise
          add_constraint(2*ret, x, x + from_bits(bits) + (1 - ret));  return ret

and the sign-test clauses of C01/C02/C03/C05/C16 are written against it.  The *offset-binary* design states the same thing
with W+1 bits and one linear constraint; a function that matches ALL hypotheses of one of its two spellings is rewritten into
(A), anything else is left alone (and then judged as written).

    (F1)  own bits:       OFF = 1 << W                                   (or written out in place)
                          if is_guard() and x.value.bit_length() <= W:  SH = x.value + OFF
                          elif ignore_errors():                          SH = 0
                          else:                                          raise ...
                          SB = [PrivValBool((SH >> i) & 1) for i in range(W + 1)]
                          add_constraint(ZERO, ZERO, x + OFF - from_bits(SB))      (guarded emission; or .assert_zero())
                          return SB[W]
    (F2)  delegated:      if not ignore_errors() and not (-(1 << W) <= x.value < (1 << W)): raise ...
                          return (x + (1 << W)).to_bits(W + 1)[W]

    Lemma.  W+1 Boolean wires recompose to a number in [0, 2^(W+1)); x + 2^W equal to it means x in [-2^W, 2^W), and the top
    bit of x + 2^W is 1 exactly for x >= 0.  Outside the window no assignment exists.  The hints (bits of x.value + 2^W under
    the refusal of everything else) satisfy the constraint for every x in the window; |x| < 2^W (bit_length <= W) lies inside it.
    In (F2) the decomposition, its booleanity and its recomposition are to_bits's own obligations (checked where to_bits is).
"""
import ast

from .loader import clone, norm


def _strip(n):
    return norm(n).replace(" ", "").replace("(", "").replace(")", "")


def _prefix_len(body):
    """statements that come before the gadget: docstring, imports, `if W is None: W = default`"""
    k = 0
    for s in body:
        if isinstance(s, ast.Expr) and isinstance(s.value, ast.Constant) and isinstance(s.value.value, str):
            k += 1
        elif isinstance(s, (ast.Import, ast.ImportFrom)):
            k += 1
        elif isinstance(s, ast.If) and not s.orelse and len(s.body) == 1 and isinstance(s.body[0], ast.Assign) \
                and norm(s.test).endswith(" is None") and norm(s.body[0].targets[0]) == norm(s.test)[:-len(" is None")]:
            k += 1
        else:
            break
    return k


def _canonical(x, w, raise_stmt):
    src = (
        "if is_guard() and {x}.value.bit_length() <= {w}:\n"
        "    ret = PrivValBool(1 if {x}.value >= 0 else 0)\n"
        "    abs = {x}.value if {x}.value >= 0 else -{x}.value - 1\n"
        "    {w} = [PrivValBool((abs & (1 << ix)) >> ix) for ix in range({w})]\n"
        "elif ignore_errors():\n"
        "    ret = PrivValBool(0)\n"
        "    {w} = [PrivValBool(0) for _ in range({w})]\n"
        "else:\n"
        "    pass\n"
        "add_constraint(2 * ret, {x}, {x} + LinComb.from_bits({w}) + (1-ret))\n"
        "return ret\n").format(x=x, w=w)
    stmts = ast.parse(src).body
    stmts[0].orelse[0].orelse = [clone(raise_stmt)]
    return stmts


def _f1(stmts):
    """(x, W, raise statement) when the statements are spelling (F1)"""
    off = None
    if stmts and isinstance(stmts[0], ast.Assign) and len(stmts[0].targets) == 1 and isinstance(stmts[0].targets[0], ast.Name) \
            and isinstance(stmts[0].value, ast.BinOp) and isinstance(stmts[0].value.op, ast.LShift) and norm(stmts[0].value.left) == "1" \
            and isinstance(stmts[0].value.right, ast.Name):
        off = stmts[0].targets[0].id
        w = stmts[0].value.right.id
        stmts = stmts[1:]
    if len(stmts) != 4:
        return None
    br, alloc, emit, ret = stmts
    if not (isinstance(br, ast.If) and len(br.body) == 1 and isinstance(br.body[0], ast.Assign) and len(br.orelse) == 1
            and isinstance(br.orelse[0], ast.If) and len(br.orelse[0].body) == 1 and isinstance(br.orelse[0].body[0], ast.Assign)
            and len(br.orelse[0].orelse) == 1 and isinstance(br.orelse[0].orelse[0], ast.Raise)):
        return None
    t = norm(br.test).replace(" ", "")
    if not t.startswith("is_guard()and") or not t.endswith(".value.bit_length()<=" + (w if off else t.rsplit("<=", 1)[-1])):
        return None
    x = t[len("is_guard()and"):].split(".value.bit_length()")[0]
    if off is None:
        w = t.rsplit("<=", 1)[-1]
    if not (x.isidentifier() and w.isidentifier()):
        return None
    offs = (off,) if off else ("1<<%s" % w, "(1<<%s)" % w)
    sh = norm(br.body[0].targets[0])
    if _strip(br.body[0].value) not in tuple("%s.value+%s" % (x, o.replace("(", "").replace(")", "")) for o in offs) + tuple(
            "%s+%s.value" % (o.replace("(", "").replace(")", ""), x) for o in offs):
        return None
    if norm(br.orelse[0].test) != "ignore_errors()" or norm(br.orelse[0].body[0].targets[0]) != sh or norm(br.orelse[0].body[0].value) != "0":
        return None
    if not (isinstance(alloc, ast.Assign) and isinstance(alloc.value, ast.ListComp) and len(alloc.value.generators) == 1
            and not alloc.value.generators[0].ifs and isinstance(alloc.value.generators[0].target, ast.Name)):
        return None
    g = alloc.value.generators[0]
    i = g.target.id
    sb = norm(alloc.targets[0])
    if norm(g.iter).replace(" ", "") not in ("range(%s+1)" % w, "range(1+%s)" % w):
        return None
    e = alloc.value.elt
    if not (isinstance(e, ast.Call) and norm(e.func).split(".")[-1] == "PrivValBool" and len(e.args) == 1):
        return None
    if _strip(e.args[0]) not in ("%s>>%s&1" % (sh, i), "%s&1<<%s>>%s" % (sh, i, i)):
        return None
    fb = ("LinComb.from_bits(%s)" % sb, "from_bits(%s)" % sb)
    ok = False
    if isinstance(emit, ast.Expr) and isinstance(emit.value, ast.Call):
        c = emit.value
        f = norm(c.func).split(".")[-1]
        texts = []
        if f == "add_constraint" and len(c.args) == 3 and norm(c.args[0]) in ("LinComb.ZERO", "ConstVal(0)") and norm(c.args[1]) in (
                "LinComb.ZERO", "ConstVal(0)"):
            texts = [norm(c.args[2]).replace(" ", "")]
        elif f == "assert_zero" and isinstance(c.func, ast.Attribute) and not c.args:
            texts = [norm(c.func.value).replace(" ", "")]
        for tx in texts:
            for o in offs:
                for f_ in fb:
                    if tx in ("%s+%s-%s" % (x, o, f_), "(%s+%s-%s)" % (x, o, f_), "%s-%s-%s" % (f_, x, o), "%s-(%s+%s)" % (f_, x, o),
                              "%s+(%s)-%s" % (x, o, f_)):
                        ok = True
    if not ok:
        return None
    if not (isinstance(ret, ast.Return) and ret.value is not None and norm(ret.value).replace(" ", "") == "%s[%s]" % (sb, w)):
        return None
    return x, w, br.orelse[0].orelse[0]


def _f2(stmts):
    if len(stmts) != 2:
        return None
    chk, ret = stmts
    if not (isinstance(chk, ast.If) and not chk.orelse and len(chk.body) == 1 and isinstance(chk.body[0], ast.Raise)):
        return None
    if not (isinstance(ret, ast.Return) and ret.value is not None):
        return None
    r = norm(ret.value).replace(" ", "")
    # (x + (1 << W)).to_bits(W + 1)[W]
    import re
    m = re.fullmatch(r"\((\w+)\+\(?1<<(\w+)\)?\)\.to_bits\((\w+)\+1\)\[(\w+)\]", r)
    if not m or len({m.group(2), m.group(3), m.group(4)}) != 1:
        return None
    x, w = m.group(1), m.group(2)
    t = _strip(chk.test)
    want = ("notignore_errorsandnot-1<<%s<=%s.value<1<<%s" % (w, x, w),)
    if t not in want:
        return None
    return x, w, chk.body[0]


def canon_sign_test(fnode):
    """rewrite a function body matching (F1) / (F2) into the library form (A); returns the spelling applied or None"""
    if not isinstance(fnode, ast.FunctionDef):
        return None
    k = _prefix_len(fnode.body)
    stmts = fnode.body[k:]
    for name, rec in (("F1", _f1), ("F2", _f2)):
        hit = rec(stmts)
        if hit:
            x, w, rs = hit
            new = _canonical(x, w, rs)
            base = stmts[0].lineno
            last = getattr(stmts[-1], "end_lineno", None) or stmts[-1].lineno
            for j, s in enumerate(new):
                for n in ast.walk(s):
                    if hasattr(n, "lineno"):
                        # reports point into the original gadget: spread the replacement over its lines
                        n.lineno = n.end_lineno = min(base + (n.lineno - 1), last)
            fnode.body[k:] = new
            return name
    return None
