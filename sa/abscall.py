"""Calls, builtins and operator dispatch for the abstract interpreter."""
import ast

from .efftree import END, RAISE, ev, alt, loop, concat, has_events, always_raises
from .kinds import (shape_tainted, V, Closure, NOCONST, INTLIKE, UNK, CLASS_KIND, KIND_CLASS, BUILTIN_TYPE_KIND,
                    join, unknown, const, listof)
from .loader import norm

BINOP = {ast.Add: "add", ast.Sub: "sub", ast.Mult: "mul", ast.Div: "truediv", ast.FloorDiv: "floordiv",
         ast.Mod: "mod", ast.Pow: "pow", ast.LShift: "lshift", ast.RShift: "rshift", ast.BitAnd: "and",
         ast.BitOr: "or", ast.BitXor: "xor", ast.MatMult: "matmul"}
CMPOP = {ast.Eq: ("eq", "eq"), ast.NotEq: ("ne", "ne"), ast.Lt: ("lt", "gt"), ast.LtE: ("le", "ge"),
         ast.Gt: ("gt", "lt"), ast.GtE: ("ge", "le")}
UNOP = {ast.USub: "neg", ast.UAdd: "pos", ast.Invert: "invert"}
PLAIN = INTLIKE | frozenset(["str", "none", "list", "tuple", "dict", "set", "func", "cls", "mod", "ext", "never",
                             "NotImpl"])
CLASSKINDS = frozenset(["LC", "LCB", "LCF", "Array"])
PURE_BACKEND = {"one", "zero", "fieldinverse", "get_modulus"}


def _fold_bin(op, a, b):
    try:
        if op == "add":
            return a + b
        if op == "sub":
            return a - b
        if op == "mul":
            return a * b
        if op == "floordiv":
            return a // b
        if op == "mod":
            return a % b
        if op == "pow" and abs(b) < 4096:
            return a ** b
        if op == "lshift" and 0 <= b < 4096:
            return a << b
        if op == "rshift" and b >= 0:
            return a >> b
        if op == "and":
            return a & b
        if op == "or":
            return a | b
        if op == "xor":
            return a ^ b
        if op == "truediv":
            return a / b
    except Exception:
        pass
    return NOCONST


class CallMixin:

    # ------------------------------------------------------------------ operators
    def ex_BinOp(self, n, fr):
        tl, lv = self.eval(n.left, fr)
        tr, rv = self.eval(n.right, fr)
        op = BINOP.get(type(n.op), "?")
        t, v = self.binary(op, lv, rv, fr, n, norm(n.left), norm(n.right))
        return concat(concat(tl, tr), t), v

    def ex_UnaryOp(self, n, fr):
        t, v = self.eval(n.operand, fr)
        if isinstance(n.op, ast.Not):
            c = NOCONST
            if v.const is not NOCONST:
                c = not v.const
            elif v.kind <= frozenset(["func", "mod", "cls"]):
                c = False
            return t, V("bool", v.taint, c)
        op = UNOP[type(n.op)]
        if op == "invert" and (v.kind & INTLIKE) and fr.fi is not None:
            # Python's ~ on a plain int/bool is -x-1 (never a truth value): recorded for C05
            key = (fr.fi.fq, getattr(n, "lineno", 0), getattr(n, "col_offset", 0))
            self.int_inverts.setdefault(key, {"fi": fr.fi, "node": n, "kinds": set()})["kinds"].update(v.kind)
        if v.kind <= INTLIKE:
            c = NOCONST
            if v.const is not NOCONST:
                try:
                    c = {"neg": lambda x: -x, "pos": lambda x: +x, "invert": lambda x: ~x}[op](v.const)
                except Exception:
                    c = NOCONST
            return t, V(v.kind - frozenset(["bool"]) | (frozenset(["int"]) if "bool" in v.kind else frozenset()),
                        v.taint, c)
        t2, r = self.dispatch_method(v, "__%s__" % op, [], fr, n)
        return concat(t, t2), r

    def ex_Compare(self, n, fr):
        tree, lv = self.eval(n.left, fr)
        result = None
        left_txt = norm(n.left)
        for op, comp in zip(n.ops, n.comparators):
            t, rv = self.eval(comp, fr)
            tree = concat(tree, t)
            if isinstance(op, (ast.Is, ast.IsNot)):
                c = NOCONST
                if lv.kind.isdisjoint(rv.kind) and "?" not in lv.kind and "?" not in rv.kind:
                    c = isinstance(op, ast.IsNot)
                elif (lv.only("none") and rv.only("none")) or (lv.only("NotImpl") and rv.only("NotImpl")):
                    c = isinstance(op, ast.Is)
                r = V("bool", False, c)
            elif isinstance(op, (ast.In, ast.NotIn)):
                r = V("bool", lv.taint or (rv.taint and rv.kind <= INTLIKE))
            else:
                name, refl = CMPOP[type(op)]
                t2, r = self.binary(name, lv, rv, fr, n, left_txt, norm(comp), reflected_name=refl, compare=True)
                tree = concat(tree, t2)
            result = r if result is None else join(result, r)
            lv = rv
            left_txt = norm(comp)
        return tree, result

    def class_for_kind(self, k):
        if k in KIND_CLASS:
            mod, cn = KIND_CLASS[k]
            m = self.repo.modules.get(mod)
            return m.classes.get(cn) if m else None
        return None

    def binary(self, op, lv, rv, fr, node, ltxt="", rtxt="", reflected_name=None, compare=False):
        """Dispatch  lv <op> rv  the way Python does, per pair of atomic kinds."""
        results = []
        lk = sorted(lv.kind)
        rk = sorted(rv.kind)
        for l in lk:
            for r in rk:
                results.append((l, r, self.binary1(op, l, r, lv, rv, fr, node, reflected_name, compare)))
        if len(results) == 1:
            return results[0][2]
        tree = None
        val = None
        for l, r, (t, v) in results:
            val = join(val, v)
            if tree is None:
                tree = t
            else:
                tag = (fr.fq, node.lineno, node.col_offset, "kind(%s,%s)=(%s,%s)" % (ltxt, rtxt, l, r))
                tree = alt(tag, False, t, tree)
        return tree, val

    def binary1(self, op, l, r, lv, rv, fr, node, reflected_name, compare):
        self._cur = (fr, node)
        L = V(l, lv.taint, lv.const if len(lv.kind) == 1 else NOCONST, lv.fn, lv.elem)
        R = V(r, rv.taint, rv.const if len(rv.kind) == 1 else NOCONST, rv.fn, rv.elem)
        taint = lv.taint or rv.taint
        # ---- backend linear combinations: pure algebra, but coefficients must be public
        if l == "BLC" or r == "BLC":
            other = R if l == "BLC" else L
            if other.taint and other.kind <= INTLIKE | UNK:
                self.record_lc_taint(fr, node, "tainted number scales/combines a backend linear combination")
            return END, V("BLC")
        if l in PLAIN and r in PLAIN:
            return END, self.plain_binary(op, L, R, compare)
        if l == "?" and r in PLAIN and r not in INTLIKE:
            return END, unknown(taint)
        if l in PLAIN and l not in INTLIKE and r == "?":
            return END, unknown(taint)
        if (l == "?" and r in CLASSKINDS) or (r == "?" and l in CLASSKINDS):
            # one operand of unknown kind next to a wire: enumerate the kinds it can have
            tree = None
            val = None
            for k in ("int", "LC", "LCB", "LCF"):
                lv2 = V(k, lv.taint) if l == "?" else lv
                rv2 = V(k, rv.taint) if r == "?" else rv
                t, v = self.binary1(op, k if l == "?" else l, k if r == "?" else r, lv2, rv2, fr, node, reflected_name, compare)
                if always_raises(t) or v.kind == frozenset(["never"]):
                    continue
                val = join(val, v)
                if tree is None:
                    tree = t
                else:
                    tag = (fr.fq, node.lineno, node.col_offset, "kind?=%s" % k)
                    tree = alt(tag, False, t, tree)
            if val is None:
                return RAISE, V("never")
            return tree, val
        if l == "?" or (l in PLAIN and r == "?"):
            # unknown receiver: may be any of the value classes
            return ev(("op?", op)), unknown(False) if not compare else V(frozenset(["bool", "LCB"]), taint)
        # ---- left operand is a class kind
        tree = END
        if l in CLASSKINDS:
            ci = self.class_for_kind(l)
            mi = self.repo.lookup_method(ci, "__%s__" % op) if ci else None
            if mi is not None:
                t, v = self.analyze(mi, [R], {}, None, L)
                if "NotImpl" not in v.kind:
                    return t, v
                if v.kind != frozenset(["NotImpl"]):
                    # partially NotImplemented (operand kind unknown): keep what we have
                    rest = V(v.kind - frozenset(["NotImpl"]), v.taint, NOCONST, None, v.elem)
                    if r == "?":
                        return t, rest
                tree = t
            elif compare and op in ("eq", "ne"):
                return END, V("bool")
        # ---- reflected on the right operand
        if r in CLASSKINDS:
            ci = self.class_for_kind(r)
            rname = "__%s__" % reflected_name if compare else "__r%s__" % op
            mi = self.repo.lookup_method(ci, rname) if ci else None
            if mi is not None:
                t, v = self.analyze(mi, [L], {}, None, R)
                if "NotImpl" in v.kind and v.kind != frozenset(["NotImpl"]):
                    v = V(v.kind - frozenset(["NotImpl"]), v.taint, NOCONST, None, v.elem)
                if v.kind == frozenset(["NotImpl"]):
                    return concat(tree, concat(t, RAISE)), V("never")
                return concat(tree, t), v
        if l in CLASSKINDS or r in CLASSKINDS:
            if r == "?":
                return concat(tree, ev(("op?", op))), unknown()
            return concat(tree, RAISE), V("never")   # TypeError: unsupported operand
        return END, unknown(taint)

    def plain_binary(self, op, L, R, compare):
        taint = L.taint or R.taint
        l, r = next(iter(L.kind)), next(iter(R.kind))
        c = NOCONST
        if L.const is not NOCONST and R.const is not NOCONST and not taint:
            if compare:
                try:
                    c = {"eq": lambda a, b: a == b, "ne": lambda a, b: a != b, "lt": lambda a, b: a < b,
                         "le": lambda a, b: a <= b, "gt": lambda a, b: a > b, "ge": lambda a, b: a >= b}[op](
                        L.const, R.const)
                except Exception:
                    c = NOCONST
            elif l in INTLIKE and r in INTLIKE:
                c = _fold_bin(op, L.const, R.const)
        if compare:
            return V("bool", taint, c)
        if op in ("floordiv", "mod", "truediv", "divmod") and R.taint and r in INTLIKE and self._cur is not None:
            fr, node = self._cur
            self.div_sites[(fr.fq, node.lineno, node.col_offset)] = {
                "fi": fr.fi, "module": fr.module, "node": node, "conds": list(fr.conds), "base": fr.base, "what": op}
        if l in INTLIKE and r in INTLIKE:
            if "float" in (l, r) or op == "truediv":
                return V("float", taint, c)
            return V("int", taint, c)
        if l in ("list", "tuple") and r in ("list", "tuple") and op == "add":
            return V(l, L.taint or R.taint, NOCONST, None, join(L.elem, R.elem))
        if l in ("list", "tuple") and r in INTLIKE and op == "mul":
            return V(l, L.taint or R.taint, NOCONST, None, L.elem)
        if r in ("list", "tuple") and l in INTLIKE and op == "mul":
            return V(r, L.taint or R.taint, NOCONST, None, R.elem)
        if l == "str" or r == "str":
            return V("str", taint)
        return unknown(taint)

    def record_lc_taint(self, fr, node, msg):
        key = (fr.fq, node.lineno, node.col_offset)
        self.lc_taint[key] = {"fi": fr.fi, "module": fr.module, "node": node, "msg": msg,
                              "base": fr.base, "fq": fr.fq, "ctx": fr.ctxkey}

    def dispatch_method(self, recv, name, args, fr, node, kwargs=None):
        """Call method `name` on a receiver of (possibly several) known class kinds."""
        tree = None
        val = None
        for k in sorted(recv.kind):
            ci = self.class_for_kind(k)
            mi = self.repo.lookup_method(ci, name) if ci else None
            if mi is None:
                if k == "BLC":
                    t, v = END, V("BLC")
                elif k in INTLIKE and name in ("__neg__", "__pos__", "__invert__", "__abs__"):
                    t, v = END, V("int", recv.taint)
                else:
                    t, v = ev(("op?", name)), unknown()
            else:
                t, v = self.analyze(mi, list(args), kwargs or {}, None, V(k, recv.taint, elem=recv.elem))
            val = join(val, v)
            if tree is None:
                tree = t
            else:
                tag = (fr.fq, node.lineno, node.col_offset, "kind=%s" % k)
                tree = alt(tag, False, t, tree)
        return tree if tree is not None else END, val if val is not None else unknown()

    # ------------------------------------------------------------------ calls
    def ex_Call(self, n, fr):
        tree, fv = self.eval(n.func, fr)
        args = []
        star = False
        for a in n.args:
            t, v = self.eval(a, fr)
            tree = concat(tree, t)
            if isinstance(a, ast.Starred):
                star = True
                v = v.elem if v.elem is not None else unknown(v.taint)
            args.append(v)
        kwargs = {}
        for kw in n.keywords:
            t, v = self.eval(kw.value, fr)
            tree = concat(tree, t)
            if kw.arg is None:
                star = True
            else:
                kwargs[kw.arg] = v
        self.call_records.setdefault(fr.fq, []).append((n, fv, args, kwargs, fr.base, list(fr.conds)))
        t, v = self.call_value(fv, args, kwargs, fr, n, star)
        return concat(tree, t), v

    def note_call(self, fr, target, node):
        self.calls.setdefault(fr.fq, set()).add(target)
        if fr.fi is not None or True:
            self.callsites.setdefault(target, []).append((fr.fi, fr.module, node))

    def call_value(self, fv, args, kwargs, fr, n, star=False):
        fn = fv.fn
        taint = any(a.taint for a in args) or any(a.taint for a in kwargs.values())
        if isinstance(fn, Closure):
            fi = fn.fi
            self.note_call(fr, fi.fq, n)
            a = list(args)
            if star:
                # unknown arity: pad remaining positional parameters with the (joined) star element
                need = len(fi.params) - (1 if fn.bound_self is not None else 0)
                while len(a) < need:
                    a.append(args[-1] if args else unknown())
            return self.analyze(fi, a, kwargs, fn.env, fn.bound_self)
        if fn is None:
            txt = norm(n.func)
            if fv.kind <= frozenset(["none", "never", "int", "str", "bool", "float"]):
                return RAISE, V("never")
            return ev(("dyn", txt)), unknown()
        tag = fn[0]
        if tag == "backend":
            name = fn[1]
            self.note_call(fr, "BACKEND." + name, n)
            if name == "privval":
                return ev("priv"), V("BLC")
            if name == "pubval":
                return ev("pub"), V("BLC")
            if name == "add_constraint":
                return ev("cons"), const(None)
            if name in ("one", "zero"):
                return END, V("BLC")
            if name == "fieldinverse":
                if taint:
                    self.div_sites[(fr.fq, n.lineno, n.col_offset)] = {
                        "fi": fr.fi, "module": fr.module, "node": n, "conds": list(fr.conds), "base": fr.base,
                        "what": "fieldinverse"}
                return END, V("int", taint)
            if name == "get_modulus":
                return END, V("int")
            return ev(("bk", name)), unknown()
        if tag == "class":
            ci = fn[1]
            self.note_call(fr, ci.fq, n)
            k = CLASS_KIND.get(ci.fq)
            selfv = V(k) if k else V("obj", fn=("instance", ci))
            init = self.repo.lookup_method(ci, "__init__")
            t = END
            if init is not None:
                t, _ = self.analyze(init, args, kwargs, None, selfv)
            if k == "Array" and args:
                selfv = V("Array", elem=args[0].elem)
            return t, selfv
        if tag == "multi":
            tree = None
            val = None
            for k, mi in fn[1]:
                self.note_call(fr, mi.fq, n)
                t, v = self.analyze(mi, args, kwargs, None, V(k, fn[2].taint, elem=fn[2].elem))
                val = join(val, v)
                tree = t if tree is None else alt((fr.fq, n.lineno, n.col_offset, "kind=%s" % k), False, t, tree)
            return tree, val
        if tag == "method?":
            return self.call_unknown_method(fn[1], fn[2], args, kwargs, fr, n)
        if tag == "builtin":
            return self.call_builtin(fn[1], fv, args, kwargs, fr, n)
        if tag == "external":
            self.note_call(fr, "EXT." + fn[1], n)
            if fn[1].endswith("deepcopy") and args:
                return END, args[0]
            return END, unknown(taint and False)
        if tag == "module":
            return RAISE, V("never")
        return ev(("dyn", norm(n.func))), unknown()

    def call_unknown_method(self, name, recv, args, kwargs, fr, n):
        """Receiver of unknown kind: resolve by method name over the package's value classes."""
        cands = []
        for k in ("LC", "LCB", "LCF", "Array"):
            ci = self.class_for_kind(k)
            mi = self.repo.lookup_method(ci, name) if ci else None
            if mi is not None:
                cands.append((k, mi))
        others = []
        for ci in self.repo.all_classes():
            if CLASS_KIND.get(ci.fq) in ("LC", "LCB", "LCF", "Array"):
                continue
            if ci.module.name.startswith("pysnark.zkinterface.") and ci.module.name != "pysnark.zkinterface.backend":
                continue
            mi = self.repo.lookup_method(ci, name)
            if mi is not None and name not in ("__init__",):
                others.append(mi)
        if not cands and not others:
            taint = recv.taint
            return END, unknown(False)
        tree = None
        val = None
        for k, mi in cands:
            self.note_call(fr, mi.fq, n)
            t, v = self.analyze(mi, args, kwargs, None, V(k))
            val = join(val, v)
            tree = t if tree is None else alt((fr.fq, n.lineno, n.col_offset, "kind=%s" % k), False, t, tree)
        for mi in others:
            self.note_call(fr, mi.fq, n)
            selfv = V("obj", fn=("instance", mi.cls)) if mi.cls is not None else unknown()
            t, v = self.analyze(mi, args, kwargs, None, selfv)
            val = join(val, v)
            tree = t if tree is None else alt((fr.fq, n.lineno, n.col_offset, "recv=%s" % mi.fq), False, t, tree)
        if val is not None and "?" not in recv.kind:
            return tree, val
        return tree, join(val, unknown()) if val is not None else unknown()

    # ------------------------------------------------------------------ builtins
    def call_builtin(self, name, fv, args, kwargs, fr, n):
        taint = any(a.taint for a in args)
        a0 = args[0] if args else None
        if name == "isinstance":
            c = NOCONST
            if len(n.args) == 2 and a0 is not None:
                ks = self.type_kinds(n.args[1], fr)
                if ks is not None and "?" not in a0.kind:
                    if a0.kind <= frozenset(ks):
                        c = True
                    elif a0.kind.isdisjoint(ks) and not (a0.kind & frozenset(["obj", "ext"])):
                        c = False
            return END, V("bool", False, c)
        if name in ("callable", "hasattr", "issubclass"):
            c = NOCONST
            if name == "callable" and a0 is not None and "?" not in a0.kind:
                if a0.kind <= frozenset(["func", "cls"]):
                    c = True
                elif a0.kind.isdisjoint(frozenset(["func", "cls", "obj"])):
                    c = False
            return END, V("bool", False, c)
        if name == "len":
            return END, V("int", bool(a0 is not None and a0.taint and a0.kind <= frozenset(["list", "tuple", "str", "dict", "set"])))
        if name in ("int", "float", "bool", "round", "ord"):
            if a0 is not None and a0.kind & frozenset(["LC", "LCB", "LCF"]):
                if name == "bool" and a0.kind <= frozenset(["LC", "LCB", "LCF"]):
                    return RAISE, V("never")
            k = {"round": "int", "ord": "int"}.get(name, name)
            c = NOCONST
            if a0 is not None and a0.const is not NOCONST and not taint:
                try:
                    c = {"int": int, "float": float, "bool": bool}.get(name, lambda x: NOCONST)(a0.const)
                except Exception:
                    c = NOCONST
            return END, V(k, taint, c)
        if name in ("str", "repr", "hex", "bin", "chr", "format", "input"):
            return END, V("str", taint)
        if name == "int.bit_length":
            return END, V("int", fv.taint)
        if name == "abs":
            if a0 is not None and a0.kind <= INTLIKE:
                return END, V(a0.kind, taint)
            if a0 is not None:
                return self.dispatch_method(a0, "__abs__", [], fr, n)
        if name in ("divmod", "pow") and len(args) >= 2:
            return self.binary(name, args[0], args[1], fr, n, "", "")
        if name in ("range", "xrange"):
            return END, V("list", taint, elem=V("int"))
        if name == "enumerate" and a0 is not None:
            e0 = a0.elem or unknown()
            # (index, element): the index is a plain int whatever the elements are
            return END, V("list", a0.taint, elem=V("tuple", elem=join(V("int"), e0), items=[V("int"), e0]))
        if name == "zip":
            el = None
            t = False
            its = []
            for a in args:
                el = join(el, a.elem if a.elem is not None else unknown())
                its.append(a.elem if a.elem is not None else unknown())
                t = t or a.taint
            return END, V("list", t, elem=V("tuple", elem=el, items=its))
        if name in ("reversed", "list", "tuple", "sorted", "iter", "set", "frozenset"):
            if a0 is None:
                return END, listof(V("never"), "list" if name not in ("tuple",) else "tuple")
            if a0.kind <= frozenset(["list", "tuple", "set", "dict", "str"]):
                return END, V("tuple" if name == "tuple" else "list", a0.taint, elem=a0.elem)
            if a0.only("Array"):
                return END, V("list", elem=a0.elem or unknown())
            return END, V("list", elem=a0.elem or unknown())
        if name == "dict":
            return END, V("dict")
        if name == "next":
            if a0 is not None and a0.elem is not None:
                return END, a0.elem
            return END, unknown()
        if name in ("map", "filter") and len(args) >= 2:
            f = args[0]
            seqs = args[1:]
            elems = [s.elem if s.elem is not None else unknown(s.taint) for s in seqs]
            t, v = self.call_value(f, elems, {}, fr, n)
            st = any(shape_tainted(s) for s in seqs)
            if st and has_events(t):
                self.record_tainted_loop(fr, n, n.args[1], t)
            it = norm(n.args[1]) if len(n.args) > 1 else "?"
            if name == "filter":
                return loop(it, t), V("list", st or v.taint, elem=elems[0])
            return loop(it, t), V("list", st, elem=v)
        if name == "sum" and a0 is not None:
            el = a0.elem if a0.elem is not None else unknown()
            if el.kind <= INTLIKE:
                return END, V(el.kind | frozenset(["int"]), el.taint or a0.taint)
            start = args[1] if len(args) > 1 else const(0)
            t1, acc = self.binary("add", start, el, fr, n, "0", "elem")
            t2, acc2 = self.binary("add", acc, el, fr, n, "acc", "elem")
            acc = join(acc, acc2)
            body = concat(t1, t2) if (has_events(t1) or has_events(t2)) else END
            if shape_tainted(a0) and has_events(body):
                self.record_tainted_loop(fr, n, n.args[0], body)
            return loop("sum " + norm(n.args[0]), body), acc
        if name in ("min", "max"):
            r = None
            for a in args:
                r = join(r, a.elem if (len(args) == 1 and a.elem is not None) else a)
            return END, (r or unknown()).with_taint(taint or any(a.taint for a in args))
        if name in ("any", "all"):
            return END, V("bool", bool(a0 is not None and (a0.taint or (a0.elem is not None and a0.elem.taint))))
        if name in ("print", "setattr", "id", "vars", "dir", "globals", "locals", "open", "bytes", "type",
                    "object", "property", "classmethod", "staticmethod", "exit", "quit"):
            return END, unknown()
        if name == "getattr" and len(n.args) >= 2 and isinstance(n.args[1], ast.Constant) and a0 is not None:
            v = self.getattr_value(a0, n.args[1].value, fr, n)
            if len(args) > 2:
                v = join(v, args[2])
            return END, v
        if name == "super":
            if fr.fi is not None and fr.fi.cls is not None:
                return END, V("obj", fn=("super", fr.fi.cls, fr.self_v))
            return END, unknown()
        if name == "get_ipython":
            return RAISE, V("never")
        if name.startswith("exc:"):
            return END, V("obj")
        if name in BUILTIN_TYPE_KIND:
            return END, V(BUILTIN_TYPE_KIND[name], taint)
        if name.startswith("container."):
            meth = name.split(".", 1)[1]
            if meth in ("append", "extend", "insert", "add", "update", "remove", "clear", "sort", "reverse"):
                # container mutation: join the element kind into the receiver variable
                f = n.func
                if isinstance(f, ast.Attribute) and isinstance(f.value, ast.Name) and a0 is not None \
                        and f.value.id in fr.env:
                    old = fr.env[f.value.id]
                    add = a0 if meth in ("append", "add", "insert") else (a0.elem or unknown())
                    if meth == "insert" and len(args) > 1:
                        add = args[1]
                    fr.env[f.value.id] = V(old.kind, old.taint, NOCONST, None, join(old.elem, add))
                return END, const(None)
            if meth in ("pop", "get", "__getitem__", "setdefault"):
                return END, fv.elem if fv.elem is not None else unknown()
            if meth in ("items",):
                return END, V("list", fv.taint, elem=V("tuple", elem=join(unknown(), fv.elem)))
            if meth in ("keys", "values", "copy"):
                return END, V("list", fv.taint, elem=fv.elem if meth != "keys" else unknown())
            if meth in ("join", "format", "strip", "split", "partition", "zfill", "hex", "lower", "upper",
                        "replace", "encode", "decode"):
                return END, V("str" if meth not in ("split", "partition") else "list", taint or fv.taint)
            if meth in ("index", "count", "find"):
                return END, V("int", taint or fv.taint)
            return END, unknown()
        return END, unknown()
