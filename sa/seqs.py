"""Symbolic sequences: what a loop variable stands for, however the iteration is written.

A sequence is a *map over a base collection*:  Seq(base, elt, rev)  = [elt(x) for x in base], possibly reversed.  For a
dict base the element is expressed in the key `__kN` (`base[__kN]` is its value), for any other base in the element `__eN`
(N = nesting depth of the loop, outermost 0).  All of these denote the same sequence over `d`:

    list(d.keys())  + index loop `for i in range(len(ks))` using ks[i]          -> elt  __k
    d.items()                                                                   -> elt (__k, d[__k])
    [(f(k), g(v)) for k, v in d.items()]  then  for a, _ in reversed(terms)     -> elt (f(__k), g(d[__k])), rev

`resolve_at(fnode, node, expr)` rewrites `expr`, as evaluated at `node`, in terms of those element symbols: the targets
of the enclosing `for` loops are replaced by the elements of the sequences they iterate, loop-local single assignments
are substituted in order, and `xs[i]` with `i` the index of a loop over `range(len(xs))` is the element of `xs`.
"""
import ast

from .loader import clone, norm, parents, exec_order


class Seq:
    def __init__(self, base, elt, rev=False, index_of=None, order=None):
        self.base = base          # text of the base collection
        self.elt = elt            # ast expression over the element symbol
        self.rev = rev
        self.index_of = index_of  # set for range(len(X)): the elements are the indices of X (a Seq)
        self.order = order        # None: the base's own order; "sorted:<elt text>": the elements sorted (one list, walked as a whole)

    def flipped(self):
        return Seq(self.base, self.elt, not self.rev, self.index_of, self.order)

    def same_walk(self, other):
        """both walk the same collection in the same order and direction"""
        return (self.base, self.rev, self.order) == (other.base, other.rev, other.order)


def _sym(kind, depth):
    return ast.Name(id="__%s%d" % (kind, depth), ctx=ast.Load())


class _Sub(ast.NodeTransformer):
    def __init__(self, env):
        self.env = env

    def visit_Name(self, n):
        if isinstance(n.ctx, ast.Load) and n.id in self.env:
            return clone(self.env[n.id])
        return n


def _bind(target, elt, env):
    if isinstance(target, ast.Name):
        env[target.id] = elt
    elif isinstance(target, (ast.Tuple, ast.List)):
        for i, t in enumerate(target.elts):
            if isinstance(elt, (ast.Tuple, ast.List)) and len(elt.elts) == len(target.elts):
                _bind(t, elt.elts[i], env)
            else:
                _bind(t, ast.Subscript(value=elt, slice=ast.Constant(value=i), ctx=ast.Load()), env)


def _scopes(node):
    """enclosing function nodes, innermost first"""
    return [p for p in parents(node) if isinstance(p, (ast.FunctionDef, ast.Lambda))]


def _single_def(name, scopes):
    for sc in scopes:
        if not isinstance(sc, ast.FunctionDef):
            continue
        if name in {a.arg for a in sc.args.args}:
            return None
        defs = []
        mutated = False
        for n in ast.walk(sc):
            if isinstance(n, ast.Name) and n.id == name and not isinstance(n.ctx, ast.Load):
                defs.append(n)
            if isinstance(n, ast.Call) and isinstance(n.func, ast.Attribute) and isinstance(n.func.value, ast.Name) \
                    and n.func.value.id == name and n.func.attr in ("append", "extend", "insert", "pop", "remove", "sort", "reverse", "clear"):
                mutated = True
        if defs:
            if len(defs) != 1 or mutated:
                return None
            p = getattr(defs[0], "_parent", None)
            if isinstance(p, ast.Assign) and len(p.targets) == 1 and p.targets[0] is defs[0]:
                return p.value
            return None
    return None


def seq_of(expr, at, depth, _rec=0):
    """Seq denoted by the iterable expression `expr` evaluated inside node `at`; element symbols get index `depth`."""
    if _rec > 8:
        return None
    scopes = [at] if isinstance(at, ast.FunctionDef) else []
    scopes += _scopes(at)
    if isinstance(expr, ast.Name):
        d = _single_def(expr.id, scopes)
        if d is not None:
            return seq_of(d, at, depth, _rec + 1)
        return Seq(expr.id, _sym("e", depth))
    if isinstance(expr, ast.Call) and isinstance(expr.func, ast.Name) and not expr.keywords:
        f = expr.func.id
        if f in ("list", "tuple", "iter") and len(expr.args) == 1:
            return seq_of(expr.args[0], at, depth, _rec + 1)
        if f == "reversed" and len(expr.args) == 1:
            s = seq_of(expr.args[0], at, depth, _rec + 1)
            return s.flipped() if s is not None else None
        if f == "sorted" and len(expr.args) == 1:
            # a permutation of the same elements; two walks agree only when they walk the same sorted list
            s = seq_of(expr.args[0], at, depth, _rec + 1)
            if s is not None and s.index_of is None and s.order is None and not s.rev:
                return Seq(s.base, s.elt, False, None, "sorted:%s" % norm(s.elt))
            return None
        n_ = expr.args[0] if (f == "range" and len(expr.args) == 1) else None
        if isinstance(n_, ast.Name):
            n_ = _single_def(n_.id, scopes) or n_          # size = len(xs); range(size)
        if n_ is not None and isinstance(n_, ast.Call) and norm(n_.func) == "len" and len(n_.args) == 1:
            inner = seq_of(n_.args[0], at, depth, _rec + 1)
            if inner is not None and not inner.rev:
                return Seq(inner.base, _sym("i", depth), False, index_of=inner)
            return None
        if f == "zip" and expr.args:
            ss = [seq_of(a, at, depth, _rec + 1) for a in expr.args]
            if all(s is not None and s.index_of is None for s in ss) and len({(s.base, s.rev) for s in ss}) == 1:
                return Seq(ss[0].base, ast.Tuple(elts=[s.elt for s in ss], ctx=ast.Load()), ss[0].rev)
            return None
        if f == "enumerate" and len(expr.args) == 1:
            s = seq_of(expr.args[0], at, depth, _rec + 1)
            if s is not None and not s.rev and s.index_of is None:
                return Seq(s.base, ast.Tuple(elts=[_sym("i", depth), s.elt], ctx=ast.Load()), False)
            return None
        return None
    if isinstance(expr, ast.Call) and isinstance(expr.func, ast.Attribute) and not expr.args and not expr.keywords \
            and expr.func.attr in ("keys", "items", "values"):
        b = expr.func.value
        k = _sym("k", depth)
        v = ast.Subscript(value=clone(b), slice=k, ctx=ast.Load())
        elt = {"keys": k, "values": v, "items": ast.Tuple(elts=[k, v], ctx=ast.Load())}[expr.func.attr]
        return Seq(norm(b), elt)
    if isinstance(expr, (ast.ListComp, ast.GeneratorExp)) and len(expr.generators) == 1 and not expr.generators[0].ifs:
        g = expr.generators[0]
        inner = seq_of(g.iter, at, depth, _rec + 1)
        if inner is None:
            return None
        env = {}
        _bind(g.target, inner.elt, env)
        elt = _IndexSub(env, {t: (inner, depth) for t in env} if inner.index_of is not None else {}, at, depth).visit(clone(expr.elt))
        return Seq(inner.base, elt, inner.rev, None, inner.order)
    if isinstance(expr, (ast.Attribute, ast.Subscript)):
        return Seq(norm(expr), _sym("e", depth))
    return None


class _IndexSub(ast.NodeTransformer):
    """substitute loop variables; `xs[i]` with i the index variable of a loop over range(len(xs)) is the element of xs"""

    def __init__(self, env, index_vars, at, depth):
        self.env, self.index_vars, self.at, self.depth = env, index_vars, at, depth

    def visit_Subscript(self, n):
        if isinstance(n.slice, ast.Name) and n.slice.id in self.index_vars:
            idx, d_ = self.index_vars[n.slice.id]
            s = seq_of(n.value, self.at, d_)
            if s is not None and idx.index_of is not None and s.base == idx.index_of.base and not s.rev and s.index_of is None:
                return clone(s.elt)
            if s is None or s.index_of is not None:
                # d[ks[i]]: resolve inside first
                pass
        self.generic_visit(n)
        return n

    def visit_Name(self, n):
        if isinstance(n.ctx, ast.Load) and n.id in self.env:
            return clone(self.env[n.id])
        return n


def resolve_at(fnode, node, expr):
    """(expression over element symbols, [(for node, Seq or None)] outermost first)"""
    fors = [p for p in parents(node) if isinstance(p, ast.For)]
    stop = None
    for p in parents(node):
        if isinstance(p, (ast.FunctionDef, ast.Lambda)):
            stop = p
            break
    fors = [f for f in fors if stop is None or any(q is stop for q in parents(f))]
    fors.reverse()
    env, index_vars, loops = {}, {}, []
    order = exec_order(fnode if stop is None else stop)
    me = order.get(id(node), 1 << 30)
    for depth, f in enumerate(fors):
        s = seq_of(f.iter, f, depth)
        loops.append((f, s))
        if s is not None:
            if s.index_of is not None and isinstance(f.target, ast.Name):
                index_vars[f.target.id] = (s, depth)
                env[f.target.id] = s.elt
            else:
                _bind(f.target, s.elt, env)
        # loop-local single assignments that precede the node, in execution order
        for st in f.body:
            if isinstance(st, ast.Assign) and len(st.targets) == 1 and isinstance(st.targets[0], ast.Name) \
                    and order.get(id(st), 1 << 30) < me and not any(x is node for x in ast.walk(st)):
                env[st.targets[0].id] = _IndexSub(dict(env), index_vars, f, depth).visit(clone(st.value))
    out = _IndexSub(env, index_vars, node, len(fors)).visit(clone(expr))
    ast.fix_missing_locations(out)
    return out, loops
