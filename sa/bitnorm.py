"""Lemma-based canonical form of witness-bit allocation.

The library allocates a Boolean witness as `PrivValBool(v)` (a fresh wire hinted with v, `b*(1-b) = 0` through the guarded
`add_constraint`, non-bits refused with ValueError) and a vector of them as `[PrivValBool(E) for i in range(n)]`; the
decomposition lemma, the width rules and the hint rules are stated against that.  A helper may do the same by hand:

    (D)   RET = []
          for V in VALS:
              if V != 0 and V != 1: raise ...                 refusal of non-bits (REQUIRED: it makes the hints bits)
              B = PrivVal(V)
              add_constraint[_unsafe](B, 1 - B, ZERO)         booleanity of the fresh wire (guarded or not: the hint is a bit)
              RET.append(LinCombBool(B, False))
      ==  RET = [PrivValBool(V) for V in VALS]

and the same unrolled for a one-element list, `[T] = RET` giving `T = PrivValBool(V)`.  Emitting booleanity unguarded is
stricter than the library form and satisfied by the recorded witness because of the refusal; nothing else differs.

After (D), an allocation that FOLLOWS an if / elif chain whose arms only prepared the values

          if c: vals = [G(i) for i in range(n)]   elif d: vals = [0 for _ in range(n)]   else: raise
          T = [PrivValBool(v) for v in vals]

is moved into the arms and fused (`T = [PrivValBool(G(i)) for i in range(n)]` ...), which is the order the library writes it
in.  Both steps are equalities of what is allocated and emitted, in the same order, on every path.
"""
import ast

from .loader import clone, norm

ZEROS = ("LinComb.ZERO", "runtime.LinComb.ZERO", "ConstVal(0)")


def _lists(fnode):
    out = [fnode.body]
    stack = list(fnode.body)
    while stack:
        s = stack.pop()
        if isinstance(s, (ast.FunctionDef, ast.ClassDef, ast.Lambda)):
            continue
        for fld in ("body", "orelse", "finalbody"):
            v = getattr(s, fld, None)
            if isinstance(v, list) and v and isinstance(v[0], ast.stmt):
                out.append(v)
                stack.extend(v)
        for h in getattr(s, "handlers", []) or []:
            out.append(h.body)
            stack.extend(h.body)
    return out


def _names(node):
    return {x.id for x in ast.walk(node) if isinstance(x, ast.Name)}


def _is_refusal(s, v):
    """if V != 0 and V != 1: raise   |   if V not in (0, 1): raise   |   if not (V == 0 or V == 1): raise"""
    if not (isinstance(s, ast.If) and not s.orelse and s.body and isinstance(s.body[-1], ast.Raise)):
        return False
    t = norm(s.test).replace(" ", "")
    return t in ("%s!=0and%s!=1" % (v, v), "%s!=1and%s!=0" % (v, v), "%snotin(0,1)" % v, "%snotin[0,1]" % v,
                 "not(%s==0or%s==1)" % (v, v), "%snotin{0,1}" % v)


def _is_booleanity(s, b):
    c = s.value if isinstance(s, ast.Expr) else None
    if not (isinstance(c, ast.Call) and norm(c.func).split(".")[-1] in ("add_constraint", "add_constraint_unsafe")
            and not norm(c.func).startswith("backend.") and len(c.args) == 3 and not c.keywords and norm(c.args[2]) in ZEROS):
        return False
    pair = {norm(c.args[0]), norm(c.args[1])}
    return pair in ({b, "1 - %s" % b}, {b, "LinComb.ONE_SAFE - %s" % b})


def _alloc_body(stmts, v_txt, ret):
    """the statements [refusal] B = PrivVal(V); booleanity(B); RET.append(LinCombBool(B, False)) - returns True when they match"""
    body = [s for s in stmts if not isinstance(s, (ast.Import, ast.ImportFrom))]
    if len(body) != 4 or not _is_refusal(body[0], v_txt):
        return False
    a = body[1]
    if not (isinstance(a, ast.Assign) and len(a.targets) == 1 and isinstance(a.targets[0], ast.Name) and isinstance(a.value, ast.Call)
            and norm(a.value.func) == "PrivVal" and len(a.value.args) == 1 and norm(a.value.args[0]) == v_txt and not a.value.keywords):
        return False
    b = a.targets[0].id
    if not _is_booleanity(body[2], b):
        return False
    ap = body[3]
    return isinstance(ap, ast.Expr) and isinstance(ap.value, ast.Call) and norm(ap.value.func) == "%s.append" % ret \
        and len(ap.value.args) == 1 and norm(ap.value.args[0]) in ("LinCombBool(%s, False)" % b, "LinCombBool(%s, constrain=False)" % b)


def _rewrite_loops(fnode, stmts):
    """RET = []; for V in VALS: <alloc body>   ->   RET = [PrivValBool(V) for V in VALS]"""
    for i, s in enumerate(stmts):
        if not (isinstance(s, ast.Assign) and len(s.targets) == 1 and isinstance(s.targets[0], ast.Name) and norm(s.value) == "[]"):
            continue
        ret = s.targets[0].id
        j = i + 1
        while j < len(stmts) and isinstance(stmts[j], (ast.Import, ast.ImportFrom)):
            j += 1
        if j >= len(stmts):
            continue
        lp = stmts[j]
        if isinstance(lp, ast.For) and isinstance(lp.target, ast.Name) and not lp.orelse and isinstance(lp.iter, ast.Name) \
                and _alloc_body(lp.body, lp.target.id, ret):
            comp = ast.parse("[PrivValBool(%s) for %s in %s]" % (lp.target.id, lp.target.id, lp.iter.id), mode="eval").body
            new = ast.copy_location(ast.Assign(targets=[ast.Name(id=ret, ctx=ast.Store())], value=comp), s)
            stmts[i:j + 1] = [x for x in stmts[i + 1:j]] + [new]
            ast.fix_missing_locations(new)
            return True
        # unrolled for a one-element list:  RET = []; <alloc body on X>; [T] = RET
        rest = [x for x in stmts[j:j + 6]]
        body, k = [], j
        while k < len(stmts) and len([x for x in body if not isinstance(x, (ast.Import, ast.ImportFrom))]) < 4:
            body.append(stmts[k])
            k += 1
        core = [x for x in body if not isinstance(x, (ast.Import, ast.ImportFrom))]
        if len(core) == 4 and isinstance(core[1], ast.Assign) and isinstance(core[1].value, ast.Call) and core[1].value.args \
                and _alloc_body(body, norm(core[1].value.args[0]), ret) and isinstance(core[1].value.args[0], ast.Name) and k < len(stmts):
            un = stmts[k]
            if isinstance(un, ast.Assign) and len(un.targets) == 1 and isinstance(un.targets[0], (ast.List, ast.Tuple)) \
                    and len(un.targets[0].elts) == 1 and isinstance(un.targets[0].elts[0], ast.Name) and norm(un.value) == ret:
                t = un.targets[0].elts[0].id
                x = core[1].value.args[0].id
                new = ast.copy_location(ast.Assign(targets=[ast.Name(id=t, ctx=ast.Store())],
                                                   value=ast.parse("PrivValBool(%s)" % x, mode="eval").body), s)
                stmts[i:k + 1] = [y for y in body if isinstance(y, (ast.Import, ast.ImportFrom))] + [new]
                ast.fix_missing_locations(new)
                return True
    return False


def _arms(iff):
    """completing arms (statement lists) of an if / elif / else chain; None if some arm is missing (no else) """
    arms = []
    cur = iff
    while True:
        arms.append(cur.body)
        if len(cur.orelse) == 1 and isinstance(cur.orelse[0], ast.If):
            cur = cur.orelse[0]
            continue
        if not cur.orelse:
            return None
        arms.append(cur.orelse)
        break
    return [a for a in arms if not (a and isinstance(a[-1], ast.Raise))]


def _sink(fnode, stmts):
    """T = PrivValBool(L) | T = [PrivValBool(v) for v in L]  after a chain whose arms bind L  ->  fused into the arms"""
    for i, s in enumerate(stmts):
        if not (isinstance(s, ast.Assign) and len(s.targets) == 1 and isinstance(s.targets[0], ast.Name)):
            continue
        t = s.targets[0].id
        v = s.value
        L = None
        vec = False
        if isinstance(v, ast.Call) and norm(v.func) == "PrivValBool" and len(v.args) == 1 and isinstance(v.args[0], ast.Name) and not v.keywords:
            L = v.args[0].id
        elif isinstance(v, ast.ListComp) and len(v.generators) == 1 and not v.generators[0].ifs and isinstance(v.generators[0].iter, ast.Name) \
                and isinstance(v.generators[0].target, ast.Name) and norm(v.elt) == "PrivValBool(%s)" % v.generators[0].target.id:
            L = v.generators[0].iter.id
            vec = True
        if L is None:
            continue
        # the chain: the closest preceding if statement, with only neutral statements in between
        k = i - 1
        while k >= 0 and not isinstance(stmts[k], ast.If):
            mid = stmts[k]
            ok_mid = isinstance(mid, (ast.Import, ast.ImportFrom)) or (
                isinstance(mid, ast.Assign) and len(mid.targets) == 1 and isinstance(mid.targets[0], ast.Name)
                and mid.targets[0].id not in (L, t) and not any(isinstance(x, ast.Call) for x in ast.walk(mid.value)))
            if not ok_mid:
                break
            k -= 1
        if k < 0 or not isinstance(stmts[k], ast.If):
            # no chain: L bound once, earlier in this list, and read only here -> fuse in place
            defs = [x for x in stmts[:i] if isinstance(x, ast.Assign) and len(x.targets) == 1 and isinstance(x.targets[0], ast.Name)
                    and x.targets[0].id == L]
            loads = [x for x in ast.walk(fnode) if isinstance(x, ast.Name) and x.id == L and isinstance(x.ctx, ast.Load)]
            stores = [x for x in ast.walk(fnode) if isinstance(x, ast.Name) and x.id == L and isinstance(x.ctx, ast.Store)]
            between = stmts[stmts.index(defs[0]) + 1:i] if len(defs) == 1 else None
            if len(defs) == 1 and len(loads) == 1 and len(stores) == 1 and all(
                    isinstance(m_, (ast.Import, ast.ImportFrom)) or not any(isinstance(y, ast.Call) for y in ast.walk(m_)) for m_ in between) \
                    and (not vec or (isinstance(defs[0].value, ast.ListComp) and len(defs[0].value.generators) == 1)):
                b = defs[0]
                if vec:
                    nv = clone(b.value)
                    nv.elt = ast.Call(func=ast.Name(id="PrivValBool", ctx=ast.Load()), args=[nv.elt], keywords=[])
                else:
                    nv = ast.Call(func=ast.Name(id="PrivValBool", ctx=ast.Load()), args=[clone(b.value)], keywords=[])
                new = ast.copy_location(ast.Assign(targets=[ast.Name(id=t, ctx=ast.Store())], value=nv), s)
                ast.fix_missing_locations(new)
                stmts[i] = new
                stmts.remove(b)
                return True
            continue
        arms = _arms(stmts[k])
        if not arms:
            continue
        binds = []
        for a in arms:
            b = [x for x in a if isinstance(x, ast.Assign) and len(x.targets) == 1 and isinstance(x.targets[0], ast.Name) and x.targets[0].id == L]
            if len(b) != 1 or any(L in _names(y) for y in a if y is not b[0] and a.index(y) > a.index(b[0])):
                binds = None
                break
            # moving the allocation up to where the value is bound must not overtake another allocation / emission of the arm
            PURE = ("range", "len", "abs", "int", "min", "max", "str", "enumerate", "zip", "bool")
            later = [c_ for y in a[a.index(b[0]) + 1:] for c_ in ast.walk(y) if isinstance(c_, ast.Call)]
            if any(norm(c_.func) not in PURE for c_ in later):
                binds = None
                break
            if vec and not (isinstance(b[0].value, ast.ListComp) and len(b[0].value.generators) == 1):
                binds = None
                break
            binds.append((a, b[0]))
        if not binds:
            continue
        # L is read nowhere else (the fused form no longer binds it)
        others = [x for x in ast.walk(fnode) if isinstance(x, ast.Name) and x.id == L and isinstance(x.ctx, ast.Load)]
        if len(others) != 1:
            continue
        # nothing between the chain and the allocation may allocate or emit (order of wires is preserved only then): checked above
        for a, b in binds:
            if vec:
                nv = clone(b.value)
                nv.elt = ast.Call(func=ast.Name(id="PrivValBool", ctx=ast.Load()), args=[nv.elt], keywords=[])
            else:
                nv = ast.Call(func=ast.Name(id="PrivValBool", ctx=ast.Load()), args=[clone(b.value)], keywords=[])
            new = ast.copy_location(ast.Assign(targets=[ast.Name(id=t, ctx=ast.Store())], value=nv), b)
            ast.fix_missing_locations(new)
            a[a.index(b)] = new
        del stmts[i]
        return True
    return False


def _merge_copy(fnode, stmts):
    """T = <alloc> in arms ... ; X = T  (T used nowhere else)  ->  the arms bind X directly"""
    for i, s in enumerate(stmts):
        if isinstance(s, ast.Assign) and len(s.targets) == 1 and isinstance(s.targets[0], ast.Name) and isinstance(s.value, ast.Name):
            x, t = s.targets[0].id, s.value.id
            loads = [n for n in ast.walk(fnode) if isinstance(n, ast.Name) and n.id == t and isinstance(n.ctx, ast.Load)]
            stores = [n for n in ast.walk(fnode) if isinstance(n, ast.Name) and n.id == t and isinstance(n.ctx, ast.Store)]
            if len(loads) == 1 and stores and all("PrivValBool(" in norm(getattr(n, "_bn_parent", None).value)
                                                  for n in stores if isinstance(getattr(n, "_bn_parent", None), ast.Assign)) \
                    and all(isinstance(getattr(n, "_bn_parent", None), ast.Assign) for n in stores):
                for n in stores:
                    n.id = x
                del stmts[i]
                return True
    return False


def scalar_allocators(tree):
    """names of module-level one-argument helpers that ARE PrivValBool written by hand (lemma (D), scalar form):
           def h(v):  [if v != 0 and v != 1: raise]  b = PrivVal(v | parse_boolean(v));  booleanity(b);  return LinCombBool(b, False)
       the refusal of non-bits is required: either the explicit test or parse_boolean (which raises for anything but a bit)"""
    out = set()
    for f in tree.body:
        if not (isinstance(f, ast.FunctionDef) and len(f.args.args) == 1 and not f.args.vararg and not f.args.kwarg and not f.decorator_list):
            continue
        v = f.args.args[0].arg
        body = [s for s in f.body if not isinstance(s, (ast.Import, ast.ImportFrom)) and not (isinstance(s, ast.Expr) and isinstance(s.value, ast.Constant))]
        refused = False
        if body and _is_refusal(body[0], v):
            refused = True
            body = body[1:]
        if len(body) != 3:
            continue
        a, c, r = body
        if not (isinstance(a, ast.Assign) and len(a.targets) == 1 and isinstance(a.targets[0], ast.Name) and isinstance(a.value, ast.Call)
                and norm(a.value.func) == "PrivVal" and len(a.value.args) == 1):
            continue
        arg = a.value.args[0]
        if norm(arg) == v and refused:
            pass
        elif isinstance(arg, ast.Call) and norm(arg.func).split(".")[-1] == "parse_boolean" and len(arg.args) == 1 and norm(arg.args[0]) == v:
            pass
        else:
            continue
        b = a.targets[0].id
        if not _is_booleanity(c, b):
            continue
        if isinstance(r, ast.Return) and r.value is not None and norm(r.value) in ("LinCombBool(%s, False)" % b, "LinCombBool(%s, constrain=False)" % b):
            out.add(f.name)
    return out


def rewrite_scalar_allocators(fnode, names):
    """h(E) -> PrivValBool(E) for the helpers found by scalar_allocators"""
    if not names:
        return False
    hit = [False]

    class _T(ast.NodeTransformer):
        def visit_Call(self, n):
            self.generic_visit(n)
            if isinstance(n.func, ast.Name) and n.func.id in names and len(n.args) == 1 and not n.keywords:
                hit[0] = True
                return ast.copy_location(ast.Call(func=ast.Name(id="PrivValBool", ctx=ast.Load()), args=n.args, keywords=[]), n)
            return n
    if fnode.name in names:
        return False
    _T().visit(fnode)
    if hit[0]:
        if not any(isinstance(x, ast.ImportFrom) and any(a.name == "PrivValBool" for a in x.names) for x in ast.walk(fnode)):
            imp = ast.ImportFrom(module="pysnark.boolean", names=[ast.alias(name="PrivValBool", asname=None)], level=0)
            k = 1 if (fnode.body and isinstance(fnode.body[0], ast.Expr) and isinstance(fnode.body[0].value, ast.Constant)) else 0
            fnode.body.insert(k, ast.copy_location(imp, fnode.body[0]))
        ast.fix_missing_locations(fnode)
    return hit[0]


def canon_bit_allocation(fnode):
    txt_ = norm(fnode)
    changed = False
    if "PrivVal(" in txt_ and "LinCombBool(" in txt_:
        for _ in range(12):
            hit = False
            for lst in _lists(fnode):
                if _rewrite_loops(fnode, lst):
                    hit = True
                    break
            if not hit:
                break
            changed = True
    # an allocation `[PrivValBool(v) for v in vals]` / `PrivValBool(x)` that follows a value-preparing chain is moved into the arms
    # whether it was written by hand that way or came out of the rewrite above
    if not changed and not any(isinstance(s, ast.Assign) and isinstance(s.value, (ast.ListComp, ast.Call)) and "PrivValBool(" in norm(s.value)
                               and any(isinstance(p, ast.If) for p in lst) for lst in _lists(fnode) for s in lst):
        return False
    before_ = ast.dump(fnode)
    # a list that only fed the allocation (vals = [retval]) is dead now
    for lst in _lists(fnode):
        for s in list(lst):
            if isinstance(s, ast.Assign) and len(s.targets) == 1 and isinstance(s.targets[0], ast.Name) \
                    and not any(isinstance(x, ast.Call) for x in ast.walk(s.value)) \
                    and not any(isinstance(n, ast.Name) and n.id == s.targets[0].id and isinstance(n.ctx, ast.Load) for n in ast.walk(fnode)) \
                    and isinstance(s.value, (ast.List, ast.Tuple)):
                lst.remove(s)
    for _ in range(12):
        hit = False
        for lst in _lists(fnode):
            if _sink(fnode, lst):
                hit = True
                break
        if not hit:
            break
    for n in ast.walk(fnode):
        for c in ast.iter_child_nodes(n):
            c._bn_parent = n
    for _ in range(6):
        hit = False
        for lst in _lists(fnode):
            if _merge_copy(fnode, lst):
                hit = True
                break
        if not hit:
            break
    if not changed and ast.dump(fnode) == before_:
        return False
    # the canonical form names PrivValBool: make it visible the way the library does (a local import)
    if not any(isinstance(x, ast.ImportFrom) and any(a.name == "PrivValBool" for a in x.names) for x in ast.walk(fnode)):
        imp = ast.ImportFrom(module="pysnark.boolean", names=[ast.alias(name="PrivValBool", asname=None)], level=0)
        k = 1 if (fnode.body and isinstance(fnode.body[0], ast.Expr) and isinstance(fnode.body[0].value, ast.Constant)) else 0
        fnode.body.insert(k, ast.copy_location(imp, fnode.body[0]))
    ast.fix_missing_locations(fnode)
    return True
