"""Exact multivariate polynomials over named symbols (rational coefficients) and the
translation of expression ASTs into them.  Uninterpreted operations become symbols whose
name is the canonical text of their (normalised) operands, so syntactically different but
algebraically equal operands still produce the same symbol."""
import ast
from fractions import Fraction

from .loader import norm


class P:
    __slots__ = ("t",)

    def __init__(self, terms=None):
        self.t = {k: v for k, v in (terms or {}).items() if v != 0}

    # -- constructors
    @staticmethod
    def const(c):
        return P({(): Fraction(c)})

    @staticmethod
    def sym(name):
        return P({((name, 1),): Fraction(1)})

    # -- algebra
    def __add__(self, o):
        o = _lift(o)
        t = dict(self.t)
        for k, v in o.t.items():
            t[k] = t.get(k, 0) + v
        return P(t)

    __radd__ = __add__

    def __neg__(self):
        return P({k: -v for k, v in self.t.items()})

    def __sub__(self, o):
        return self + (-_lift(o))

    def __rsub__(self, o):
        return _lift(o) - self

    def __mul__(self, o):
        o = _lift(o)
        t = {}
        for k1, v1 in self.t.items():
            for k2, v2 in o.t.items():
                k = _mulmono(k1, k2)
                t[k] = t.get(k, 0) + v1 * v2
        return P(t)

    __rmul__ = __mul__

    def __pow__(self, n):
        r = P.const(1)
        for _ in range(n):
            r = r * self
        return r

    def __eq__(self, o):
        return isinstance(o, P) and self.t == o.t

    def __ne__(self, o):
        return not self == o

    def __hash__(self):
        return hash(tuple(sorted(self.t.items())))

    # -- queries
    def is_zero(self):
        return not self.t

    def is_const(self):
        return all(k == () for k in self.t)

    def const_value(self):
        return self.t.get((), Fraction(0)) if self.is_const() else None

    def symbols(self):
        return {s for k in self.t for s, _e in k}

    def degree(self):
        return max((sum(e for _s, e in k) for k in self.t), default=0)

    def subst(self, mapping):
        """Substitute symbols by polynomials."""
        out = P()
        for k, v in self.t.items():
            term = P.const(v)
            for s, e in k:
                term = term * (mapping[s] ** e if s in mapping else P.sym(s) ** e)
            out = out + term
        return out

    def evaluate(self, values):
        tot = Fraction(0)
        for k, v in self.t.items():
            x = v
            for s, e in k:
                x *= Fraction(values[s]) ** e
            tot += x
        return tot

    def coeff_of(self, sym):
        """(a, b) with self == a*sym + b  when self is affine in sym, else None."""
        a, b = P(), P()
        for k, v in self.t.items():
            d = dict(k)
            e = d.pop(sym, 0)
            rest = tuple(sorted(d.items()))
            if e == 0:
                b = b + P({rest: v})
            elif e == 1:
                a = a + P({rest: v})
            else:
                return None
        return a, b

    def __str__(self):
        if not self.t:
            return "0"
        parts = []
        for k in sorted(self.t, key=lambda m: (sum(e for _s, e in m), m)):
            v = self.t[k]
            mono = "*".join(s if e == 1 else "%s^%d" % (s, e) for s, e in k)
            if not mono:
                parts.append(str(v))
            elif v == 1:
                parts.append(mono)
            elif v == -1:
                parts.append("-" + mono)
            else:
                parts.append("%s*%s" % (v, mono))
        return " + ".join(parts).replace("+ -", "- ")

    __repr__ = __str__


def _lift(o):
    return o if isinstance(o, P) else P.const(o)


def _mulmono(a, b):
    d = dict(a)
    for s, e in b:
        d[s] = d.get(s, 0) + e
    return tuple(sorted(d.items()))


WIRE_CTORS = ("PrivVal", "PubVal", "ConstVal", "PrivValBool", "PubValBool")


def poly_of(node, env=None, calls=None, strict=False):
    """Polynomial of an expression AST.

    env    maps normalised source text (e.g. 'self.value', 'x') to P
    calls  maps callee text to a function(list of arg nodes, recurse) -> P | None
    strict if True, returns None when an uninterpreted construct is met
    """
    env = env or {}
    calls = calls or {}

    def rec(n):
        txt = norm(n)
        if txt in env:
            return env[txt]
        if isinstance(n, ast.Constant):
            if isinstance(n.value, bool):
                return P.const(int(n.value))
            if isinstance(n.value, int):
                return P.const(n.value)
            return None if strict else P.sym(txt)
        if isinstance(n, ast.Name):
            return P.sym(n.id)
        if isinstance(n, ast.Attribute):
            return P.sym(txt)
        if isinstance(n, ast.UnaryOp):
            if isinstance(n.op, ast.USub):
                x = rec(n.operand)
                return None if x is None else -x
            if isinstance(n.op, ast.UAdd):
                return rec(n.operand)
            if isinstance(n.op, ast.Invert):
                x = rec(n.operand)
                return None if x is None else P.const(-1) - x   # ~x == -x-1 on ints
            return None if strict else P.sym(txt)
        if isinstance(n, ast.BinOp):
            l, r = rec(n.left), rec(n.right)
            if l is None or r is None:
                return None
            if isinstance(n.op, ast.Add):
                return l + r
            if isinstance(n.op, ast.Sub):
                return l - r
            if isinstance(n.op, ast.Mult):
                return l * r
            if isinstance(n.op, ast.Pow) and r.is_const() and r.const_value().denominator == 1 \
                    and 0 <= r.const_value() <= 16:
                return l ** int(r.const_value())
            if isinstance(n.op, ast.LShift) and r.is_const() and r.const_value().denominator == 1 \
                    and 0 <= r.const_value() <= 4096:
                return l * (2 ** int(r.const_value()))
            if isinstance(n.op, ast.LShift) and l.is_const():
                return P.sym("2^(%s)" % r) * l
            if isinstance(n.op, (ast.FloorDiv, ast.Div)) and l.is_const() and r.is_const() and r.const_value() != 0:
                q = l.const_value() / r.const_value()
                if q.denominator == 1:
                    return P.const(q)
            if strict:
                return None
            opn = type(n.op).__name__
            return P.sym("%s(%s,%s)" % (opn, l, r))
        if isinstance(n, ast.Call):
            ftxt = norm(n.func)
            short = ftxt.split(".")[-1]
            for key in (ftxt, short):
                if key in calls:
                    return calls[key](n.args, rec)
            if short in WIRE_CTORS and len(n.args) == 1:
                return rec(n.args[0])
            if strict:
                return None
            args = []
            for a in n.args:
                x = rec(a)
                args.append(str(x) if x is not None else norm(a))
            return P.sym("%s(%s)" % (ftxt, ",".join(args)))
        if isinstance(n, ast.Compare) and len(n.ops) == 1:
            l, r = rec(n.left), rec(n.comparators[0])
            if l is None or r is None or strict:
                return None
            opn = type(n.ops[0]).__name__
            if opn in ("Eq", "NotEq"):
                d = l - r
                # canonical sign
                lead = sorted(d.t.items())[0][1] if d.t else 1
                if lead < 0:
                    d = -d
                return P.sym("[%s%s0]" % (d, "==" if opn == "Eq" else "!="))
            return P.sym("[%s %s %s]" % (l, opn, r))
        if isinstance(n, ast.IfExp) and not strict:
            a, b = rec(n.body), rec(n.orelse)
            return P.sym("ite(%s;%s;%s)" % (norm(n.test), a, b))
        if isinstance(n, ast.Subscript) and not strict:
            return P.sym(txt)
        return None if strict else P.sym(txt)

    return rec(node)


def local_env(fnode, env=None, calls=None):
    """Def-use substitution for single-assignment locals of a function: name -> polynomial of its
    defining expression (in terms of `env`).  Locals assigned more than once are left symbolic."""
    env = dict(env or {})
    counts = {}
    for n in ast.walk(fnode):
        if isinstance(n, ast.Assign) and len(n.targets) == 1 and isinstance(n.targets[0], ast.Name):
            counts[n.targets[0].id] = counts.get(n.targets[0].id, 0) + 1
        elif isinstance(n, (ast.AugAssign, ast.For, ast.comprehension)):
            t = n.target
            for x in ast.walk(t):
                if isinstance(x, ast.Name):
                    counts[x.id] = counts.get(x.id, 0) + 2
    body = fnode.body if isinstance(fnode.body, list) else []
    for n in body:
        if isinstance(n, ast.Assign) and len(n.targets) == 1 and isinstance(n.targets[0], ast.Name) \
                and counts.get(n.targets[0].id) == 1 and n.targets[0].id not in env:
            p = poly_of(n.value, env, calls, strict=True)
            if p is not None:
                env[n.targets[0].id] = p
    return env
