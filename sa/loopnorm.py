"""Two loop lemmas: binary digits by repeated halving, and recomposition by Horner's rule.

The rules of C02/C03/C05/C16 read a bit decomposition in the library's spelling

    if not ignore_errors(): if X < 0 or X.bit_length() > N: raise
    bits = [PrivValBool((X >> i) & 1) for i in range(N)]            (or (X & (1 << i)) >> i)
    from_bits(bits) = sum([b * (1 << i) for (i, b) in enumerate(bits)])

A function that computes the same numbers with loops is rewritten into that spelling when - and only when - it matches ALL
hypotheses of a lemma below; anything else is left as written.

    (G)  halving:      V = X ; D = []                                       (D, V locals; X side-effect free)
                       for _ in range(N):  V, d = divmod(V, 2) ; D.append(d)          (or d = V % 2 ; V = V // 2 / V >>= 1)
         Python's divmod floors, so after the loop D[i] = (X >> i) & 1 for every integer X (negative ones included) and
         V = X >> N.  Rewritten to   D = [(X >> i) & 1 for i in range(N)] ; V = X >> N.
    (G') leftover:     `T != 0` (T the leftover X >> N, possibly through one copy) in a refusal test is
                       `X < 0 or X.bit_length() > N`:  X >> N == 0  <=>  0 <= X < 2^N.
    (G'')fusion:       B = [F(d) for d in D] with D = [E(i) for i in range(N)] and D not used otherwise is B = [F(E(i)) for i in range(N)].
    (H)  Horner:       R = ZERO (or 0) ; for b in reversed(list(B)) [reversed(B)]: R = R * 2 + b [2 * R + b, b + R * 2 ..] ; return R
         R = sum(b_i * 2^i).  Rewritten to the library's sum.
"""
import ast

from .loader import clone, norm


def _uses(name, node):
    return any(isinstance(x, ast.Name) and x.id == name for x in ast.walk(node))


def _stmt_lists(fnode):
    out = [fnode.body]
    stack = list(fnode.body)
    while stack:
        s = stack.pop()
        if isinstance(s, (ast.FunctionDef, ast.ClassDef, ast.Lambda)):
            continue
        for fld in ("body", "orelse", "finalbody"):
            v = getattr(s, fld, None)
            if isinstance(v, list) and v and isinstance(v[0], ast.stmt):
                out.append(v)
                stack.extend(v)
    return out


def _pure(e):
    return isinstance(e, (ast.Name, ast.Constant)) or (isinstance(e, ast.Attribute) and _pure(e.value))


def _halving(fnode, stmts):
    for i in range(len(stmts) - 2):
        a, b, lp = stmts[i], stmts[i + 1], stmts[i + 2]
        # V = X ; D = []   in either order
        if isinstance(a, ast.Assign) and isinstance(b, ast.Assign) and norm(a.value) == "[]":
            a, b = b, a
        if not (isinstance(a, ast.Assign) and len(a.targets) == 1 and isinstance(a.targets[0], ast.Name) and _pure(a.value)
                and isinstance(b, ast.Assign) and len(b.targets) == 1 and isinstance(b.targets[0], ast.Name) and norm(b.value) == "[]"):
            continue
        V, X, D = a.targets[0].id, a.value, b.targets[0].id
        if not (isinstance(lp, ast.For) and not lp.orelse and isinstance(lp.target, ast.Name) and isinstance(lp.iter, ast.Call)
                and norm(lp.iter.func) == "range" and len(lp.iter.args) == 1 and _pure(lp.iter.args[0])):
            continue
        N = lp.iter.args[0]
        if _uses(lp.target.id, ast.Module(body=lp.body, type_ignores=[])) or _uses(V, N) or _uses(D, N):
            continue
        body = [norm(s).replace(" ", "") for s in lp.body]
        d = None
        if len(lp.body) == 2 and isinstance(lp.body[0], ast.Assign) and isinstance(lp.body[0].targets[0], ast.Tuple) \
                and len(lp.body[0].targets[0].elts) == 2 and norm(lp.body[0].targets[0].elts[0]) == V \
                and isinstance(lp.body[0].targets[0].elts[1], ast.Name) and norm(lp.body[0].value).replace(" ", "") == "divmod(%s,2)" % V:
            d = lp.body[0].targets[0].elts[1].id
            if body[1] != "%s.append(%s)" % (D, d):
                continue
        elif len(lp.body) == 3 and isinstance(lp.body[0], ast.Assign) and isinstance(lp.body[0].targets[0], ast.Name):
            d = lp.body[0].targets[0].id
            if body[0] not in ("%s=%s%%2" % (d, V), "%s=%s&1" % (d, V)):
                continue
            if sorted(body[1:]) not in (sorted(["%s.append(%s)" % (D, d), "%s=%s//2" % (V, V)]), sorted(["%s.append(%s)" % (D, d), "%s>>=1" % V]),
                                        sorted(["%s.append(%s)" % (D, d), "%s//=2" % V]), sorted(["%s.append(%s)" % (D, d), "%s=%s>>1" % (V, V)])):
                continue
            # the digit must be taken before the value is halved
            if not body[1].startswith("%s.append" % D) and not body[2].startswith("%s.append" % D):
                continue
        else:
            continue
        if d in (V, D) or V == D:
            continue
        ix = "ix"
        while _uses(ix, fnode):
            ix += "_"
        x = norm(X)
        n = norm(N)
        new = ast.parse("%s = [(%s >> %s) & 1 for %s in range(%s)]\n%s = %s >> %s\n" % (D, x, ix, ix, n, V, x, n)).body
        for s in new:
            for nd in ast.walk(s):
                if hasattr(nd, "lineno"):
                    nd.lineno = nd.end_lineno = lp.lineno
        stmts[i:i + 3] = new
        return True
    return False


def _leftover_tests(fnode):
    """`T != 0` with T = X >> N (directly, or through copies T = V, V = X >> N bound once) inside an If test -> range refusal"""
    binds = {}
    for a in ast.walk(fnode):
        if isinstance(a, ast.Assign) and len(a.targets) == 1 and isinstance(a.targets[0], ast.Name):
            binds.setdefault(a.targets[0].id, []).append(a.value)
    for a in ast.walk(fnode):
        if isinstance(a, (ast.AugAssign,)) and isinstance(a.target, ast.Name):
            binds.setdefault(a.target.id, []).append(None)

    def shift_of(e, depth=0):
        if isinstance(e, ast.BinOp) and isinstance(e.op, ast.RShift) and _pure(e.left) and _pure(e.right):
            return e.left, e.right
        if isinstance(e, ast.Name) and depth < 3 and len(binds.get(e.id, [])) == 1 and binds[e.id][0] is not None:
            return shift_of(binds[e.id][0], depth + 1)
        return None
    changed = False

    class _T(ast.NodeTransformer):
        def visit_Compare(self, c):
            nonlocal changed
            if len(c.ops) == 1 and isinstance(c.ops[0], (ast.NotEq, ast.Eq)) and norm(c.comparators[0]) == "0":
                sh = shift_of(c.left)
                if sh is not None:
                    x, n = norm(sh[0]), norm(sh[1])
                    changed = True
                    t = "(%s < 0 or %s.bit_length() > %s)" % (x, x, n)
                    if isinstance(c.ops[0], ast.Eq):
                        t = "not " + t
                    return ast.copy_location(ast.parse(t, mode="eval").body, c)
            return c
    for s in ast.walk(fnode):
        if isinstance(s, ast.If):
            s.test = _T().visit(s.test)
    if changed:
        ast.fix_missing_locations(fnode)
    return changed


def _fuse(fnode, stmts):
    for i, s in enumerate(stmts):
        if not (isinstance(s, ast.Assign) and len(s.targets) == 1 and isinstance(s.targets[0], ast.Name) and isinstance(s.value, ast.ListComp)
                and len(s.value.generators) == 1 and not s.value.generators[0].ifs and isinstance(s.value.generators[0].target, ast.Name)
                and isinstance(s.value.generators[0].iter, ast.Call) and norm(s.value.generators[0].iter.func) == "range"):
            continue
        D = s.targets[0].id
        for j in range(i + 1, len(stmts)):
            t = stmts[j]
            if isinstance(t, ast.Assign) and isinstance(t.value, ast.ListComp) and len(t.value.generators) == 1 \
                    and not t.value.generators[0].ifs and norm(t.value.generators[0].iter) == D \
                    and isinstance(t.value.generators[0].target, ast.Name):
                uses = sum(1 for u in ast.walk(fnode) if isinstance(u, ast.Name) and u.id == D)
                if uses != 2:          # the binding and this one use
                    break
                dv = t.value.generators[0].target.id

                class _R(ast.NodeTransformer):
                    def visit_Name(self, nd):
                        if nd.id == dv and isinstance(nd.ctx, ast.Load):
                            return ast.copy_location(clone(s.value.elt), nd)
                        return nd
                t.value = ast.ListComp(elt=_R().visit(clone(t.value.elt)), generators=[clone(s.value.generators[0])])
                ast.fix_missing_locations(t)
                del stmts[i]
                return True
            if _uses(D, t):
                break
    return False


def _horner(fnode):
    body = [s for s in fnode.body if not (isinstance(s, ast.Expr) and isinstance(s.value, ast.Constant))]
    if len(body) != 3:
        return False
    init, lp, ret = body
    if not (isinstance(init, ast.Assign) and len(init.targets) == 1 and isinstance(init.targets[0], ast.Name)
            and norm(init.value) in ("LinComb.ZERO", "0", "cls.ZERO")):
        return False
    R = init.targets[0].id
    if not (isinstance(lp, ast.For) and not lp.orelse and isinstance(lp.target, ast.Name) and len(lp.body) == 1
            and isinstance(ret, ast.Return) and ret.value is not None and norm(ret.value) == R):
        return False
    b = lp.target.id
    it = norm(lp.iter).replace(" ", "")
    import re
    m = re.fullmatch(r"reversed\((?:list\()?(\w+)\)?\)", it)
    if not m:
        return False
    B = m.group(1)
    st = norm(lp.body[0]).replace(" ", "")
    if st not in ("%s=%s*2+%s" % (R, R, b), "%s=2*%s+%s" % (R, R, b), "%s=%s+%s*2" % (R, b, R), "%s=%s+2*%s" % (R, b, R),
                  "%s=%s+%s+%s" % (R, R, R, b), "%s=(%s<<1)+%s" % (R, R, b)):
        return False
    new = ast.parse("return sum([biti * (1 << i) for (i, biti) in enumerate(%s)])" % B).body[0]
    for nd in ast.walk(new):
        if hasattr(nd, "lineno"):
            nd.lineno = nd.end_lineno = lp.lineno
    k = fnode.body.index(init)
    fnode.body[k:] = [new]
    return True


def canon_loops(fnode):
    """apply lemmas (G), (G'), (G''), (H); returns the list of lemmas applied"""
    if not isinstance(fnode, ast.FunctionDef):
        return []
    applied = []
    if any(isinstance(n, ast.For) for n in ast.walk(fnode)):
        for lst in _stmt_lists(fnode):
            while _halving(fnode, lst):
                applied.append("G")
        if "G" in applied:
            if _leftover_tests(fnode):
                applied.append("G'")
            for lst in _stmt_lists(fnode):
                while _fuse(fnode, lst):
                    applied.append("G''")
        if _horner(fnode):
            applied.append("H")
    return applied
