"""Inductive check of an equation that must hold after an accumulating loop.

    total, wire, flag = 0, zero(), False
    for i, x in enumerate(xs):
        ... updates of total / wire / flag, several paths ...
    if not flag: return ...
    return Ctor(total + ..., wire)             # claim: G(total, wire, ...) == 0 here

Straight-line substitution cannot decide such a site: the claim is about the state after ANY number of iterations.  It is
decided by induction instead.  Loop-carried variables that are only ever assigned constants are *flags*; their valuations
are the control states of the loop.  Per state, carried variables that no path reaching that state has modified keep
their initial constants (constant propagation over the state graph).  The claim itself, G == 0 evaluated through the code
that follows the loop, is the candidate invariant of every state from which the site can be reached; it must hold for the
initial values (if the initial state can reach the site) and be preserved by every path through the body that leads into
such a state - assuming it for the source state when that state can reach the site too.  All evaluations are exact
polynomial identities (sa/hints.Valuer), with finite case splits on the tests involved.

prove(fnode, loop, site, diff) -> ("ok", detail) | ("violation", detail) | ("unsupported", reason)
"""
import ast

from .hints import Valuer, paths_to, all_cases, pre_assume, replay, Undecidable, NeedCase, Contradiction, NONE
from .loader import clone, norm
from .poly import P


def _link(fn):
    ast.fix_missing_locations(fn)
    for n in ast.walk(fn):
        for c in ast.iter_child_nodes(n):
            c._parent = n
    return fn


def _fn(body):
    return _link(ast.FunctionDef(name="_part", args=ast.arguments(posonlyargs=[], args=[], kwonlyargs=[], kw_defaults=[], defaults=[]),
                                 body=body, decorator_list=[]))


def _const_of(node):
    if isinstance(node, ast.Constant) and (node.value is None or isinstance(node.value, (bool, int))):
        return node.value
    return "?"


def prove(fnode, loop, site, diff, base_env):
    """`diff(valuer)` evaluates the claimed-zero polynomial at `site`; `loop` is a For statement of fnode.body that precedes it."""
    body0 = fnode.body
    if loop not in body0 or loop.orelse:
        return "unsupported", "loop is not a top-level statement of the function"
    k = body0.index(loop)
    if any(isinstance(x, (ast.Break, ast.Return, ast.Yield, ast.YieldFrom, ast.While)) for s in loop.body for x in ast.walk(s)) or any(
            isinstance(x, ast.For) for s in loop.body for x in ast.walk(s)):
        return "unsupported", "loop body with break / return / nested loop"
    assigned = set()
    for s in loop.body:
        for x in ast.walk(s):
            if isinstance(x, ast.Name) and not isinstance(x.ctx, ast.Load):
                assigned.add(x.id)
    targets = {x.id for x in ast.walk(loop.target) if isinstance(x, ast.Name)}
    carried = sorted(assigned - targets)
    # initial values: straight-line assignments before the loop (the last one per name), tuple assignments split
    init = {}
    for s in body0[:k]:
        if isinstance(s, ast.Assign) and len(s.targets) == 1:
            t, v = s.targets[0], s.value
            if isinstance(t, ast.Name):
                init[t.id] = v
            elif isinstance(t, (ast.Tuple, ast.List)) and isinstance(v, (ast.Tuple, ast.List)) and len(t.elts) == len(v.elts):
                for a, b in zip(t.elts, v.elts):
                    if isinstance(a, ast.Name):
                        init[a.id] = b
        elif isinstance(s, (ast.If, ast.For, ast.While, ast.Try, ast.With)):
            for x in ast.walk(s):
                if isinstance(x, ast.Name) and not isinstance(x.ctx, ast.Load):
                    init.pop(x.id, None)
    if any(c not in init for c in carried):
        return "unsupported", "a loop-carried variable has no straight-line initial value"
    # flags: carried variables every assignment of which (anywhere) is a constant
    flags = []
    for c in carried:
        vals = [init[c]] + [s.value for st in loop.body for s in ast.walk(st)
                            if isinstance(s, ast.Assign) and any(isinstance(t, ast.Name) and t.id == c for t in s.targets)]
        aug = any(isinstance(s, ast.AugAssign) and isinstance(s.target, ast.Name) and s.target.id == c for st in loop.body for s in ast.walk(st))
        if not aug and all(_const_of(v) != "?" and not (isinstance(_const_of(v), int) and not isinstance(_const_of(v), bool) and abs(_const_of(v)) > 3)
                           for v in vals):
            flags.append(c)
    data = [c for c in carried if c not in flags]

    def cval(x):
        return NONE if x is None else P.const(int(x))

    # one iteration as a function: continue -> return
    class _C(ast.NodeTransformer):
        def visit_Continue(self, n):
            return ast.copy_location(ast.Return(value=None), n)
    it_fn = _fn([_C().visit(clone(s)) for s in loop.body] + [ast.Return(value=None)])
    it_rets = [n for n in ast.walk(it_fn) if isinstance(n, ast.Return)]
    after_fn = _fn([clone(s) for s in body0[k + 1:]])
    # the site inside the clone: same position in walk order
    orig_after = [x for s in body0[k + 1:] for x in ast.walk(s)]
    clone_after = [x for s in after_fn.body for x in ast.walk(s)]
    idx = [i for i, x in enumerate(orig_after) if x is site]
    if not idx:
        return "unsupported", "site does not follow the loop at the same level"
    site2 = clone_after[idx[0]]

    def env_for(state, consts, tag):
        env = dict(base_env)
        for t in targets:
            env[t] = P.sym(t)
        for f, val in zip(flags, state):
            env[f] = cval(val)
        for d in data:
            env[d] = consts[d] if consts.get(d) is not None else P.sym("%s_%s" % (tag, d))
        return env

    def G_of(state, consts, tag):
        """[(case, polynomial or text)] of the claim evaluated through the code after the loop, from exit values; [] if the
        site is unreachable from this state"""
        out = []
        for path in paths_to(after_fn, site2):
            def assumptions(path=path):
                v = Valuer(env_for(state, consts, tag))
                v.uninterp = True
                pre_assume(v, path)
                return v

            def build(v, path=path):
                replay(v, path)
                return diff(v, site2)
            out += [(d, p) for d, p, _v in all_cases(build, assumptions)]
        return out

    def steps(state, consts):
        """[(next state, {data var: post value}, case text)] for every feasible path of one iteration from `state`"""
        res = []
        for r in it_rets:
            for path in paths_to(it_fn, r):
                def assumptions(path=path):
                    v = Valuer(env_for(state, consts, "pre"))
                    v.uninterp = True
                    pre_assume(v, path)
                    return v

                def build(v, path=path):
                    replay(v, path)
                    return P()
                for desc, p, v in all_cases(build, assumptions):
                    if isinstance(p, str) or v is None:
                        res.append((None, None, "%s: %s" % (desc, p)))
                        continue
                    nxt = []
                    okf = True
                    for f in flags:
                        fv = v.env.get(f)
                        if fv is NONE:
                            nxt.append(None)
                        elif isinstance(fv, P) and fv.is_const():
                            c = fv.const_value()
                            nxt.append(bool(c) if isinstance(dict(zip(flags, state))[f], bool) or c in (0, 1) and isinstance(init_state_types[f], bool) else int(c))
                        else:
                            okf = False
                    if not okf:
                        res.append((None, None, "flag not constant on a path"))
                        continue
                    post = {d: v.env.get(d) for d in data}
                    conds = ["%s%s" % ("" if pol else "not ", norm(t)) for t, pol in path.conds]
                    res.append((tuple(nxt), post, "; ".join(conds + desc)))
        return res
    init_state_types = {f: _const_of(init[f]) for f in flags}
    s0 = tuple(_const_of(init[f]) for f in flags)
    # initial data values
    v0 = Valuer(dict(base_env))
    v0.uninterp = True
    init_vals = {}
    for d in data:
        try:
            init_vals[d] = v0._p(init[d])
        except (Undecidable, NeedCase):
            init_vals[d] = None
    # constant propagation over the state graph
    cp = {s0: dict(init_vals)}
    for _ in range(8):
        changed = False
        for s in list(cp):
            for nxt, post, _c in steps(s, cp[s]):
                if nxt is None:
                    return "unsupported", _c
                cand = {}
                for d in data:
                    pv = post.get(d)
                    if isinstance(pv, P) and all(not sy.startswith("pre_") and sy not in targets for sy in pv.symbols()) and not (
                            pv.symbols() & {t for t in targets}):
                        cand[d] = pv
                    else:
                        cand[d] = None
                if nxt not in cp:
                    cp[nxt] = cand
                    changed = True
                else:
                    for d in data:
                        old = cp[nxt][d]
                        if old is not None and (cand[d] is None or cand[d] != old):
                            cp[nxt][d] = None
                            changed = True
        if not changed:
            break
        if len(cp) > 8:
            return "unsupported", "too many flag states"
    # states that can reach the site, with the claim as their invariant
    need = {}
    for s in cp:
        g = G_of(s, {d: None for d in data}, "pre")        # in terms of symbolic exit values
        if g:
            need[s] = g
    if not need:
        return "unsupported", "site not reachable after the loop"
    # base case
    if s0 in need:
        for desc, p in G_of(s0, init_vals, "pre"):
            if isinstance(p, str):
                return "unsupported", p
            if not p.is_zero():
                return "violation", "before the first iteration (state %s): value - wire = %s" % (dict(zip(flags, s0)), p)
    # inductive step
    n_steps = 0
    for s in cp:
        for nxt, post, case in steps(s, cp[s]):
            if nxt not in need:
                continue
            n_steps += 1
            # the claim in the target state, evaluated on the post values of this path
            sub = {}
            for d in data:
                if isinstance(post.get(d), P):
                    sub["pre_%s" % d] = post[d]
                else:
                    return "unsupported", "value of `%s` after a path is not a polynomial" % d
            # assumption: the claim held in the source state (when the source state can reach the site)
            hyp = []
            if s in need:
                for _d, gp in G_of(s, cp[s], "pre"):
                    if isinstance(gp, P) and not gp.is_zero():
                        hyp.append(gp)
            for desc, gp in need[nxt]:
                if isinstance(gp, str):
                    return "unsupported", gp
                g_post = gp.subst(sub)
                for h in hyp:
                    # solve the hypothesis for a symbol with a constant unit coefficient and eliminate it
                    for sy in sorted(h.symbols()):
                        ab = h.coeff_of(sy)
                        if ab and ab[0].is_const() and abs(ab[0].const_value()) == 1 and sy not in ab[1].symbols():
                            sol = ab[1] * P.const(-1) * P.const(int(1 / ab[0].const_value()))
                            g_post = g_post.subst({sy: sol})
                            break
                if not g_post.is_zero():
                    return "violation", "an iteration taking {%s} from state %s to %s breaks it: value - wire = %s" % (
                        case[:160], dict(zip(flags, s)), dict(zip(flags, nxt)), g_post)
    return "ok", "induction over %d flag state(s) %s, %d iteration path(s); flags %s, running totals %s" % (
        len(cp), sorted(str(dict(zip(flags, s))) for s in cp), n_steps, flags, data)
