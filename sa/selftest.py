"""Sensitivity self-test of the checkers (thorough tier).

Each frozen edit of mutants/table.py (and each kept seeded change under seeded/<id>/patch.diff) is applied, one
at a time, to a scratch copy of the repository outside /repo and /verif; the property's quick rules are run on
the copy.  `detect` edits must produce a violation that known_findings.txt does not list, `silent` twins must
not.  The self-test validates the *checker*; the verdict on the property always comes from /repo's working tree.
Results are recorded in the evidence (coverage.selftest) and printed; an edit whose anchor text is absent in
the current tree is skipped (the tree under test may itself have been changed).
"""
import json
import os
import shutil
import subprocess
import re
import sys
import tempfile
from concurrent.futures import ThreadPoolExecutor

VERIF = os.path.dirname(os.path.dirname(os.path.abspath(__file__)))


def _copy_tree(repo_root, dst):
    shutil.copytree(os.path.join(repo_root, "pysnark"), os.path.join(dst, "pysnark"),
                    ignore=shutil.ignore_patterns("__pycache__", "*.pyc"))


def _run_one(args):
    prop, repo_root, kind, item = args
    tmp = tempfile.mkdtemp(prefix="pysnark-sa-")
    try:
        _copy_tree(repo_root, tmp)
        if kind == "edit":
            p = os.path.join(tmp, item["file"])
            if not os.path.exists(p):
                return ("skipped", item, "file missing")
            with open(p, "rb") as fh:
                b = fh.read()
            old, new = item["old"].encode(), item["new"].encode()
            if b"\r\n" in b:
                old, new = old.replace(b"\n", b"\r\n"), new.replace(b"\n", b"\r\n")
            if b.count(old) < 1:
                return ("skipped", item, "anchor text not present in this tree")
            with open(p, "wb") as fh:
                fh.write(b.replace(old, new, 1))
        elif kind == "meta":
            # a purely syntactic, behaviour-preserving rewrite of every file (sa/metamorph.py): the rules must not notice
            for nm in item["transform"].split("+"):
                r = subprocess.run([sys.executable, os.path.join(VERIF, "sa", "metamorph.py"), nm, tmp], capture_output=True, text=True)
                if r.returncode != 0:
                    return ("skipped", item, "transform failed: " + (r.stderr or r.stdout)[-200:])
        else:
            # only the package is copied: sections of the patch that touch other files (README.md ...) are left out
            with open(item["patch"], newline="") as fh:
                sections = re.split(r"(?m)^(?=diff --git )", fh.read())
            keep = [s_ for s_ in sections if not s_.startswith("diff --git ") or re.match(r"diff --git a/pysnark/", s_)]
            r = subprocess.run(["patch", "-p1", "-s", "-d", tmp], input="".join(keep), capture_output=True, text=True)
            if r.returncode != 0:
                return ("skipped", item, "patch does not apply to this tree")
        env = dict(os.environ, PYSNARK_SA_EVIDENCE_DIR=os.path.join(tmp, "ev"), VERIF_TIER="quick")
        r = subprocess.run([sys.executable, os.path.join(VERIF, "check.py"), prop, "--tier", "quick", "--repo", tmp],
                           capture_output=True, text=True, env=env)
        detected = r.returncode == 1 and "VIOLATION property=%s" % prop in r.stdout
        first = ""
        for ln in r.stdout.splitlines():
            if ln.strip().startswith("rule="):
                first = ln.strip()[:200]
                break
        want = item.get("expect", "detect")
        if r.returncode == 2:
            return ("error", item, (r.stdout + r.stderr)[-300:])
        if want == "detect":
            return ("ok" if detected else "MISSED", item, first)
        return ("ok" if not detected else "FALSE-ALARM", item, first)
    finally:
        shutil.rmtree(tmp, ignore_errors=True)


def collect(prop):
    sys.path.insert(0, VERIF)
    from mutants.table import M
    items = [("edit", m) for m in M if m["prop"] == prop]
    sd = os.path.join(VERIF, "seeded")
    if os.path.isdir(sd):
        for d in sorted(os.listdir(sd)):
            meta = os.path.join(sd, d, "meta.json")
            patch = os.path.join(sd, d, "patch.diff")
            if os.path.exists(meta) and os.path.exists(patch):
                try:
                    with open(meta) as fh:
                        md = json.load(fh)
                except Exception:
                    continue
                if prop in md.get("detected_by", []) or (md.get("property") == prop and md.get("expect_detect", True)):
                    items.append(("patch", {"patch": patch, "expect": "detect", "note": "seeded/%s" % d, "file": d}))
    vd = os.path.join(VERIF, "variants")
    if os.path.isdir(vd):
        # defects planted into a property-preserving redesign (twins/P-*): <props joined by +>__<name>.patch.diff, full diff against HEAD
        for f in sorted(os.listdir(vd)):
            if f.endswith(".patch.diff") and prop in f.split("__")[0].split("+"):
                items.append(("patch", {"patch": os.path.join(vd, f), "expect": "detect", "note": "variants/%s" % f, "file": f}))
    td = os.path.join(VERIF, "twins")
    if os.path.isdir(td):
        for f in sorted(os.listdir(td)):
            if f.endswith(".patch.diff"):
                items.append(("patch", {"patch": os.path.join(td, f), "expect": "silent", "note": "behaviour-preserving refactoring twins/%s" % f,
                                        "file": f}))
    for t in ("rename", "rettemp", "iftemp", "ifexp", "argtemp", "compr2loop", "cmpflip", "swapif", "guard", "unelse",
              "andsplit", "andmerge", "isnot", "elsewrap", "tupassign",
              "rename+rettemp+iftemp+ifexp+argtemp+compr2loop+cmpflip+swapif+guard"):
        items.append(("meta", {"transform": t, "expect": "silent", "file": "metamorph:" + t,
                               "note": "whole-tree syntactic rewrite sa/metamorph.py " + t}))
    return items


def run(prop, repo_root, seed=0, evidence_dir=None):
    items = collect(prop)
    if not items:
        print("selftest %s: no frozen edits" % prop)
        return 0
    order = list(items)
    if seed:
        import random
        random.Random(seed).shuffle(order)
    with ThreadPoolExecutor(max_workers=min(16, len(order))) as ex:
        results = list(ex.map(_run_one, [(prop, repo_root, k, it) for k, it in order]))
    counts = {}
    rows = []
    for status, item, info in results:
        counts[status] = counts.get(status, 0) + 1
        rows.append({"status": status, "expect": item.get("expect", "detect"), "where": item.get("file"),
                     "note": item.get("note", ""), "edit": (item.get("new") or item.get("patch") or item.get("transform") or "")[:80], "report": info})
        if status in ("MISSED", "FALSE-ALARM", "error"):
            print("SELFTEST-%s property=%s %s: %s [%s]" % (status, prop, item.get("file"), (item.get("new") or item.get("patch") or item.get("transform", ""))[:70].replace("\n", "\\n"), info))
    print("selftest %s: %s" % (prop, ", ".join("%d %s" % (v, k) for k, v in sorted(counts.items()))))
    # append to the evidence written by the main run
    ev_dir = evidence_dir or os.environ.get("PYSNARK_SA_EVIDENCE_DIR") or os.path.join(VERIF, "evidence")
    evp = os.path.join(ev_dir, prop + ".json")
    try:
        with open(evp) as fh:
            ev = json.load(fh)
        ev["coverage"]["selftest"] = {"edits": len(rows), "counts": counts, "rows": rows,
                                      "rule": "each edit applied to a scratch copy; detect-edits must be reported, twins must not"}
        with open(evp, "w") as fh:
            json.dump(ev, fh, indent=1, sort_keys=True)
    except Exception:
        pass
    bad = counts.get("MISSED", 0) + counts.get("FALSE-ALARM", 0) + counts.get("error", 0)
    return 1 if bad else 0
