"""Expression evaluation for the abstract interpreter (names, attributes, containers,
comprehensions, isinstance narrowing).  Calls and operator dispatch live in abscall."""
import ast

from .efftree import END, RAISE, ev, alt, loop, concat, has_events
from .kinds import (shape_tainted, CONTAINERS, V, Closure, NOCONST, INTLIKE, UNK, CLASS_KIND, KIND_CLASS, BUILTIN_TYPE_KIND,
                    join, unknown, const, listof)
from .loader import norm
from .abscall import CallMixin

BUILTINS = {"len", "int", "float", "bool", "str", "abs", "isinstance", "callable", "range", "zip",
            "enumerate", "reversed", "list", "tuple", "map", "sum", "min", "max", "any", "all", "print",
            "sorted", "bytes", "open", "type", "repr", "hasattr", "getattr", "setattr", "super", "dict",
            "set", "divmod", "pow", "iter", "next", "filter", "round", "hex", "bin", "id", "classmethod",
            "staticmethod", "get_ipython", "xrange", "issubclass", "frozenset", "ord", "chr", "format",
            "input", "vars", "dir", "globals", "locals", "object", "property", "exit", "quit"}
EXC_NAMES = {"ValueError", "TypeError", "RuntimeError", "AssertionError", "IndexError", "KeyError",
             "NotImplementedError", "IOError", "Exception", "StopIteration", "ZeroDivisionError",
             "ImportError", "AttributeError", "OSError"}

BACKENDMOD = ("backendmod", "pysnark.runtime.backend")


class ExprMixin(CallMixin):

    # ------------------------------------------------------------------ names
    def lookup(self, name, fr, node=None):
        if fr.fi is None and fr_is_runtime_backend(fr.module, name):
            return V("mod", fn=BACKENDMOD)
        if name in fr.env and not (name in fr.globals):
            return fr.env[name]
        ce = fr.closure_env
        f = fr.fi
        # closure chain: captured environments of enclosing functions
        if ce is not None and name in ce:
            return ce[name]
        env = ce
        while env is not None and "__parent_env__" in env:
            env = env["__parent_env__"]
            if name in env:
                return env[name]
        # function-local imports (own and enclosing)
        g = f
        while g is not None:
            if name in g.local_imports:
                return self.binding_value(g.module, g.local_imports[name])
            g = g.parent
        v = self.module_lookup(fr.module, name)
        if fr.fi is not None and v.const is not NOCONST and v.fn is None and v.kind != frozenset(["NotImpl"]):
            # module globals are mutable configuration (bitlength, autoprove, guard ...): no constant folding
            v = V(v.kind, v.taint, NOCONST, None, v.elem, None, v.items)
        return v

    def module_lookup(self, m, name, _depth=0):
        if name == "NotImplemented":
            return V("NotImpl", const=NotImplemented)
        if fr_is_runtime_backend(m, name):
            return V("mod", fn=BACKENDMOD)
        v = self.global_value(m, name)
        if v is not None:
            return v
        b = m.bindings.get(name)
        if b is not None:
            return self.binding_value(m, b, _depth)
        if name in BUILTINS:
            return V("func", fn=("builtin", name))
        if name in EXC_NAMES:
            return V("cls", fn=("builtin", "exc:" + name))
        if name in BUILTIN_TYPE_KIND:
            return V("cls", fn=("builtin", name))
        if name in ("True", "False", "None"):
            return const({"True": True, "False": False, "None": None}[name])
        return unknown()

    def binding_value(self, m, b, _depth=0):
        if _depth > 10:
            return unknown()
        k = b[0]
        if k == "def":
            return V("func", fn=Closure(b[1], None))
        if k == "class":
            return V("cls", fn=("class", b[1]))
        if k == "module":
            return V("mod", fn=("module", b[1]))
        if k == "attr":
            sm = self.repo.modules.get(b[1])
            if sm is None:
                return V("ext", fn=("external", b[1] + "." + b[2]))
            if fr_is_runtime_backend(sm, b[2]):
                return V("mod", fn=BACKENDMOD)
            return self.module_lookup(sm, b[2], _depth + 1)
        if k == "value":
            v = self.global_value(m, target_name_of(b, m))
            return v if v is not None else unknown()
        return unknown()

    # ------------------------------------------------------------------ eval
    def eval(self, n, fr):
        m = getattr(self, "ex_" + type(n).__name__, None)
        if m is None:
            return self.ex_generic(n, fr)
        return m(n, fr)

    def ex_generic(self, n, fr):
        tree = END
        taint = False
        for c in ast.iter_child_nodes(n):
            if isinstance(c, ast.expr):
                t, v = self.eval(c, fr)
                tree = concat(tree, t)
                taint = taint or v.taint
        return tree, unknown(taint)

    def ex_Constant(self, n, fr):
        return END, const(n.value)

    def ex_Name(self, n, fr):
        return END, self.lookup(n.id, fr, n)

    def ex_JoinedStr(self, n, fr):
        t, v = self.ex_generic(n, fr)
        return t, V("str", v.taint)

    def ex_FormattedValue(self, n, fr):
        t, v = self.eval(n.value, fr)
        return t, V("str", v.taint)

    def ex_Lambda(self, n, fr):
        fi = fr.module.lambdas.get(id(n))
        if fi is None:
            return END, V("func")
        return END, V("func", fn=Closure(fi, self.capture(fr)))

    def capture(self, fr):
        if fr.fi is None:
            return None
        env = fr.env
        if fr.closure_env is not None and "__parent_env__" not in env:
            env["__parent_env__"] = fr.closure_env
        return env

    def ex_Starred(self, n, fr):
        return self.eval(n.value, fr)

    def ex_NamedExpr(self, n, fr):
        t, v = self.eval(n.value, fr)
        self.bind(n.target, v, fr, None)
        return t, v

    def ex_List(self, n, fr, kind="list"):
        tree = END
        el = None
        items = []
        for e in n.elts:
            t, v = self.eval(e, fr)
            tree = concat(tree, t)
            if isinstance(e, ast.Starred):
                v = v.elem if v.elem is not None else unknown(v.taint)
                items = None
            elif items is not None:
                items.append(v)
            el = join(el, v)
        r = listof(el if el is not None else V("never"), kind)
        r.items = items
        return tree, r

    def ex_Tuple(self, n, fr):
        return self.ex_List(n, fr, "tuple")

    def ex_Set(self, n, fr):
        return self.ex_List(n, fr, "set")

    def ex_Dict(self, n, fr):
        tree = END
        el = None
        for k, v_ in zip(n.keys, n.values):
            if k is not None:
                t, _ = self.eval(k, fr)
                tree = concat(tree, t)
            t, v = self.eval(v_, fr)
            tree = concat(tree, t)
            el = join(el, v)
        return tree, V("dict", elem=el)

    def ex_IfExp(self, n, fr):
        t, c = self.eval(n.test, fr)
        env_t, env_f = self.narrow(n.test, fr)
        res = []
        for polarity, sub, nenv in ((True, n.body, env_t), (False, n.orelse, env_f)):
            if c.const is not NOCONST and not c.taint and bool(c.const) != polarity:
                res.append(None)
                continue
            saved = fr.env
            fr.env = nenv
            fr.conds.append((n.test, polarity, c.taint))
            try:
                res.append(self.eval(sub, fr))
            finally:
                fr.conds.pop()
                fr.env = saved
        a, b = res
        if a is None:
            return concat(t, b[0]), b[1]
        if b is None:
            return concat(t, a[0]), a[1]
        tag = (fr.fq, n.lineno, n.col_offset, norm(n.test))
        if c.taint:
            self.record_tainted_alt(fr, n, "ifexp", n.test, tag)
        v = join(a[1], b[1])
        if c.taint and v.kind <= (INTLIKE | frozenset(["str", "none"])):
            v = v.with_taint(True)
        if c.taint and fr.fi is not None and fr.base:
            from .absint import _wireish
            if _wireish(a[1]) or _wireish(b[1]):
                nm = "<conditional expression at line %d>" % n.lineno
                fr.conds.append((n.test, True, True))
                self.record_wire_choice(fr, "assign", nm, n.body, n.body)
                fr.conds.pop()
                fr.conds.append((n.test, False, True))
                self.record_wire_choice(fr, "assign", nm, n.orelse, n.orelse)
                fr.conds.pop()
        return concat(t, alt(tag, c.taint, a[0], b[0])), v

    def ex_BoolOp(self, n, fr):
        # a and b and c :  evaluate left to right with short circuit
        is_and = isinstance(n.op, ast.And)
        t0, v0 = self.eval(n.values[0], fr)
        res = v0
        trees = [(t0, v0, n.values[0])]
        saved = fr.env
        try:
            for sub in n.values[1:]:
                prev = trees[-1]
                if prev[1].const is not NOCONST and not prev[1].taint:
                    if bool(prev[1].const) != is_and:
                        break  # short-circuits here for sure
                env_t, env_f = self.narrow(prev[2], fr)
                fr.env = env_t if is_and else env_f
                fr.conds.append((prev[2], is_and, prev[1].taint))
                try:
                    t, v = self.eval(sub, fr)
                finally:
                    fr.conds.pop()
                trees.append((t, v, sub))
        finally:
            fr.env = saved
        # build nested alts from the right
        tree = END
        for i in range(len(trees) - 1, 0, -1):
            t, v, sub = trees[i]
            prev = trees[i - 1]
            rest = concat(t, tree)
            tag = (fr.fq, prev[2].lineno, prev[2].col_offset, ("and " if is_and else "or ") + norm(prev[2]))
            if prev[1].taint and rest != END:
                self.record_tainted_alt(fr, prev[2], "boolop", prev[2], tag)
            tree = alt(tag, prev[1].taint, rest, END) if is_and else alt(tag, prev[1].taint, END, rest)
        tree = concat(trees[0][0], tree)
        out = None
        taint = False
        for t, v, sub in trees:
            out = join(out, v)
            taint = taint or v.taint
        c = NOCONST
        if all(v.const is not NOCONST for _, v, _ in trees) and len(trees) == len(n.values):
            vals = [v.const for _, v, _ in trees]
            r = vals[0]
            for x in vals[1:]:
                r = (r and x) if is_and else (r or x)
            c = r
        elif is_and and any(v.const is not NOCONST and not v.taint and not v.const for _, v, _ in trees):
            c = False
        elif (not is_and) and any(v.const is not NOCONST and not v.taint and v.const for _, v, _ in trees):
            c = True
        return tree, V(out.kind, taint, c, None, out.elem)

    # ------------------------------------------------------------------ attribute / subscript
    def ex_Attribute(self, n, fr):
        t, bv = self.eval(n.value, fr)
        return t, self.getattr_value(bv, n.attr, fr, n)

    def getattr_value(self, bv, attr, fr, n=None):
        fn = bv.fn
        if fn is not None and not isinstance(fn, Closure):
            tag = fn[0]
            if tag == "backendmod":
                self.backend_attrs.setdefault(attr, []).append((fr.module, fr.fi, n))
                return V("func", fn=("backend", attr))
            if tag == "module":
                name = fn[1]
                sub = name + "." + attr
                if sub in self.repo.modules:
                    return V("mod", fn=("module", sub))
                m = self.repo.modules.get(name)
                if m is not None:
                    if fr_is_runtime_backend(m, attr):
                        return V("mod", fn=BACKENDMOD)
                    return self.module_lookup(m, attr)
                if name == "sys" and attr == "modules":
                    return V("dict", fn=("sysmodules",))
                return V("ext", fn=("external", name + "." + attr))
            if tag == "external":
                return V("ext", fn=("external", fn[1] + "." + attr))
            if tag == "class":
                ci = fn[1]
                k = (ci.fq, attr)
                if k in self.class_attr:
                    return self.class_attr[k]
                mi = self.repo.lookup_method(ci, attr)
                if mi is not None:
                    return V("func", fn=Closure(mi, None, bv if mi.is_classmethod else None))
                if attr in ci.attrs:
                    self.module_env(ci.module)
                    if k in self.class_attr:
                        return self.class_attr[k]
                    return self.eval_default(next(iter(ci.methods.values()), None) or _FakeFi(ci.module),
                                             ci.attrs[attr])
                # attributes set on the class from module level (LinComb.ONE = ...)
                self.module_env(ci.module)
                if k in self.class_attr:
                    return self.class_attr[k]
                return unknown()
            if tag == "instance":
                ci = fn[1]
                mi = self.repo.lookup_method(ci, attr)
                if mi is not None:
                    return V("func", fn=Closure(mi, None, bv))
                return unknown()
            if tag == "super":
                ci, selfv = fn[1], fn[2]
                for b in self.repo.class_bases(ci):
                    mi = self.repo.lookup_method(b, attr)
                    if mi is not None:
                        return V("func", fn=Closure(mi, None, selfv))
                return unknown()
        if attr == "value" and (bv.kind & frozenset(["LC", "?", "obj"])):
            if bv.kind & frozenset(["LC", "?"]):
                return V("int", True)
        if attr == "lc":
            ks = set()
            for k in bv.kind:
                if k == "LC":
                    ks.add("BLC")
                elif k in ("LCB", "LCF"):
                    ks.add("LC")
                else:
                    ks.add("?")
            return V(frozenset(ks))
        if attr == "arr" and bv.may_be("Array"):
            return listof(bv.elem if bv.elem is not None else unknown())
        # bound methods on values of known class kind
        cands = []
        for k in bv.kind:
            if k in KIND_CLASS:
                mod, cn = KIND_CLASS[k]
                m = self.repo.modules.get(mod)
                ci = m.classes.get(cn) if m else None
                mi = self.repo.lookup_method(ci, attr) if ci else None
                if mi is not None:
                    cands.append((k, mi))
        if cands and len(cands) == len(bv.kind):
            if len(cands) == 1:
                k, mi = cands[0]
                return V("func", fn=Closure(mi, None, V(k, bv.taint, elem=bv.elem)))
            return V("func", fn=("multi", tuple((k, mi) for k, mi in cands), bv))
        if bv.kind <= INTLIKE and attr == "bit_length":
            return V("func", fn=("builtin", "int.bit_length"), taint=bv.taint)
        if bv.kind <= frozenset(["list", "tuple", "dict", "set", "str"]):
            return V("func", fn=("builtin", "container." + attr), taint=bv.taint, elem=bv.elem)
        if "?" in bv.kind or "obj" in bv.kind:
            return V("func", fn=("method?", attr, bv), taint=False)
        return unknown(bv.taint)

    def ex_Subscript(self, n, fr):
        t, bv = self.eval(n.value, fr)
        if bv.fn is not None and not isinstance(bv.fn, Closure) and bv.fn[0] == "sysmodules":
            if isinstance(n.slice, ast.Constant) and isinstance(n.slice.value, str):
                name = n.slice.value
                if name in self.repo.modules:
                    return t, V("mod", fn=("module", name))
            t2, _ = self.eval(n.slice, fr)
            return concat(t, t2), V("mod", fn=("external", "sys.modules[]"))
        if isinstance(n.slice, ast.Slice):
            taint = False
            for part in (n.slice.lower, n.slice.upper, n.slice.step):
                if part is not None:
                    t2, v2 = self.eval(part, fr)
                    t = concat(t, t2)
                    taint = taint or v2.taint
            if bv.kind <= frozenset(["list", "tuple", "str"]):
                return t, V(bv.kind, bv.taint or taint, NOCONST, None, bv.elem)
            return t, unknown(bv.taint or taint)
        t2, iv = self.eval(n.slice, fr)
        t = concat(t, t2)
        if "Array" in bv.kind or "?" in bv.kind:
            # Array.__getitem__ with a wire index emits; dispatch like an operator
            if bv.only("Array"):
                tt, v = self.dispatch_method(bv, "__getitem__", [iv], fr, n)
                return concat(t, tt), v
        if bv.items is not None and iv.const is not NOCONST and isinstance(iv.const, int) \
                and not isinstance(iv.const, bool) and -len(bv.items) <= iv.const < len(bv.items):
            return t, bv.items[iv.const]
        if bv.elem is not None:
            e = bv.elem
            # value-dependent selection of a plain number
            if iv.taint and e.kind <= INTLIKE:
                e = e.with_taint(True)
            return t, e
        return t, unknown(bv.taint and ("?" not in bv.kind))

    # ------------------------------------------------------------------ comprehensions
    def _comp(self, n, elts, fr):
        saved = fr.env
        fr.env = dict(fr.env)
        tree_pre = END
        layers = []
        npushed = 0
        try:
            for gi, g in enumerate(n.generators):
                t, iv = self.eval(g.iter, fr)
                if gi == 0:
                    tree_pre = t
                    t = END
                elem = iv.elem if iv.elem is not None else unknown(iv.taint)
                self.bind(g.target, elem, fr, None)
                conds = []
                for c in g.ifs:
                    tc, vc = self.eval(c, fr)
                    conds.append((tc, vc, c))
                    fr.conds.append((c, True, vc.taint))
                    npushed += 1
                layers.append((g, t, iv, conds))
            vals = []
            body = END
            for e in elts:
                t, v = self.eval(e, fr)
                body = concat(body, t)
                vals.append(v)
        finally:
            for _ in range(npushed):
                fr.conds.pop()
            fr.env = saved
        shape_taint = False
        for g, t, iv, conds in reversed(layers):
            for tc, vc, c in reversed(conds):
                tag = (fr.fq, c.lineno, c.col_offset, "comp-if " + norm(c))
                if vc.taint:
                    shape_taint = True
                    if body != END:
                        self.record_tainted_alt(fr, c, "compif", c, tag)
                body = concat(tc, alt(tag, vc.taint, body, END))
            if shape_tainted(iv):
                shape_taint = True
                if has_events(body):
                    self.record_tainted_loop(fr, g.iter, g.iter, body)
            elif has_events(body):
                self.public_loops[(fr.fq, norm(g.iter))] = (fr.module, g.iter)
            body = concat(t, loop(norm(g.iter), body))
        return concat(tree_pre, body), vals, shape_taint

    def ex_ListComp(self, n, fr):
        t, vals, st = self._comp(n, [n.elt], fr)
        r = listof(vals[0])
        r.taint = st
        return t, r

    ex_GeneratorExp = ex_ListComp
    ex_SetComp = ex_ListComp

    def ex_DictComp(self, n, fr):
        t, vals, st = self._comp(n, [n.key, n.value], fr)
        return t, V("dict", st, elem=vals[1])

    # ------------------------------------------------------------------ narrowing
    def type_kinds(self, node, fr):
        """Kinds denoted by the second argument of isinstance()."""
        if isinstance(node, ast.Tuple):
            out = set()
            for e in node.elts:
                k = self.type_kinds(e, fr)
                if k is None:
                    return None
                out |= k
            return out
        try:
            _, v = self.eval(node, fr)
        except Exception:
            return None
        fn = v.fn
        if fn is None or isinstance(fn, Closure):
            return None
        if fn[0] == "class":
            ci = fn[1]
            k = CLASS_KIND.get(ci.fq)
            if k is None:
                return {"obj:" + ci.fq}
            return {k}
        if fn[0] == "builtin" and fn[1] in BUILTIN_TYPE_KIND:
            k = BUILTIN_TYPE_KIND[fn[1]]
            return {"int", "bool"} if k == "int" else {k}
        return None

    def narrow(self, test, fr):
        """(env if test is true, env if test is false)"""
        env = fr.env
        pos, neg = self._narrow(test, fr)
        return self._apply(env, pos), self._apply(env, neg)

    @staticmethod
    def _apply(env, lst):
        if not lst:
            return dict(env)
        e = dict(env)
        for name, mode, kinds in lst:
            v = e.get(name)
            if v is None:
                if mode == "only":
                    e[name] = V(frozenset(kinds))
                continue
            if mode == "only":
                if "?" in v.kind:
                    nk = frozenset(kinds)
                    if nk <= CONTAINERS and v.taint:
                        # taint of a value of unknown kind is value taint, not shape taint
                        e[name] = V(nk, False, v.const, v.fn, v.elem)
                        continue
                else:
                    nk = v.kind & frozenset(kinds)
                    if not nk:
                        nk = frozenset(kinds)
                tt = v.taint and not (nk <= CONTAINERS and not v.kind <= CONTAINERS)
                e[name] = V(nk, tt, v.const, v.fn, v.elem, None, v.items)
            else:
                if "?" in v.kind:
                    continue
                nk = v.kind - frozenset(kinds)
                if nk:
                    e[name] = V(nk, v.taint, v.const, v.fn, v.elem)
        return e

    def _narrow(self, test, fr):
        """returns (facts if true, facts if false); fact = (name, 'only'|'not', kinds)"""
        if isinstance(test, ast.UnaryOp) and isinstance(test.op, ast.Not):
            p, q = self._narrow(test.operand, fr)
            return q, p
        if isinstance(test, ast.BoolOp):
            parts = [self._narrow(v, fr) for v in test.values]
            if isinstance(test.op, ast.And):
                pos = [f for p, _ in parts for f in p]
                neg = parts[0][1] if len(parts) == 1 else []
                return pos, neg
            # or: false branch knows every disjunct is false; true branch: union if same name
            neg = [f for _, q in parts for f in q]
            pos = []
            names = [tuple(sorted({f[0] for f in p if f[1] == "only"})) for p, _ in parts]
            if names and all(len(x) == 1 for x in names) and len(set(names)) == 1:
                ks = set()
                for p, _ in parts:
                    for f in p:
                        if f[1] == "only":
                            ks |= set(f[2])
                pos = [(names[0][0], "only", ks)]
            return pos, neg
        if isinstance(test, ast.Call) and isinstance(test.func, ast.Name) and test.args \
                and isinstance(test.args[0], ast.Name):
            name = test.args[0].id
            if test.func.id == "isinstance" and len(test.args) == 2:
                ks = self.type_kinds(test.args[1], fr)
                if ks:
                    return [(name, "only", ks)], [(name, "not", ks)]
            _, fv = self.eval(test.func, fr)
            if isinstance(fv.fn, Closure) and fv.fn.fi.name == "is_base_value":
                ks = {"int", "bool"}
                return [(name, "only", ks)], [(name, "not", ks)]
            if test.func.id == "callable":
                return [(name, "only", {"func"})], [(name, "not", {"func"})]
        if isinstance(test, ast.Compare) and len(test.ops) == 1 and isinstance(test.left, ast.Name) \
                and isinstance(test.comparators[0], ast.Constant) and test.comparators[0].value is None:
            name = test.left.id
            if isinstance(test.ops[0], ast.Is):
                return [(name, "only", {"none"})], [(name, "not", {"none"})]
            if isinstance(test.ops[0], ast.IsNot):
                return [(name, "not", {"none"})], [(name, "only", {"none"})]
        return [], []


class _FakeFi:
    def __init__(self, module):
        self.module = module


def fr_is_runtime_backend(m, name):
    return m.name == "pysnark.runtime" and name == "backend"


def target_name_of(b, m):
    for k, v in m.bindings.items():
        if v is b:
            return k
    return ""
