"""Static-analysis engine for the pysnark properties C01-C20.

Nothing under /repo is imported or executed: every module here works on the
`ast` of the files found under <repo>/pysnark at the time of the run.
"""
