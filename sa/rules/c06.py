"""C06 - the constraint system does not depend on the values processed.

R-C06-1  every branch whose test depends on a `.value` (If / IfExp / and-or / comprehension-if)
         has arms with equal emission summaries (or the deviating arm raises);
R-C06-2  no emitting loop / comprehension iterates over a value-dependent space;
R-C06-4  no value-dependent number flows into backend linear-combination arithmetic
         (coefficients and wire expressions are program constants).
(R-C06-3, the classification of structural tests - `is None`, isinstance, callable, len -
 is built into the taint engine: those constructs are not taint sources / propagators.)
"""
from ..absint import Interp
from ..efftree import nf, eq_mod_raise, render, has_events, always_raises
from ..loader import norm

VALUE_MODULES = ("pysnark.runtime", "pysnark.boolean", "pysnark.fixedpoint", "pysnark.branching",
                 "pysnark.array", "pysnark.linalg", "pysnark.pack", "pysnark.poseidon_hash",
                 "pysnark.ggh_hash")

# one-symbol suppressions, each with its reason
SUPPRESS = {
    "pysnark.runtime:if_guard._if_guard":
        "documented printing aid (igprint): runs a caller-supplied callable only when the guard is true; "
        "the thorough tier checks every in-repo application passes `print`",
}


def strip_weak(s):
    """Drop `op?` events (operators on operands of unknown kind: may or may not emit)."""
    out = ()
    for it in s:
        if it[0] == "ev" and isinstance(it[1], tuple) and it[1][0] == "op?":
            continue
        if it[0] == "alt":
            a, b = strip_weak(it[3]), strip_weak(it[4])
            out = out + ((a if a == b else (("alt", it[1], it[2], a, b),)))
        elif it[0] == "loop":
            bd = strip_weak(it[2])
            if bd:
                out = out + (("loop", it[1], bd),)
        else:
            out = out + (it,)
    return out


def get_interp(repo):
    it = getattr(repo, "_interp", None)
    if it is None:
        it = Interp(repo)
        it.run_all()
        repo._interp = it
    return it


def relevant(modname, modules):
    return modules is None or modname in modules


def eval_tainted_alts(repo, rule, modules=None, keyprefix=""):
    it = get_interp(repo)
    seen = {}
    for key, f in sorted(it.tainted_alts.items(), key=lambda kv: (kv[1]["fq"], kv[1]["tag"][1:3], str(kv[0]))):
        m = f["module"]
        if not relevant(m.name, modules):
            continue
        a, b = nf(f["a"]), nf(f["b"])
        strict = eq_mod_raise(a, b)
        weak = strict or eq_mod_raise(strip_weak(a), strip_weak(b))
        tag = f["tag"]
        ident = (f["fq"], tag[3], f["kind"])
        status = "ok" if strict else ("undecided" if weak else "violation")
        prev = seen.get(ident)
        rank = {"ok": 0, "undecided": 1, "violation": 2}
        if prev is None or rank[status] > rank[prev[0]]:
            seen[ident] = (status, f, a, b)
    for ident, (status, f, a, b) in sorted(seen.items()):
        fq, test, kind = ident
        where = "%s:%s" % (f["module"].relpath, f["node"].lineno)
        term = "test `%s`: true-arm [%s]  false-arm [%s]" % (test, render(a)[:300] or "ε", render(b)[:300] or "ε")
        if fq in SUPPRESS:
            rule.note(where, fq, term, "suppressed: " + SUPPRESS[fq])
            continue
        if status == "ok":
            rule.ok(where, fq, term, "raise-only arm" if (always_raises(a) or always_raises(b)) else "arms emit equally")
        elif status == "undecided":
            rule.undecided(where, fq, term, "arms differ only in operators on operands of unknown kind")
        else:
            rule.violation(where, fq, term,
                           "constraint/witness emission depends on a value: the arms of `%s` emit differently" % test,
                           keyprefix + "%s/%s/%s" % (fq, kind, test))
    return it


def eval_tainted_loops(repo, rule, modules=None, keyprefix=""):
    it = get_interp(repo)
    seen = set()
    for key, f in sorted(it.tainted_loops.items(), key=lambda kv: (kv[1]["fq"], kv[0][1:])):
        if not relevant(f["module"].name, modules):
            continue
        ident = (f["fq"], norm(f["iter"]))
        if ident in seen:
            continue
        seen.add(ident)
        where = "%s:%s" % (f["module"].relpath, f["node"].lineno)
        body = render(nf(f["body"]))[:300]
        if not has_events(strip_weak(f["body"])):
            rule.undecided(where, f["fq"], "iteration space `%s`  body [%s]" % (ident[1], body),
                           "value-dependent iteration space; body only applies operators of unknown kind")
            continue
        rule.violation(where, f["fq"], "iteration space `%s`  body [%s]" % (ident[1], body),
                       "an emitting loop/comprehension iterates over a value-dependent space",
                       keyprefix + "%s/loop/%s" % ident)
    return seen


def count_public_loops(repo, rule, modules=None):
    """Positive instances of R-C06-2: emitting loops whose iteration space is public."""
    it = get_interp(repo)
    out = {}
    for (fq, itx), (m, node) in it.public_loops.items():
        if relevant(m.name, modules) and has_events(()) is False:
            out[(fq, itx)] = "%s:%s" % (m.relpath, node.lineno)
    return out


def check(repo, rep, tier):
    rep.explanation = (
        "Non-interference analysis over the ast of the value-level modules: taint sources are reads of `.value` "
        "(and everything derived, including the module global behind ignore_errors()); an abstract interpreter "
        "(operand kinds x taint x emission-effect terms, context-sensitive, operators dispatched to the dunder "
        "Python would call) computes for every value-dependent branch the emission summary of both arms up to "
        "the exit of the function, and compares them modulo raising paths.")
    rep.trusted = ["CPython ast module", "operator dispatch model of sa/abscall.py (binary dunder, reflected fallback "
                   "on NotImplemented)", "emission atoms = calls of backend.privval / pubval / add_constraint"]
    rep.assumptions = [
        "client programs do not themselves branch on `.value` (the thorough tier lints /repo/examples for it)",
        "the backend modules allocate one variable per privval/pubval call and one constraint per add_constraint call",
    ]
    rep.not_decided = ["equality of coefficients beyond 'no value flows into an lc' (R-C06-4)",
                       "programs outside /repo"]
    mods = set(VALUE_MODULES)
    r1 = rep.rule("R-C06-1", "value-dependent branches emit equally on both arms (or raise)", floor=25)
    it = eval_tainted_alts(repo, r1, mods)
    r2 = rep.rule("R-C06-2", "emitting loops/comprehensions iterate over public spaces", floor=8)
    bad = eval_tainted_loops(repo, r2, mods)
    for (fq, itx), where in sorted(count_public_loops(repo, r2, mods).items()):
        if (fq, itx) not in bad:
            r2.ok(where, fq, "iteration space `%s`" % itx, "iteration space is not value-dependent")
    r4 = rep.rule("R-C06-4", "no value-dependent number reaches backend linear-combination arithmetic", floor=0)
    seen = set()
    for key, f in sorted(it.lc_taint.items(), key=lambda kv: str(kv[0])):
        if f["module"].name not in mods:
            continue
        ident = (f["fq"], norm(f["node"]))
        if ident in seen:
            continue
        seen.add(ident)
        where = "%s:%s" % (f["module"].relpath, f["node"].lineno)
        r4.violation(where, f["fq"], ident[1], f["msg"], "%s/%s" % ident)
    # positive instances: lc arithmetic sites with public scalars
    n_lc = 0
    import ast
    for m in repo.modules.values():
        if m.name not in mods:
            continue
        for fi in m.functions.values():
            for n in ast.walk(fi.node):
                if isinstance(n, ast.BinOp) and any(
                        isinstance(x, ast.Attribute) and x.attr == "lc" for x in (n.left, n.right)):
                    ident = (fi.fq, norm(n))
                    if ident not in seen:
                        n_lc += 1
                        r4.ok(fi.loc(n), fi.fq, ident[1], "scalar operand is not value-dependent")
    if tier == "thorough":
        r5 = rep.rule("R-C06-1c", "client lint: examples do not branch on .value (reported, never failing)", floor=0)
        for m in repo.clients.values():
            for n in ast.walk(m.tree):
                if isinstance(n, (ast.If, ast.While, ast.IfExp)):
                    for sub in ast.walk(n.test):
                        if isinstance(sub, ast.Attribute) and sub.attr == "value":
                            r5.note("%s:%s" % (m.relpath, n.lineno), m.name, norm(n.test),
                                    "client code branches on a secret value (client obligation)")
                            break
        # if_guard applications pass print
        r6 = rep.rule("R-C06-s", "every in-repo application of if_guard passes `print`", floor=1)
        for m in list(repo.modules.values()) + list(repo.clients.values()):
            for n in ast.walk(m.tree):
                if isinstance(n, ast.Call) and isinstance(n.func, (ast.Name, ast.Attribute)) and \
                        (getattr(n.func, "id", None) == "if_guard" or getattr(n.func, "attr", None) == "if_guard"):
                    arg = norm(n.args[0]) if n.args else ""
                    if arg == "print":
                        r6.ok("%s:%s" % (m.relpath, n.lineno), m.name, norm(n))
                    else:
                        r6.note("%s:%s" % (m.relpath, n.lineno), m.name, norm(n),
                                "if_guard applied to something other than print")
