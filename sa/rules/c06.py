"""C06 - the constraint system does not depend on the values processed.

R-C06-1  every branch whose test depends on a `.value` (If / IfExp / and-or / comprehension-if)
         has arms with equal emission summaries (or the deviating arm raises);
R-C06-2  no emitting loop / comprehension iterates over a value-dependent space;
R-C06-4  no value-dependent number flows into backend linear-combination arithmetic
         (coefficients and wire expressions are program constants);
R-C06-5  wire-valued results produced under value-dependent control have the same wire expression on every arm.
(R-C06-3, the classification of structural tests - `is None`, isinstance, callable, len -
 is built into the taint engine: those constructs are not taint sources / propagators.)
"""
import ast

from ..absint import Interp
from ..efftree import nf, eq_mod_raise, render, has_events, always_raises
from ..loader import norm

VALUE_MODULES = ("pysnark.runtime", "pysnark.boolean", "pysnark.fixedpoint", "pysnark.branching",
                 "pysnark.array", "pysnark.linalg", "pysnark.pack", "pysnark.poseidon_hash",
                 "pysnark.ggh_hash")

# one-symbol suppressions, each with its reason
SUPPRESS = {
    "pysnark.runtime:if_guard._if_guard":
        "documented printing aid (igprint): runs a caller-supplied callable only when the guard is true; "
        "the thorough tier checks every in-repo application passes `print`",
}


def strip_weak(s):
    """Drop `op?` events (operators on operands of unknown kind: may or may not emit)."""
    out = ()
    for it in s:
        if it[0] == "ev" and isinstance(it[1], tuple) and it[1][0] == "op?":
            continue
        if it[0] == "alt":
            a, b = strip_weak(it[3]), strip_weak(it[4])
            out = out + ((a if a == b else (("alt", it[1], it[2], a, b),)))
        elif it[0] == "loop":
            bd = strip_weak(it[2])
            if bd:
                out = out + (("loop", it[1], bd),)
        else:
            out = out + (it,)
    return out


def get_interp(repo):
    it = getattr(repo, "_interp", None)
    if it is None:
        it = Interp(repo)
        it.run_all()
        repo._interp = it
    return it


def relevant(modname, modules):
    return modules is None or modname in modules


def eval_tainted_alts(repo, rule, modules=None, keyprefix="", fq_filter=None):
    it = get_interp(repo)
    seen = {}
    for key, f in sorted(it.tainted_alts.items(), key=lambda kv: (kv[1]["fq"], kv[1]["tag"][1:3], str(kv[0]))):
        m = f["module"]
        if not relevant(m.name, modules):
            continue
        if fq_filter is not None and not fq_filter(f["fq"]):
            continue
        a, b = nf(f["a"]), nf(f["b"])
        strict = eq_mod_raise(a, b)
        weak = strict or eq_mod_raise(strip_weak(a), strip_weak(b))
        tag = f["tag"]
        ident = (f["fq"], tag[3], f["kind"])
        status = "ok" if strict else ("undecided" if weak else "violation")
        prev = seen.get(ident)
        rank = {"ok": 0, "undecided": 1, "violation": 2}
        if prev is None or rank[status] > rank[prev[0]]:
            seen[ident] = (status, f, a, b)
    for ident, (status, f, a, b) in sorted(seen.items()):
        fq, test, kind = ident
        where = "%s:%s" % (f["module"].relpath, f["node"].lineno)
        term = "test `%s`: true-arm [%s]  false-arm [%s]" % (test, render(a)[:300] or "ε", render(b)[:300] or "ε")
        if fq in SUPPRESS:
            rule.note(where, fq, term, "suppressed: " + SUPPRESS[fq])
            continue
        if status == "ok":
            rule.ok(where, fq, term, "raise-only arm" if (always_raises(a) or always_raises(b)) else "arms emit equally")
        elif status == "undecided":
            rule.undecided(where, fq, term, "arms differ only in operators on operands of unknown kind")
        else:
            rule.violation(where, fq, term,
                           "constraint/witness emission depends on a value: the arms of `%s` emit differently" % test,
                           keyprefix + "%s/%s/%s" % (fq, kind, test))
    return it


def eval_tainted_loops(repo, rule, modules=None, keyprefix=""):
    it = get_interp(repo)
    seen = set()
    for key, f in sorted(it.tainted_loops.items(), key=lambda kv: (kv[1]["fq"], kv[0][1:])):
        if not relevant(f["module"].name, modules):
            continue
        ident = (f["fq"], norm(f["iter"]))
        if ident in seen:
            continue
        seen.add(ident)
        where = "%s:%s" % (f["module"].relpath, f["node"].lineno)
        body = render(nf(f["body"]))[:300]
        if not has_events(strip_weak(f["body"])):
            rule.undecided(where, f["fq"], "iteration space `%s`  body [%s]" % (ident[1], body),
                           "value-dependent iteration space; body only applies operators of unknown kind")
            continue
        rule.violation(where, f["fq"], "iteration space `%s`  body [%s]" % (ident[1], body),
                       "an emitting loop/comprehension iterates over a value-dependent space",
                       keyprefix + "%s/loop/%s" % ident)
    return seen


def count_public_loops(repo, rule, modules=None):
    """Positive instances of R-C06-2: emitting loops whose iteration space is public."""
    it = get_interp(repo)
    out = {}
    for (fq, itx), (m, node) in it.public_loops.items():
        if relevant(m.name, modules) and has_events(()) is False:
            out[(fq, itx)] = "%s:%s" % (m.relpath, node.lineno)
    return out


ALLOC = ("PrivVal", "PubVal", "PrivValBool", "PubValBool", "PrivValFxp", "PubValFxp")
CTORS = ("PrivVal", "PubVal", "ConstVal", "PrivValBool", "PubValBool", "PrivValFxp", "PubValFxp", "LinComb", "LinCombBool",
         "LinCombFxp", "from_bits")


def skeleton(expr, tainted_names):
    """Source text of a wire-valued expression with every value-dependent *scalar* sub-expression replaced by `@`
    and comprehension variables alpha-renamed: two arms that build the same wire expression from different secret
    numbers have the same skeleton."""
    import ast as _ast
    import copy
    renames = {}

    def leaf_tainted(n):
        if isinstance(n, _ast.Attribute) and n.attr == "value":
            return True
        if isinstance(n, _ast.Name) and n.id in tainted_names:
            return True
        if isinstance(n, _ast.Call) and norm(n.func) in ("is_guard", "ignore_errors"):
            return True
        return False

    AT = _ast.Name(id="@", ctx=_ast.Load())

    def go(n):
        if leaf_tainted(n):
            return AT
        if isinstance(n, (_ast.ListComp, _ast.GeneratorExp)):
            n = copy.copy(n)
            gens = []
            for g in n.generators:
                g2 = copy.copy(g)
                for x in _ast.walk(g.target):
                    if isinstance(x, _ast.Name):
                        renames[x.id] = "_v%d" % len(renames)
                g2.iter = go(g.iter)
                g2.ifs = [go(i) for i in g.ifs]
                g2.target = go(g.target)
                gens.append(g2)
            n.generators = gens
            n.elt = go(n.elt)
            return n
        if isinstance(n, _ast.Name):
            return _ast.Name(id=renames.get(n.id, n.id), ctx=_ast.Load())
        if isinstance(n, _ast.Call):
            n2 = copy.copy(n)
            n2.args = [go(a) for a in n.args]
            n2.keywords = [_ast.keyword(arg=k.arg, value=go(k.value)) for k in n.keywords]
            n2.func = go(n.func) if not isinstance(n.func, _ast.Name) else n.func
            short = norm(n.func).split(".")[-1]
            if short in ALLOC and n.args:
                n2.args = [AT] + n2.args[1:]          # the hint of a fresh witness is a number, never part of the wire
            if short == "LinComb" and len(n.args) == 2:
                n2.args = [AT, n2.args[1]]            # LinComb(value, lc): only the lc is the wire expression
            if short not in CTORS and any(a is AT for a in n2.args) and short in ("int", "abs", "bool", "bit_length", "fieldinverse", "min", "max", "len"):
                return AT
            if isinstance(n.func, _ast.Attribute) and go(n.func.value) is AT:
                return AT
            return n2
        if isinstance(n, (_ast.BinOp, _ast.UnaryOp, _ast.Compare, _ast.IfExp, _ast.BoolOp, _ast.Subscript)):
            kids = [go(c) for c in _ast.iter_child_nodes(n) if isinstance(c, _ast.expr)]
            if any(k is AT for k in kids):
                return AT
            n2 = copy.copy(n)
            for fld, val in _ast.iter_fields(n):
                if isinstance(val, _ast.expr):
                    setattr(n2, fld, go(val))
                elif isinstance(val, list) and val and isinstance(val[0], _ast.expr):
                    setattr(n2, fld, [go(v) for v in val])
            return n2
        if isinstance(n, (_ast.Tuple, _ast.List)):
            n2 = copy.copy(n)
            n2.elts = [go(e) for e in n.elts]
            return n2
        if isinstance(n, _ast.Attribute):
            n2 = copy.copy(n)
            n2.value = go(n.value)
            return n2
        return n
    try:
        return norm(go(expr))
    except Exception:
        return norm(expr)


def eval_wire_choices(repo, rule, modules=None):
    """R-C06-5: wire-valued results produced under value-dependent control have the same wire expression
    (up to the secret numbers hinted into fresh witnesses) on every arm."""
    it = get_interp(repo)
    by_fn = {}
    for key, w in it.wire_choices.items():
        if not relevant(w["fi"].module.name, modules):
            continue
        by_fn.setdefault(w["fi"].fq, []).append(w)
    for fq, ws in sorted(by_fn.items()):
        fi = ws[0]["fi"]
        if fq in SUPPRESS:
            continue
        # resolve names returned to the skeleton of their (arm-local) assignment
        assigns = [w for w in ws if w["kind"] == "assign"]
        rets = [w for w in ws if w["kind"] == "ret"]
        groups = {}
        for w in assigns:
            if not w["gov"]:
                continue
            groups.setdefault((w["name"], 0, " / ".join(sorted({g[1] for g in w["gov"]}))[:0]), []).append(w)
        for (name, cid, _x), lst in sorted(groups.items(), key=lambda kv: kv[0][0]):
            test = " ; ".join(sorted({w["gov"][-1][1] for w in lst}))
            sk = {}
            for w in lst:
                sk.setdefault(skeleton(w["value"], w["tainted_names"]), []).append(w)
            where = fi.loc(lst[0]["stmt"])
            term = "`%s` under `%s`: %s" % (name, test, " | ".join(sorted(sk)))
            if len(sk) == 1:
                rule.ok(where, fq, term, "same wire expression on every arm")
            else:
                rule.violation(where, fq, term, "the wire expression bound to `%s` depends on a secret value (different arms build "
                               "different wires): later constraints mention different wires for different inputs" % name,
                               "%s/wire/%s/%s" % (fq, name, test))
        # a wire-valued name re-bound on ONE arm of a value-dependent test only (`if x.value < 0: x = x + n`): after the test the name
        # stands for different wire expressions for different inputs, and so do the constraints built from it
        by_if = {}
        for w in assigns:
            for tid, ttxt, pol in w["gov"]:
                by_if.setdefault((tid, ttxt), {}).setdefault(w["name"], set()).add(pol)
        ifs = {id(n.test): n for n in ast.walk(fi.node) if isinstance(n, ast.If)}
        from ..loader import exec_order as _eo
        order_ = _eo(fi.node)
        from ..flatten import _terminates as _term
        for (tid, ttxt), names_ in sorted(by_if.items(), key=lambda kv: kv[0][1]):
            node_ = ifs.get(tid)
            if node_ is None:
                continue
            for nm_, pols in sorted(names_.items()):
                if len(pols) != 1:
                    continue
                other_arm = node_.orelse if True in pols else node_.body
                if other_arm and _term(other_arm):
                    continue            # the other arm leaves: nothing downstream sees the old binding
                bound_before = nm_ in fi.params or any(
                    isinstance(x, ast.Name) and x.id == nm_ and not isinstance(x.ctx, ast.Load) and order_.get(id(x), 1 << 30) < order_.get(id(node_), 0)
                    for x in ast.walk(fi.node))
                used_after = any(isinstance(x, ast.Name) and x.id == nm_ and isinstance(x.ctx, ast.Load)
                                 and order_.get(id(x), 0) > max(order_.get(id(y), 0) for y in ast.walk(node_)) for x in ast.walk(fi.node))
                if not bound_before or not used_after:
                    continue
                rec_ = [w for w in assigns if w["name"] == nm_ and any(g[0] == tid for g in w["gov"])][0]
                if norm(rec_["value"]) == nm_:
                    continue
                rule.violation(fi.loc(rec_["stmt"]), fq, "`%s` re-bound to `%s` only when `%s`" % (nm_, norm(rec_["value"])[:50], ttxt),
                               "a wire is replaced by another wire expression on one arm of a value-dependent test: what is built from `%s` "
                               "afterwards (constraints, selectors) mentions different wires / coefficients for different inputs" % nm_,
                               "%s/wire/one-arm/%s" % (fq, nm_))
        # fresh witnesses are allocated in the same ORDER on both arms of a value-dependent test (the wire a name is bound to
        # is its allocation index: `ret, wit` on one arm and `wit, ret` on the other swaps the wires later constraints mention)
        by_test = {}
        for w in assigns:
            if not w["gov"]:
                continue
            tid, ttxt, pol = w["gov"][-1]
            if not any(a in norm(w["value"]) for a in ("PrivVal(", "PrivValBool(", "PrivValFxp(", "PubVal(")):
                continue
            by_test.setdefault((tid, ttxt), {True: [], False: []})[pol].append(w)
        order_of = _eo(fi.node)
        for (tid, ttxt), arms in sorted(by_test.items(), key=lambda kv: kv[0][1]):
            seq = {}
            for pol in (True, False):
                ws_ = sorted(arms[pol], key=lambda w: order_of.get(id(w["stmt"]), 0))
                seq[pol] = [w["name"] for w in ws_]
            if seq[True] and seq[False] and sorted(seq[True]) == sorted(seq[False]) and len(set(seq[True])) == len(seq[True]):
                where = fi.loc(arms[True][0]["stmt"])
                term = "under `%s`: allocation order %s when true, %s when false" % (ttxt, seq[True], seq[False])
                if seq[True] == seq[False]:
                    rule.ok(where, fq, term, "fresh witnesses allocated in the same order on both arms")
                else:
                    rule.violation(where, fq, term, "fresh witnesses are allocated in a value-dependent order: the same names are bound "
                                   "to different wire numbers for different inputs, so the constraints mention different wires",
                                   "%s/wire/alloc-order/%s" % (fq, ttxt))
        # returns are alternatives of one another only where the same public input can reach both: returns in different arms
        # of a public dispatch (isinstance(other, int) / isinstance(other, LinComb), a public flag) are not compared
        def _excl(a, b):
            for ida, ta, pa in a["pub"]:
                for idb, tb, pb in b["pub"]:
                    if ida == idb and pa != pb:
                        return True
                    if pa and pb and ta != tb and ta.startswith("isinstance(") and tb.startswith("isinstance(") \
                            and ta.split(",")[0] == tb.split(",")[0]:
                        return True       # type dispatch on the same operand: the arms of `if/elif isinstance` written as two ifs
            return False
        comps = []
        for w in rets:
            home = [c for c in comps if any(not _excl(w, x) for x in c)]
            merged = [w]
            for c in home:
                merged += c
                comps.remove(c)
            comps.append(merged)
        from ..flatten import resolve_locals as _rl5
        assigned_wires = {a["name"] for a in assigns}
        for rets in comps:
          if len(rets) > 1:
            sk = {}
            for w in rets:
                v = w["value"]
                if not isinstance(v, ast.Name):
                    v = _rl5(fi.node, v, keep=set(w["tainted_names"]) | assigned_wires)
                s_ = None
                if isinstance(v, ast.Name):
                    # the name's assignment(s) under tainted control decide; if consistent use that skeleton
                    cands = {skeleton(a["value"], a["tainted_names"]) for a in assigns if a["name"] == v.id}
                    if len(cands) == 1:
                        s_ = "%s := %s" % (v.id, cands.pop())
                if s_ is None:
                    s_ = skeleton(v, w["tainted_names"])
                sk.setdefault(s_, []).append(w)
            where = fi.loc(rets[0]["stmt"])
            term = "returns under value-dependent control: %s" % " | ".join(sorted(sk))
            if len(sk) == 1:
                rule.ok(where, fq, term, "same wire expression whichever way the secret test goes")
            else:
                rule.violation(where, fq, term, "which wire expression is returned depends on a secret value: the constraint "
                               "system built from the result differs between inputs", "%s/wire/return" % fq)


def check(repo, rep, tier):
    rep.explanation = (
        "Non-interference analysis over the ast of the value-level modules: taint sources are reads of `.value` "
        "(and everything derived, including the module global behind ignore_errors()); an abstract interpreter "
        "(operand kinds x taint x emission-effect terms, context-sensitive, operators dispatched to the dunder "
        "Python would call) computes for every value-dependent branch the emission summary of both arms up to "
        "the exit of the function, and compares them modulo raising paths.")
    rep.trusted = ["CPython ast module", "operator dispatch model of sa/abscall.py (binary dunder, reflected fallback "
                   "on NotImplemented)", "emission atoms = calls of backend.privval / pubval / add_constraint"]
    rep.assumptions = [
        "client programs do not themselves branch on `.value` (the thorough tier lints /repo/examples for it)",
        "the backend modules allocate one variable per privval/pubval call and one constraint per add_constraint call",
    ]
    rep.not_decided = ["equality of coefficients beyond 'no value flows into an lc' (R-C06-4)",
                       "programs outside /repo"]
    mods = set(VALUE_MODULES)
    r1 = rep.rule("R-C06-1", "value-dependent branches emit equally on both arms (or raise)", floor=25)
    it = eval_tainted_alts(repo, r1, mods)
    r2 = rep.rule("R-C06-2", "emitting loops/comprehensions iterate over public spaces", floor=8)
    bad = eval_tainted_loops(repo, r2, mods)
    for (fq, itx), where in sorted(count_public_loops(repo, r2, mods).items()):
        if (fq, itx) not in bad:
            r2.ok(where, fq, "iteration space `%s`" % itx, "iteration space is not value-dependent")
    r4 = rep.rule("R-C06-4", "no value-dependent number reaches backend linear-combination arithmetic", floor=0)
    seen = set()
    for key, f in sorted(it.lc_taint.items(), key=lambda kv: str(kv[0])):
        if f["module"].name not in mods:
            continue
        ident = (f["fq"], norm(f["node"]))
        if ident in seen:
            continue
        seen.add(ident)
        where = "%s:%s" % (f["module"].relpath, f["node"].lineno)
        r4.violation(where, f["fq"], ident[1], f["msg"], "%s/%s" % ident)
    r5w = rep.rule("R-C06-5", "wire expressions chosen under value-dependent control are the same on every arm", floor=3)
    eval_wire_choices(repo, r5w, mods)
    # value-dependent memory: state that outlives a call (an attribute planted on a wire object, a module table) and is consulted
    # by a later decision carries whatever governed its store into that decision.  A store governed by a value-derived test
    # (.value, is_guard(), ignore_errors() - the last two are switched by the VALUE of a secret guard) makes what is emitted
    # later depend on the values processed earlier.
    r6m = rep.rule("R-C06-6", "state kept across calls and consulted by decisions is not written under value-dependent control", floor=0)
    import ast
    from .memoryless import persistent_stores, decision_reads, SANCTIONED
    from ..hints import paths_to as _pt6
    stores_ = persistent_stores(repo)
    reads_ = decision_reads(repo, set(stores_))
    for nm_ in sorted(stores_):
        if nm_ in SANCTIONED or nm_ not in reads_:
            continue
        for sfi, snode, how in stores_[nm_]:
            st_ = snode
            while getattr(st_, "_parent", None) is not None and not isinstance(st_, ast.stmt):
                st_ = st_._parent
            tainted_tests = []
            ifs_ = {id(n.test): n for n in ast.walk(sfi.node) if isinstance(n, ast.If)}
            for pth in _pt6(sfi.node, st_) or []:
                for t_, _pol in pth.conds:
                    tt = norm(t_)
                    if not (".value" in tt or "ignore_errors()" in tt or "is_guard()" in tt):
                        continue
                    # a test whose other outcome raises does not distinguish completing runs (a run-time check ahead of the store)
                    iff = ifs_.get(id(t_))
                    other = (iff.orelse if _pol else iff.body) if iff is not None else None
                    if other and isinstance(other[-1], ast.Raise):
                        continue
                    tainted_tests.append(tt)
            if tainted_tests:
                rf, rt = reads_[nm_][0]
                r6m.violation(sfi.loc(snode), sfi.fq, "state `%s` (%s) written only when `%s`; consulted by `%s` in %s" % (
                    nm_, how, tainted_tests[0][:60], norm(rt)[:60], rf.qual),
                    "what is remembered depends on the values processed (the test is value-derived: a secret guard's value switches "
                    "error suppression), and a later call decides what to emit by looking at it: the constraint system depends on "
                    "the values", "memo-tainted/%s" % nm_)
            else:
                r6m.note(sfi.loc(snode), sfi.fq, "state `%s` (%s)" % (nm_, how), "kept across calls, written unconditionally of values "
                         "(history dependence is judged by the memoryless rule of C02/C03/C05/C07/C08)")
    # positive instances: lc arithmetic sites with public scalars
    n_lc = 0
    for m in repo.modules.values():
        if m.name not in mods:
            continue
        for fi in m.functions.values():
            for n in ast.walk(fi.node):
                if isinstance(n, ast.BinOp) and any(
                        isinstance(x, ast.Attribute) and x.attr == "lc" for x in (n.left, n.right)):
                    ident = (fi.fq, norm(n))
                    if ident not in seen:
                        n_lc += 1
                        r4.ok(fi.loc(n), fi.fq, ident[1], "scalar operand is not value-dependent")
    if tier == "thorough":
        r5 = rep.rule("R-C06-1c", "client lint: examples do not branch on .value (reported, never failing)", floor=0)
        for m in repo.clients.values():
            for n in ast.walk(m.tree):
                if isinstance(n, (ast.If, ast.While, ast.IfExp)):
                    for sub in ast.walk(n.test):
                        if isinstance(sub, ast.Attribute) and sub.attr == "value":
                            r5.note("%s:%s" % (m.relpath, n.lineno), m.name, norm(n.test),
                                    "client code branches on a secret value (client obligation)")
                            break
        # if_guard applications pass print
        r6 = rep.rule("R-C06-s", "every in-repo application of if_guard passes `print`", floor=1)
        for m in list(repo.modules.values()) + list(repo.clients.values()):
            for n in ast.walk(m.tree):
                if isinstance(n, ast.Call) and isinstance(n.func, (ast.Name, ast.Attribute)) and \
                        (getattr(n.func, "id", None) == "if_guard" or getattr(n.func, "attr", None) == "if_guard"):
                    arg = norm(n.args[0]) if n.args else ""
                    if arg == "print":
                        r6.ok("%s:%s" % (m.relpath, n.lineno), m.name, norm(n))
                    else:
                        r6.note("%s:%s" % (m.relpath, n.lineno), m.name, norm(n),
                                "if_guard applied to something other than print")
