"""C14 - fixed-point operations: scale-exponent (units) analysis of fixedpoint.py.

Every expression gets an abstract *scale exponent* e: the represented number times 2^(e*r).
Plain numbers and LinComb operands have e = 0, the `.lc` of a LinCombFxp has e = 1, `1 << resolution` is the
unit 2^r (e = 1 as a factor), add_scaling adds 1, products add, quotients subtract, sums / comparisons /
assertions need equal exponents, divmod of (a, b) yields (a-b, a).

R-C14-1  obligations: LinCombFxp(x, False) needs e(x) = 1; LinCombFxp(x) needs e(x) = 0; sums/comparisons
         agree; remove_scaling returns e = 0; conversions allocate at e = 1
R-C14-3  the resolution setting is read at call time everywhere (no import-time constant / default capture)
R-C14-2  reflected operators lift the left operand and call the forward method in the right order; LinComb
         operators defer to the fixed-point class
"""
import ast

from ..loader import norm, AnalysisError, parents
from ..kinds import V
from .c06 import get_interp

FX = "pysnark.fixedpoint"
NUM = ("int", "float", "bool")
OPERAND_KINDS = ("int", "float", "LC", "LCB", "LCF")
EXP0 = {"int": 0, "float": 0, "bool": 0, "LC": 0, "LCB": 0, "LCF": 1}
TYPEKIND = {"int": "int", "float": "float", "LinComb": "LC", "LinCombBool": "LCB", "LinCombFxp": "LCF", "bool": "bool"}


class Stop(Exception):
    pass


class Scale:
    def __init__(self, repo, rule):
        self.repo = repo
        self.rule = rule
        self.ci = repo.cls(FX, "LinCombFxp")
        self.seen = set()
        self.n_obl = 0
        self.active = []       # helper functions being analysed in a calling context
        self.rets = []         # their return values

    # ---- reporting
    def ok(self, fi, node, term, ctx):
        k = (fi.fq, node.lineno, node.col_offset, term)
        if k in self.seen:
            return
        self.seen.add(k)
        self.rule.ok(fi.loc(node), fi.fq, term, ctx)

    def bad(self, fi, node, term, msg, ctx):
        k = (fi.fq, node.lineno, node.col_offset, term, "bad")
        if k in self.seen:
            return
        self.seen.add(k)
        self.rule.violation(fi.loc(node), fi.fq, "%s  [%s]" % (term, ctx), msg, "%s/%s" % (fi.qual, norm(node)[:60]))

    def und(self, fi, node, term, msg):
        k = (fi.fq, node.lineno, node.col_offset, term, "und")
        if k in self.seen:
            return
        self.seen.add(k)
        self.rule.undecided(fi.loc(node), fi.fq, term, msg)

    # ---- evaluation
    def ex(self, n, env, fi, ctx):
        """(kind, exponent) or (kind, None) when the exponent is not tracked / unknown"""
        if isinstance(n, ast.Constant):
            if isinstance(n.value, bool):
                return ("bool", 0)
            if isinstance(n.value, int):
                return ("int", 0)
            if isinstance(n.value, float):
                return ("float", 0)
            return ("other", None)
        t = norm(n)
        if t in ("1 << resolution", "2 ** resolution", "1 << pysnark.fixedpoint.resolution"):
            return ("int", 1)
        if t in ("LinComb.ONE", "LinComb.ZERO", "LinComb.ONE_SAFE"):
            return ("LC", 0)
        if isinstance(n, ast.Name):
            if n.id in env:
                return env[n.id]
            if n.id == "NotImplemented":
                return ("notimpl", None)
            return ("unknown", None)
        if isinstance(n, ast.Attribute):
            b = self.ex(n.value, env, fi, ctx)
            if n.attr == "lc":
                if b[0] == "LCF":
                    return ("LC", 1)
                if b[0] == "LCB":
                    return ("LC", 0)
                return ("unknown", None)
            if n.attr == "value":
                return ("int", b[1])
            return ("unknown", None)
        if isinstance(n, ast.UnaryOp):
            b = self.ex(n.operand, env, fi, ctx)
            if isinstance(n.op, (ast.USub, ast.UAdd)):
                return ("LC" if b[0] == "LCB" else b[0], b[1])
            return ("bool", 0) if isinstance(n.op, ast.Not) else b
        if isinstance(n, ast.BinOp):
            # (1 << resolution) - 1 : the bit mask of the fractional part, not a quantity at some scale
            if isinstance(n.op, ast.Sub) and isinstance(n.right, ast.Constant) and n.right.value == 1 and not isinstance(n.right.value, bool):
                from ..flatten import resolve_locals as _rl14
                lres = _rl14(fi.node, n.left) if fi is not None and isinstance(n.left, ast.Name) else n.left
                if isinstance(lres, ast.BinOp) and isinstance(lres.op, ast.LShift) and norm(lres.left) == "1" \
                        and self.res_multiple(lres.right) not in (None, 0):
                    return ("int", None)
            l = self.ex(n.left, env, fi, ctx)
            r = self.ex(n.right, env, fi, ctx)
            return self.binop(n, l, r, fi, ctx)
        if isinstance(n, ast.Compare) and len(n.ops) == 1:
            l = self.ex(n.left, env, fi, ctx)
            r = self.ex(n.comparators[0], env, fi, ctx)
            if isinstance(n.ops[0], (ast.Is, ast.IsNot, ast.In, ast.NotIn)):
                return ("bool", 0)
            self.same(n, l, r, "compares", fi, ctx)
            if l[0] in ("LC", "LCB", "LCF") or r[0] in ("LC", "LCB", "LCF"):
                return ("LCB", 0)
            return ("bool", 0)
        if isinstance(n, ast.IfExp):
            st_ = self.static_test(n.test, env)
            if st_ is not None:
                # decided by the operand kind: only that arm is evaluated for this kind
                return self.ex(n.body if st_ else n.orelse, env, fi, ctx)
            a = self.ex(n.body, env, fi, ctx)
            b = self.ex(n.orelse, env, fi, ctx)
            return a if a == b else ("unknown", None)
        if isinstance(n, ast.Tuple):
            return ("tuple", tuple(self.ex(e, env, fi, ctx) for e in n.elts))
        if isinstance(n, (ast.GeneratorExp, ast.ListComp)) and len(n.generators) == 1 and not n.generators[0].ifs \
                and isinstance(n.generators[0].target, ast.Name):
            # element-wise construction over a pair such as the (quotient, remainder) of divmod: each element is evaluated
            src = self.ex(n.generators[0].iter, env, fi, ctx)
            if src[0] == "tuple" and isinstance(src[1], tuple):
                out = []
                for elem in src[1]:
                    e2 = dict(env)
                    e2[n.generators[0].target.id] = elem
                    out.append(self.ex(n.elt, e2, fi, ctx + " [element %d]" % len(out)))
                return ("tuple", tuple(out))
            return ("unknown", None)
        if isinstance(n, ast.Call):
            return self.call(n, env, fi, ctx)
        return ("unknown", None)

    def same(self, n, l, r, verb, fi, ctx):
        if l[0] in ("other", "notimpl", "tuple", "flag") or r[0] in ("other", "notimpl", "tuple", "flag"):
            return      # not a numeric comparison
        sides = [getattr(n, "left", None)] + list(getattr(n, "comparators", []) or []) + [getattr(n, "right", None)]
        if any(isinstance(x, ast.Constant) and x.value == 0 and not isinstance(x.value, bool) for x in sides if x is not None):
            return      # zero has every scale
        if l[1] is None or r[1] is None or l[0] == "LCF" or r[0] == "LCF":
            if l[0] == "LCF" or r[0] == "LCF":
                return      # value-level fixed-point operation: the dunder bodies are analysed on their own
            self.und(fi, n, "%s: exponents %s vs %s" % (norm(n)[:70], l[1], r[1]), "operand scale unknown")
            return
        self.n_obl += 1
        term = "%s: exponents %d and %d" % (norm(n)[:70], l[1], r[1])
        if l[1] == r[1]:
            self.ok(fi, n, term, ctx)
        else:
            self.bad(fi, n, term, "%s quantities of different scale (2^(%d r) vs 2^(%d r))" % (verb, l[1], r[1]), ctx)

    @staticmethod
    def res_multiple(node):
        """m when the (shift) amount is m * resolution, 0 when it does not involve the resolution, None otherwise"""
        names = {norm(x) for x in ast.walk(node) if isinstance(x, (ast.Name, ast.Attribute))}
        if not any(x.split(".")[-1] == "resolution" for x in names):
            return 0
        if norm(node).split(".")[-1] == "resolution" and isinstance(node, (ast.Name, ast.Attribute)):
            return 1
        if isinstance(node, ast.BinOp) and isinstance(node.op, ast.Mult):
            for a, b in ((node.left, node.right), (node.right, node.left)):
                if isinstance(a, ast.Constant) and isinstance(a.value, int) and not isinstance(a.value, bool):
                    m = Scale.res_multiple(b)
                    return None if m is None else a.value * m
        if isinstance(node, ast.BinOp) and isinstance(node.op, (ast.Add, ast.Sub)):
            a, b = Scale.res_multiple(node.left), Scale.res_multiple(node.right)
            if a is not None and b is not None:
                return a + b if isinstance(node.op, ast.Add) else a - b
        return None

    def binop(self, n, l, r, fi, ctx):
        if isinstance(n.op, (ast.LShift, ast.RShift)) and l[0] != "LCF":
            # x << (m * resolution) multiplies by 2^(m r): the scale exponent moves by m
            m = self.res_multiple(n.right)
            e = None if (m is None or l[1] is None) else (l[1] + m if isinstance(n.op, ast.LShift) else l[1] - m)
            return (l[0] if l[0] != "LCB" else "LC", e)
        if l[0] == "LCF" or r[0] == "LCF":
            return ("LCF", 1)
        wire = "LC" if (l[0] in ("LC", "LCB") or r[0] in ("LC", "LCB")) else ("float" if "float" in (l[0], r[0]) else "int")
        if l[0] in ("unknown", "other", "notimpl", "tuple") or r[0] in ("unknown", "other", "notimpl", "tuple"):
            return ("unknown", None)
        le, re_ = l[1], r[1]
        if isinstance(n.op, (ast.Add, ast.Sub)):
            self.same(n, l, r, "adds", fi, ctx)
            return (wire, le if le == re_ else None)
        if le is None or re_ is None:
            return (wire, None)
        if isinstance(n.op, ast.Mult):
            return (wire, le + re_)
        if isinstance(n.op, ast.Div) and wire == "LC":
            # `/` on a wire is EXACT field division (it raises, or - with checks off - returns x*inv(c) mod p): never a floor
            self.n_obl += 1
            self.bad(fi, n, "%s: true division of a representation" % norm(n)[:70], "rescaling must use floor division (//): `/` on a "
                     "secret is exact division, which is not floor(a*b/2^r) resp. floor(a*2^r/b) whenever a remainder exists", ctx)
        if isinstance(n.op, (ast.FloorDiv, ast.Div)):
            return (wire if not isinstance(n.op, ast.Div) or wire == "LC" else "float", le - re_)
        if isinstance(n.op, ast.Mod):
            return (wire, le)
        if isinstance(n.op, (ast.LShift, ast.RShift)):
            return (wire, le)
        return (wire, None)

    def call(self, n, env, fi, ctx):
        f = norm(n.func)
        short = f.split(".")[-1]
        args = [self.ex(a, env, fi, ctx) for a in n.args]
        kw = {k.arg: k.value for k in n.keywords}
        if short == "add_scaling" and args:
            k, e = args[0]
            if k == "LCF":
                self.bad(fi, n, norm(n), "add_scaling applied to a value that is already fixed-point", ctx)
                return ("unknown", None)
            k2 = {"float": "int", "LCB": "LC", "bool": "int"}.get(k, k)
            return (k2, None if e is None else e + 1)
        if short == "remove_scaling" and args:
            return ("float", None if args[0][1] is None else args[0][1] - 1)
        if short in ("ConstVal", "PrivVal", "PubVal") and args:
            return ("LC", args[0][1])
        if short in ("int", "float") and args:
            return (short, args[0][1])
        if short == "val" and isinstance(n.func, ast.Attribute) and not args:
            b = self.ex(n.func.value, env, fi, ctx)
            if b[0] == "LC":
                return ("int", b[1])
            if b[0] == "LCF":
                return ("float", 0)
            return ("unknown", None)
        if short == "LinCombFxp" and args:
            scale = True
            if len(n.args) > 1:
                scale = norm(n.args[1]) != "False"
            if "scale" in kw:
                scale = norm(kw["scale"]) != "False"
            k, e = args[0]
            want = 0 if scale else 1
            self.n_obl += 1
            term = "%s: argument has exponent %s, constructor %s" % (norm(n)[:80], e, "scales (needs 0)" if scale else "stores as is (needs 1)")
            if k != "LC":
                if k == "unknown" or e is None:
                    self.und(fi, n, term, "argument scale unknown")
                else:
                    self.bad(fi, n, term, "LinCombFxp constructed from a %s, not a LinComb" % k, ctx)
            elif e is None:
                self.und(fi, n, term, "argument scale unknown")
            elif e == want:
                self.ok(fi, n, term, ctx)
            else:
                self.bad(fi, n, term, "fixed-point value built from a quantity scaled by 2^(%d r): it would represent the "
                         "number times 2^(%d r)" % (e, e - want), ctx)
            return ("LCF", 1)
        if short == "_ensurefxp" and args:
            return ("LCF", 1)
        if short == "_ensurebool":
            return ("LCB", 0)
        if short in ("__divmod__",) and isinstance(n.func, ast.Attribute) and args:
            b = self.ex(n.func.value, env, fi, ctx)
            d = args[0]
            if b[0] == "LC" and d[0] in ("LC", "int") and b[1] is not None and d[1] is not None:
                return ("tuple", (("LC", b[1] - d[1]), ("LC", b[1])))
            if b[0] == "LCF" or d[0] == "LCF":
                return ("tuple", (("LCF", 1), ("LCF", 1)))
            return ("unknown", None)
        if short in ("__truediv__", "__floordiv__", "__mod__", "__add__", "__sub__", "__mul__") and isinstance(n.func, ast.Attribute):
            b = self.ex(n.func.value, env, fi, ctx)
            if b[0] == "LCF" or (args and args[0][0] == "LCF"):
                return ("LCF", 1)
            return ("unknown", None)
        if short in ("assert_lt", "assert_le", "assert_eq", "assert_ne", "assert_gt", "assert_ge") and isinstance(n.func, ast.Attribute) and args:
            b = self.ex(n.func.value, env, fi, ctx)
            self.same(n, b, args[0], "asserts a relation between", fi, ctx)
            return ("other", None)
        if short == "assert_range" and isinstance(n.func, ast.Attribute) and len(args) == 2:
            b = self.ex(n.func.value, env, fi, ctx)
            self.same(n, b, args[0], "asserts a range with", fi, ctx)
            self.same(n, b, args[1], "asserts a range with", fi, ctx)
            return ("other", None)
        if short == "if_then_else" and len(args) == 3:
            return args[1]
        if short in ("check_positive", "check_zero", "check_nonzero"):
            return ("LCB", 0)
        if short in ("tuple", "list") and len(args) == 1 and args[0][0] == "tuple":
            return args[0]
        if short == "isinstance":
            return ("bool", 0)
        if short == "bool":
            return ("bool", 0)
        # helpers of the fixed-point module itself (not one of the modelled primitives): analysed in the calling context
        callee = None
        if isinstance(n.func, ast.Attribute) and isinstance(n.func.value, ast.Name) and n.func.value.id in ("self", "cls", self.ci.name):
            callee = self.ci.methods.get(n.func.attr)
        elif isinstance(n.func, ast.Name):
            b = self.repo.module(FX).bindings.get(n.func.id)
            callee = b[1] if b and b[0] == "def" else None
        if callee is not None and callee.fq not in self.active and len(self.active) < 4 and not n.keywords:
            ps = [p_ for p_ in callee.params if p_ not in ("self", "cls")]
            if len(ps) == len(args):
                env2 = dict(zip(ps, args))
                if callee.params and callee.params[0] == "self":
                    env2["self"] = ("LCF", 1)
                self.active.append(callee.fq)
                self.rets.append([])
                try:
                    self.run(callee.body, env2, callee, ctx + " via " + fi.name)
                except Stop:
                    pass
                vals = self.rets.pop()
                self.active.pop()
                if vals and all(v == vals[0] for v in vals):
                    return vals[0]
                if vals and all(v[0] == vals[0][0] for v in vals):
                    return (vals[0][0], vals[0][1] if all(v[1] == vals[0][1] for v in vals) else None)
        return ("unknown", None)

    # ---- statements
    def static_test(self, test, env):
        """True/False for isinstance tests decidable from the operand kind, else None."""
        if isinstance(test, ast.BoolOp):
            vals = [self.static_test(v, env) for v in test.values]
            if isinstance(test.op, ast.Or):
                if any(v is True for v in vals):
                    return True
                if all(v is False for v in vals):
                    return False
                return None
            if any(v is False for v in vals):
                return False
            if all(v is True for v in vals):
                return True
            return None
        if isinstance(test, ast.UnaryOp) and isinstance(test.op, ast.Not):
            v = self.static_test(test.operand, env)
            return None if v is None else (not v)
        if isinstance(test, ast.Call) and norm(test.func) == "isinstance" and len(test.args) == 2 and isinstance(test.args[0], ast.Name):
            k = env.get(test.args[0].id, ("unknown", None))[0]
            if k == "unknown":
                return None
            types = test.args[1].elts if isinstance(test.args[1], ast.Tuple) else [test.args[1]]
            ks = {TYPEKIND.get(norm(t).split(".")[-1]) for t in types}
            if k == "bool" and "int" in ks:
                return True
            return k in ks
        if isinstance(test, ast.Name) and test.id in env and env[test.id][0] == "flag":
            return env[test.id][1]
        return None

    def run(self, stmts, env, fi, ctx):
        for s in stmts:
            if isinstance(s, ast.If):
                v = self.static_test(s.test, env)
                if v is None:
                    self.ex(s.test, env, fi, ctx)
                    e1, e2 = dict(env), dict(env)
                    try:
                        self.run(s.body, e1, fi, ctx)
                        body_falls = True
                    except Stop:
                        body_falls = False
                    try:
                        self.run(s.orelse, e2, fi, ctx)
                        else_falls = True
                    except Stop:
                        else_falls = False
                    if not body_falls and not else_falls:
                        raise Stop()
                    src = e1 if body_falls else e2
                    if body_falls and else_falls:
                        for k in set(e1) | set(e2):
                            if e1.get(k) == e2.get(k):
                                env[k] = e1.get(k)
                            else:
                                env[k] = ("unknown", None)
                    else:
                        env.clear()
                        env.update(src)
                else:
                    self.run(s.body if v else s.orelse, env, fi, ctx)
            elif isinstance(s, ast.Assign):
                val = self.ex(s.value, env, fi, ctx)
                for t in s.targets:
                    if isinstance(t, ast.Name):
                        env[t.id] = val
                    elif isinstance(t, ast.Tuple) and val[0] == "tuple" and isinstance(val[1], tuple) and len(val[1]) == len(t.elts):
                        for e, x in zip(t.elts, val[1]):
                            if isinstance(e, ast.Name):
                                env[e.id] = x
                    elif isinstance(t, ast.Tuple):
                        for e in t.elts:
                            if isinstance(e, ast.Name):
                                env[e.id] = ("unknown", None)
                    elif isinstance(t, ast.Attribute) and norm(t) == "self.lc":
                        self.n_obl += 1
                        term = "self.lc = %s: exponent %s" % (norm(s.value), val[1])
                        if val[0] == "LC" and val[1] == 1:
                            self.ok(fi, s, term, ctx)
                        elif val[1] is None or val[0] != "LC":
                            self.und(fi, s, term, "stored scale unknown")
                        else:
                            self.bad(fi, s, term, "a fixed-point object must store the number times 2^r", ctx)
            elif isinstance(s, ast.AugAssign):
                self.ex(s.value, env, fi, ctx)
            elif isinstance(s, ast.Try):
                envs = []
                for blk in [s.body + s.orelse] + [h.body for h in s.handlers]:
                    e1 = dict(env)
                    try:
                        self.run(blk, e1, fi, ctx)
                        envs.append(e1)
                    except Stop:
                        pass
                if not envs:
                    raise Stop()
                for k in set().union(*envs):
                    vals = [e.get(k) for e in envs]
                    env[k] = vals[0] if all(v == vals[0] for v in vals) else ("unknown", None)
                if s.finalbody:
                    self.run(s.finalbody, env, fi, ctx)
            elif isinstance(s, ast.Return):
                if s.value is not None:
                    val = self.ex(s.value, env, fi, ctx)
                    if self.rets:
                        self.rets[-1].append(val)
                    if fi.name == "remove_scaling":
                        self.n_obl += 1
                        term = "remove_scaling returns exponent %s" % (val[1],)
                        if val[1] == 0:
                            self.ok(fi, s, term, ctx)
                        elif val[1] is None:
                            self.und(fi, s, term, "scale unknown")
                        else:
                            self.bad(fi, s, term, "reading a value back must divide by 2^r exactly once", ctx)
                    if fi.name == "add_scaling":
                        self.n_obl += 1
                        term = "add_scaling returns exponent %s" % (val[1],)
                        if val[1] == 1:
                            self.ok(fi, s, term, ctx)
                        elif val[1] is None:
                            self.und(fi, s, term, "scale unknown")
                        else:
                            self.bad(fi, s, term, "conversion must multiply by 2^r exactly once", ctx)
                raise Stop()
            elif isinstance(s, ast.Raise):
                raise Stop()
            elif isinstance(s, ast.Expr):
                self.ex(s.value, env, fi, ctx)
            elif isinstance(s, (ast.ImportFrom, ast.Import, ast.Pass)):
                pass

    def analyse(self, fi, kinds_for, flags=None):
        """Run a method once per combination of operand kinds (and literal flag values)."""
        params = fi.params
        combos = [{}]
        for p in params:
            if p in ("self", "cls"):
                continue
            if flags and p in flags:
                combos = [dict(c, **{p: ("flag", v)}) for c in combos for v in flags[p]]
            elif p in kinds_for:
                combos = [dict(c, **{p: (k, EXP0[k])}) for c in combos for k in kinds_for[p]]
        for c in combos:
            env = dict(c)
            if params and params[0] == "self":
                env["self"] = ("LCF", 1)
            ctx = ", ".join("%s:%s" % (k, v[0] if v[0] != "flag" else v[1]) for k, v in sorted(c.items())) or "-"
            try:
                self.run(fi.body, env, fi, ctx)
            except Stop:
                pass


def rule_scale(repo, rule):
    sc = Scale(repo, rule)
    ci = sc.ci
    binary = ("__add__", "__mul__", "__truediv__", "__divmod__", "__sub__")
    for name, fi in sorted(ci.methods.items()):
        ps = [p for p in fi.params if p not in ("self", "cls")]
        if name == "__init__":
            # scale=True: the argument is an unscaled LinComb; scale=False: by contract the raw representation
            # (each such call site is an obligation of its own)
            for flag, e in ((True, 0), (False, 1)):
                env = {"self": ("LCF", 1), fi.params[1]: ("LC", e), fi.params[2]: ("flag", flag)}
                try:
                    sc.run(fi.body, env, fi, "%s:LC@%d, %s:%s" % (fi.params[1], e, fi.params[2], flag))
                except Stop:
                    pass
            continue
        if name in ("__lshift__", "__rshift__"):
            sc.analyse(fi, {p: ("int", "LC") for p in ps})
            continue
        if name in ("add_scaling",):
            sc.analyse(fi, {"val": ("int", "float", "LC", "LCB")})
            continue
        if name == "remove_scaling":
            # contract: the argument is an internal representation (exponent 1)
            for k in ("LC", "int", "float"):
                env = {"val": (k, 1), "self": ("cls", None)}
                try:
                    sc.run(fi.body, env, fi, "val:%s@1" % k)
                except Stop:
                    pass
            continue
        if name == "_ensurefxp":
            sc.analyse(fi, {"val": OPERAND_KINDS})
            continue
        kinds = {p: OPERAND_KINDS for p in ps if p not in ("mod", "err")}
        kinds.update({p: ("int",) for p in ps if p in ("mod",)})
        sc.analyse(fi, kinds)
    m = repo.module(FX)
    for fn in ("PubValFxp", "PrivValFxp"):
        fi = m.functions.get(fn)
        if fi is None:
            raise AnalysisError("%s not found" % fn)
        for conv in (True, False):
            for k in ("int", "float"):
                # doconvert=False: by documented contract the argument is the raw representation (exponent 1)
                env = {"val": (k, 0 if conv else 1), "doconvert": ("flag", conv)}
                try:
                    sc.run(fi.body, env, fi, "val:%s doconvert:%s" % (k, conv))
                except Stop:
                    pass
    if sc.n_obl < 30:
        raise AnalysisError("scale analysis found only %d obligations" % sc.n_obl)
    # if_then_else lifts the false value
    ite = repo.fn("pysnark.branching", "if_then_else")
    lift = [n for n in ast.walk(ite.node) if isinstance(n, ast.If) and "LinCombFxp" in norm(n.test) and "_ensurefxp" in norm(n.body)]
    if lift:
        rule.ok(ite.loc(lift[0]), ite.fq, norm(lift[0])[:100], "selection between a fixed-point and a plain value lifts the plain one")
    else:
        rule.violation(ite.loc(), ite.fq, "no _ensurefxp lift", "selection mixes a fixed-point true-value with an unscaled false-value",
                       "if_then_else/lift")


def rule_reflected(repo, rule):
    ci = repo.cls(FX, "LinCombFxp")
    for name in ("__rtruediv__", "__rfloordiv__", "__rmod__"):
        fi = ci.methods.get(name)
        if fi is None:
            rule.violation("%s:1" % ci.module.relpath, ci.fq, name, "reflected operator missing", "refl/%s" % name)
            continue
        fwd = "__" + name[3:]
        s_, o_ = fi.params
        body = norm(fi.node.body)
        lifted = any(isinstance(a, ast.Assign) and norm(a.value) in ("LinCombFxp._ensurefxp(%s)" % o_, "%s._ensurefxp(%s)" % (s_, o_))
                     for a in ast.walk(fi.node))
        rets = [n for n in ast.walk(fi.node) if isinstance(n, ast.Return)]
        t = norm(rets[0].value) if rets else ""
        lv = [norm(a.targets[0]) for a in ast.walk(fi.node) if isinstance(a, ast.Assign)]
        lname = lv[0] if lv else o_
        ops = {"__truediv__": "/", "__floordiv__": "//", "__mod__": "%"}
        good = {"%s.%s(%s)" % (lname, fwd, s_), "%s %s %s" % (lname, ops[fwd], s_),
                "LinCombFxp._ensurefxp(%s).%s(%s)" % (o_, fwd, s_), "LinCombFxp._ensurefxp(%s) %s %s" % (o_, ops[fwd], s_)}
        if (lifted or "_ensurefxp(%s)" % o_ in t) and t in good:
            rule.ok(fi.loc(), fi.fq, "%s: %s" % (name, t), "left operand lifted, forward method called as (left, self)")
        else:
            rule.violation(fi.loc(), fi.fq, "%s: %s" % (name, body[:100]), "reflected operator does not compute lifted(left) %s self" % ops[fwd],
                           "refl/%s" % name)
    rs = ci.methods.get("__rsub__")
    if rs is not None:
        rets = [n for n in ast.walk(rs.node) if isinstance(n, ast.Return)]
        t = norm(rets[0].value) if rets else ""
        s_, o_ = rs.params
        if t in ("%s + -%s" % (o_, s_), "-%s + %s" % (s_, o_), "(-%s).__add__(%s)" % (s_, o_)):
            rule.ok(rs.loc(), rs.fq, "__rsub__: " + t)
        else:
            rule.violation(rs.loc(), rs.fq, "__rsub__: " + t, "reflected subtraction does not compute other - self", "refl/__rsub__")
    for al, tgt in (("__radd__", "__add__"), ("__rmul__", "__mul__")):
        if ci.aliases.get(al) == tgt:
            rule.ok("%s:%s" % (ci.module.relpath, ci.node.lineno), ci.fq, "%s = %s (commutative)" % (al, tgt))
        elif al in ci.methods:
            rule.note(ci.methods[al].loc(), ci.fq, al, "defined explicitly")
        else:
            rule.violation("%s:%s" % (ci.module.relpath, ci.node.lineno), ci.fq, al, "reflected %s missing" % al, "refl/%s" % al)
    # LinComb defers to the fixed-point class
    it = get_interp(repo)
    lc = repo.cls("pysnark.runtime", "LinComb")
    for name in ("__add__", "__mul__", "__truediv__", "__divmod__", "__floordiv__", "__mod__"):
        mi = lc.methods.get(name)
        if mi is None:
            continue
        _t, ret = it.analyze(mi, [V("LCF")], {}, None, V("LC"))
        if ret.kind == frozenset(["NotImpl"]):
            rule.ok(mi.loc(), mi.fq, "LinComb.%s(LinCombFxp) -> NotImplemented" % name, "Python then calls the fixed-point reflected method")
        else:
            rule.violation(mi.loc(), mi.fq, "LinComb.%s(LinCombFxp) -> %s" % (name, ret), "integer-secret operator does not defer to the "
                           "fixed-point type for a fixed-point right operand", "defer/%s" % name)
    sub = lc.methods.get("__sub__")
    if sub is not None:
        _t, ret = it.analyze(sub, [V("LCF")], {}, None, V("LC"))
        if ret.kind == frozenset(["LCF"]):
            rule.ok(sub.loc(), sub.fq, "LinComb.__sub__(LinCombFxp) resolves to a fixed-point result")
        else:
            rule.violation(sub.loc(), sub.fq, "LinComb.__sub__(LinCombFxp) -> %s" % ret, "integer minus fixed-point does not yield a "
                           "fixed-point value", "defer/__sub__")


def config_read_at_call_time(repo, rule, modname, setting, what):
    """The documented way to configure `setting` is to assign the module attribute at run time, so every use must read
    it when called: a module-level constant derived from it, or a default argument capturing it, goes stale."""
    m = repo.module(modname)
    n_uses = 0
    for n in m.tree.body:
        if isinstance(n, ast.Assign) and not any(norm(t) == setting for t in n.targets) and any(
                isinstance(x, ast.Name) and x.id == setting for x in ast.walk(n.value)):
            rule.violation("%s:%s" % (m.relpath, n.lineno), modname, norm(n)[:90],
                           "module-level constant derived from `%s` is evaluated once at import: after `%s.%s = ...` the %s is "
                           "computed with the old value" % (setting, modname, setting, what), "stale/%s/%s" % (setting, norm(n.targets[0])))
    for fi in m.functions.values():
        if isinstance(fi.node, ast.Lambda):
            continue
        for d in fi.node.args.defaults + [x for x in fi.node.args.kw_defaults if x is not None]:
            if any(isinstance(x, ast.Name) and x.id == setting for x in ast.walk(d)):
                rule.violation(fi.loc(), fi.fq, "default %s" % norm(d), "default argument captures `%s` at definition time" % setting,
                               "stale/%s/%s" % (setting, fi.fq))
        n_uses += sum(1 for x in ast.walk(fi.node) if isinstance(x, ast.Name) and x.id == setting and isinstance(x.ctx, ast.Load))
    rule.ok("%s:1" % m.relpath, modname, "%d reads of `%s` inside functions (evaluated at call time)" % (n_uses, setting))
    return n_uses


def rule_integer_side(repo, rule):
    """The integer-secret class never applies its own (unscaled) arithmetic to a fixed-point operand:
       * its operand conversions (_ensurelc, LinCombBool._ensurebool) reject a LinCombFxp instead of taking its scaled `.lc`;
       * comparison operators that add an integer step (the literal 1 of a strict comparison) return NotImplemented for a
         LinCombFxp operand, so that the fixed-point class compares at its own scale (or they raise)."""
    from ..efftree import always_raises
    it = get_interp(repo)
    lc = repo.cls("pysnark.runtime", "LinComb")
    lb = repo.cls("pysnark.boolean", "LinCombBool")
    for ci, mn in ((lc, "_ensurelc"), (lb, "_ensurebool")):
        fi = ci.methods.get(mn)
        if fi is None:
            raise AnalysisError("%s.%s not found" % (ci.name, mn))
        args = [V("cls"), V("LCF")] if fi.params and fi.params[0] in ("cls", "self") else [V("LCF")]
        tree, ret = it.analyze(fi, args, {}, None, None)
        if always_raises(tree):
            rule.ok(fi.loc(), fi.fq, "%s(<LinCombFxp>) raises" % mn, "a fixed-point operand is rejected, not reinterpreted")
        else:
            rule.violation(fi.loc(), fi.fq, "%s(<LinCombFxp>) may return kinds %s" % (mn, sorted(ret.kind) if ret is not None else None),
                           "the integer-side conversion accepts a fixed-point value: its representation v*2^r is then used as the "
                           "integer v (e.g. PrivVal(3).assert_lt(PrivValFxp(2.0)) checks 3 < 2*2^r)", "intside/%s" % mn)
    for mn in ("__lt__", "__le__", "__gt__", "__ge__"):
        fi = lc.methods.get(mn)
        if fi is None:
            raise AnalysisError("LinComb.%s not found" % mn)
        step = False
        for r in ast.walk(fi.node):
            if isinstance(r, ast.Return) and r.value is not None:
                for b in ast.walk(r.value):
                    if isinstance(b, ast.BinOp) and isinstance(b.op, (ast.Add, ast.Sub)) and any(
                            isinstance(x, ast.Constant) and isinstance(x.value, int) and not isinstance(x.value, bool) and x.value != 0
                            for x in (b.left, b.right)):
                        step = True
        tree, ret = it.analyze(fi, [V("LC"), V("LCF")], {}, None, None)
        defers = always_raises(tree) or (ret is not None and ret.kind <= frozenset(["NotImpl", "never"]))
        if not step:
            rule.ok(fi.loc(), fi.fq, "%s: no integer step in the compared difference" % mn, "scale-free for a fixed-point operand")
        elif defers:
            rule.ok(fi.loc(), fi.fq, "%s(<LinComb>, <LinCombFxp>) -> NotImplemented / raises" % mn,
                    "the fixed-point class performs the comparison at its own scale (step 2^-r)")
        else:
            rule.violation(fi.loc(), fi.fq, "%s adds an integer step and handles a LinCombFxp operand itself (result kinds %s)" % (
                mn, sorted(ret.kind) if ret is not None else None),
                "strict comparison between an integer secret and a fixed-point value subtracts 1.0 instead of the smallest "
                "representable step: PrivVal(3) < PrivValFxp(3.5) yields 0", "intside/cmp/%s" % mn)


def rule_rescale_gadgets(repo, rule):
    """A hand-written division by the scale 2^k: fresh witnesses q, r with the linear tie  q * 2^k + r = x.  The tie alone lets the
    prover move multiples of 2^k between q and r; what pins q to floor(x / 2^k) is 0 <= r < 2^k - a range check on r of EXACTLY k
    bits (one bit more admits r + 2^k with q - 1: the product comes out one unit too small)."""
    from ..flatten import resolve_locals
    from ..poly import poly_of, P
    from .c16 import zero_asserted
    K = P.sym("k")
    n = 0
    for mn in (FX, "pysnark.runtime"):
        m = repo.modules.get(mn)
        if m is None:
            continue
        for fi in m.functions.values():
            if not isinstance(fi.node, ast.FunctionDef) or "resolution" not in norm(fi.node):
                continue
            wits = {a.targets[0].id: a for a in ast.walk(fi.node) if isinstance(a, ast.Assign) and len(a.targets) == 1 and isinstance(a.targets[0], ast.Name)
                    and isinstance(a.value, ast.Call) and norm(a.value.func).split(".")[-1] == "PrivVal"}
            if len(wits) < 2:
                continue
            for c in ast.walk(fi.node):
                if not isinstance(c, ast.Call):
                    continue
                d = zero_asserted(c)
                if d is None:
                    continue
                d = resolve_locals(fi.node, d, keep=set(wits))
                env = {w: P.sym(w) for w in wits}
                env.update({"1 << resolution": P.sym("S"), "2 ** resolution": P.sym("S"), "(1 << resolution)": P.sym("S")})
                p = poly_of(d, env, strict=False)
                if p is None:
                    continue
                for q in wits:
                    for r in wits:
                        if q == r:
                            continue
                        rest = p - (P.sym(q) * P.sym("S") + P.sym(r))
                        rest2 = p + (P.sym(q) * P.sym("S") + P.sym(r))
                        if not any(x_.symbols() & {q, r, "S"} == set() for x_ in (rest, rest2)):
                            continue
                        # r's range evidence
                        n += 1
                        widths = []
                        for g in ast.walk(fi.node):
                            if isinstance(g, ast.Call) and isinstance(g.func, ast.Attribute) and norm(g.func.value) == r \
                                    and g.func.attr in ("assert_positive", "to_bits", "check_positive") and g.args:
                                widths.append((g, resolve_locals(fi.node, g.args[0])))
                        where = fi.loc(c)
                        if not widths:
                            rule.undecided(where, fi.fq, "%s * 2^k + %s tied to the operand" % (q, r), "no width-limited range check of the remainder found")
                            continue
                        for g, w in widths:
                            wt = norm(w).replace(" ", "")
                            if wt in ("resolution",):
                                wp = K
                            elif wt in ("(1<<resolution).bit_length()", "(2**resolution).bit_length()"):
                                wp = K + 1
                            elif wt in ("((1<<resolution)-1).bit_length()", "(2**resolution-1).bit_length()"):
                                wp = K
                            else:
                                wp = poly_of(w, {"resolution": K}, strict=True)
                            term = "%s = %s * 2^k + %s, remainder checked at %s bits" % ("x", q, r, norm(w))
                            if wp is None:
                                rule.undecided(fi.loc(g), fi.fq, term, "width not interpretable")
                            elif wp == K:
                                rule.ok(fi.loc(g), fi.fq, term, "0 <= r < 2^k: the quotient is the floor")
                            else:
                                rule.violation(fi.loc(g), fi.fq, term, "the remainder of a division by 2^k is range-checked at %s bits instead of k: "
                                               "r + 2^k with q - 1 satisfies every constraint, so the rescaled value can be forged one unit "
                                               "too small" % (wp,), "%s/rescale-width" % fi.qual)
    return n


def rule_floor_direction(repo, rule):
    """Division and multiplication of representations round DOWN (floor).  Floor does not commute with negation
    (-floor(x) = ceil(-x)), so inside the dividing / rescaling operators no result of a division may be negated, and no
    operand may be negated on the way into one: `-(a / -b)` is the ceiling of a / b whenever the quotient is inexact."""
    ci = repo.cls(FX, "LinCombFxp")
    DIV = ("__truediv__", "__floordiv__", "__rtruediv__", "__rfloordiv__", "__divmod__", "__rdivmod__", "__mod__", "__rmod__", "__mul__", "__rmul__")
    n = 0
    for name in DIV:
        fi = ci.methods.get(name)
        if fi is None or not isinstance(fi.node, ast.FunctionDef):
            continue

        def divides(e):
            for x in ast.walk(e):
                if isinstance(x, ast.BinOp) and isinstance(x.op, (ast.FloorDiv, ast.Div, ast.Mod)):
                    return True
                if isinstance(x, ast.Call) and norm(x.func).split(".")[-1] in DIV + ("divmod",):
                    return True
            return False
        negs = [x for x in ast.walk(fi.node) if isinstance(x, ast.UnaryOp) and isinstance(x.op, ast.USub) and not isinstance(x.operand, ast.Constant)]
        # Sign parity of every rounding division: negating BOTH operands leaves the quotient's exact value (and so its floor)
        # unchanged - floor((-a)/(-d)) = floor(a/d), and (-a) mod (-d) = -(a mod d), so negating that remainder is Python's
        # remainder for a negative divisor.  Negating exactly ONE operand, or the quotient, turns the floor into a ceiling.

        def is_neg(e):
            while isinstance(e, ast.Call) and norm(e.func).split(".")[-1] in ("LinCombFxp", "_ensurefxp", "_ensurelc") and e.args:
                e = e.args[0]
            return isinstance(e, ast.UnaryOp) and isinstance(e.op, ast.USub) and not isinstance(e.operand, ast.Constant)

        def operands(d):
            if isinstance(d, ast.BinOp):
                return d.left, d.right
            if isinstance(d.func, ast.Attribute) and len(d.args) == 1:
                return d.func.value, d.args[0]
            if len(d.args) == 2:
                return d.args[0], d.args[1]
            return None, None
        divs = [x for x in ast.walk(fi.node) if (isinstance(x, ast.BinOp) and isinstance(x.op, (ast.FloorDiv, ast.Div, ast.Mod))) or (
            isinstance(x, ast.Call) and norm(x.func).split(".")[-1] in DIV[:8] + ("divmod",))]
        bad = None
        both_neg_rem = set()       # names holding the remainder of a both-negated divmod
        quo_names = set()          # names holding a quotient (or a whole divmod pair)
        quo_binds = {}             # name -> binding statements (a negation counts only after one of them)
        for d in divs:
            l_, r_ = operands(d)
            if l_ is None:
                continue
            nl, nr = is_neg(l_), is_neg(r_)
            if nl != nr:
                bad = (l_ if nl else r_, "exactly one operand of a rounding division is negated")
                break
            st = d
            while getattr(st, "_parent", None) is not None and not isinstance(st, ast.stmt):
                st = st._parent
            if isinstance(st, ast.Assign) and st.value is d and len(st.targets) == 1:
                tg = st.targets[0]
                if isinstance(tg, (ast.Tuple, ast.List)) and len(tg.elts) == 2 and all(isinstance(e_, ast.Name) for e_ in tg.elts):
                    quo_names.add(tg.elts[0].id)
                    (both_neg_rem if nl else quo_names).add(tg.elts[1].id)
                elif isinstance(tg, ast.Name):
                    quo_names.add(tg.id)
                for nm_ in [x.id for x in ast.walk(tg) if isinstance(x, ast.Name)]:
                    quo_binds.setdefault(nm_, []).append(st)
        for x in ([] if bad else negs):
            if divides(x.operand):
                bad = (x, "the result of a rounding division is negated")
                break
            if isinstance(x.operand, ast.Name) and x.operand.id in quo_names and x.operand.id not in both_neg_rem:
                from ..loader import precedes as _prec
                if any(_prec(fi.node, b_, x) for b_ in quo_binds.get(x.operand.id, [])):
                    bad = (x, "the result of a rounding division is negated")
                    break
        n += 1
        if bad:
            rule.violation(fi.loc(bad[0]), fi.fq, norm(bad[0])[:80], "%s: floor(-x) is not -floor(x), so the result is the ceiling of the "
                           "true quotient whenever it is inexact" % bad[1], "%s/neg-floor" % fi.qual)
        else:
            rule.ok(fi.loc(), fi.fq, "%s: no negation around or inside the rounding step" % name)
    return n


def rule_fxp_comparisons(repo, rule):
    """The six comparison operators of LinCombFxp test the relation they name between the REPRESENTATIONS s = self.lc and
    o = _ensurefxp(other).lc (both at scale 2^r, so a strict comparison steps by one representation unit): either by
    delegating `s <op> o` to the integer class or by a test gadget on a difference - compared as canonical affine relations."""
    from ..relations import rel, gadget_relation, show, relations_when_true
    from ..flatten import resolve_locals
    from ..poly import P
    ci = repo.cls(FX, "LinCombFxp")
    OPS = {"__lt__": ast.Lt(), "__le__": ast.LtE(), "__gt__": ast.Gt(), "__ge__": ast.GtE(), "__eq__": ast.Eq(), "__ne__": ast.NotEq()}
    for name, op in OPS.items():
        fi = ci.methods.get(name)
        if fi is None:
            rule.violation("%s:1" % ci.module.relpath, ci.fq, name, "comparison operator missing", "fxpcmp/%s/missing" % name)
            continue
        s_, o_ = fi.params[0], fi.params[1]
        env = {"%s.lc" % s_: P.sym("s")}
        for conv in ("%s._ensurefxp(%s).lc" % (s_, o_), "LinCombFxp._ensurefxp(%s).lc" % o_, "cls._ensurefxp(%s).lc" % o_):
            env[conv] = P.sym("o")
        want = rel(op, P.sym("s"), P.sym("o"))
        rets = [r for r in ast.walk(fi.node) if isinstance(r, ast.Return) and r.value is not None and norm(r.value) != "NotImplemented"]
        if not rets:
            rule.violation(fi.loc(), fi.fq, name, "comparison returns nothing", "fxpcmp/%s/ret" % name)
            continue
        for r in rets:
            e = resolve_locals(fi.node, r.value)
            got = gadget_relation(e, env)
            neg = False
            if got is None and isinstance(e, ast.UnaryOp) and isinstance(e.op, ast.Invert):
                g0 = gadget_relation(e.operand, env)
                if g0 is not None and g0[0] == "==0":
                    got = ("!=0", g0[1])
                elif g0 is not None and g0[0] == "!=0":
                    got = ("==0", g0[1])
            if got is None and isinstance(e, ast.Compare):
                rr = relations_when_true(e, env)
                got = rr[0] if rr and len(rr) == 1 else None
            term = "%s returns %s: tests %s; the operator means %s" % (name, norm(e)[:80], show(got) if got else None, show(want))
            if got is None:
                rule.undecided(fi.loc(r), fi.fq, term, "comparison not interpretable as a relation between the representations")
            elif got == want:
                rule.ok(fi.loc(r), fi.fq, term)
            else:
                rule.violation(fi.loc(r), fi.fq, term, "the fixed-point comparison tests a different relation than `%s` on the represented "
                               "numbers (off by one representation step, or the wrong direction)" % name.strip("_"), "fxpcmp/%s" % name)


def check(repo, rep, tier):
    rep.explanation = ("A units analysis: every method of LinCombFxp is abstractly executed once per combination of operand "
                       "kinds (int, float, LinComb, LinCombBool, LinCombFxp; isinstance tests resolved from the kind) with each "
                       "expression carrying a scale exponent; constructor calls, sums, comparisons, assertions, conversions and "
                       "read-back are the obligations.  Deference of the integer class and the reflected operators are checked "
                       "with the operator-dispatch model.")
    rep.trusted = ["exponent algebra: products add, quotients subtract, divmod(a,b) -> (a-b, a)"]
    rep.not_decided = ["numeric agreement with exact scaled-integer arithmetic for all operands (rounding direction, negatives)"]
    r1 = rep.rule("R-C14-1", "scale exponents are consistent at every constructor, sum, comparison and conversion", floor=30)
    rule_scale(repo, r1)
    r2 = rep.rule("R-C14-2", "reflected operators and deference to the fixed-point type", floor=10)
    rule_reflected(repo, r2)
    r3 = rep.rule("R-C14-3", "the resolution is read at call time (holds for every resolution setting)", floor=1)
    config_read_at_call_time(repo, r3, FX, "resolution", "scaling")
    r6 = rep.rule("R-C14-6", "rounding is towards minus infinity: no negation is moved across a floor division", floor=5)
    rule_floor_direction(repo, r6)
    r7 = rep.rule("R-C14-7", "hand-written rescaling gadgets bound the remainder by the scale (expected count 0 on the pinned tree)", floor=0)
    rule_rescale_gadgets(repo, r7)
    r5 = rep.rule("R-C14-5", "fixed-point comparisons test the named relation between the two representations", floor=6)
    rule_fxp_comparisons(repo, r5)
    r4 = rep.rule("R-C14-4", "the integer-secret class rejects or defers fixed-point operands (no unscaled arithmetic on v*2^r)", floor=6)
    rule_integer_side(repo, r4)
    # float operands on the integer side: once + / - promote an integer secret to fixed point for a float, the strict comparisons,
    # which are written `(o - s - 1) >= 0`, reach fixed-point arithmetic with an INTEGER step: there `- 1` is 1.0, not one
    # representation unit, so 3 < 3.5 comes out false.  They need a float arm of their own (or must refuse floats).
    lcint = repo.cls("pysnark.runtime", "LinComb")

    def _float_arm(f):
        return [n_ for n_ in ast.walk(f.node) if isinstance(n_, ast.If) and "isinstance(" in norm(n_.test) and "float" in norm(n_.test)]
    promotes = [mn_ for mn_ in ("__add__", "__radd__", "__sub__", "__rsub__") if mn_ in lcint.methods and any(
        any(isinstance(x_, ast.Return) and x_.value is not None and norm(x_.value) != "NotImplemented" for s_ in a_.body for x_ in ast.walk(s_))
        for a_ in _float_arm(lcint.methods[mn_]))]
    for cmpn in ("__lt__", "__gt__"):
        f_ = lcint.methods.get(cmpn)
        if f_ is None:
            continue
        if promotes and not _float_arm(f_):
            r4.violation(f_.loc(), f_.fq, "%s: %s" % (cmpn, norm([r_ for r_ in ast.walk(f_.node) if isinstance(r_, ast.Return) and r_.value is not None][-1].value)[:80]), "%s accepts float operands by "
                         "promoting the integer secret to fixed point, and this strict comparison then subtracts the literal 1 from a "
                         "fixed-point difference: the step is 1.0 instead of one representation unit (2^-r), so `x %s c` is wrong for a float "
                         "c strictly between x and x +- 1" % (promotes[0], "<" if cmpn == "__lt__" else ">"), "intside/float-step/%s" % cmpn)
        elif promotes:
            r4.ok(f_.loc(), f_.fq, "%s has a float arm of its own" % cmpn)
