"""Shared rule: no container is keyed by hash(x).

A cache / table whose key is `hash(value)` instead of the value conflates distinct values with equal hashes - in CPython
hash(-1) == hash(-2) and hash(c) == hash(c + 2**61 - 1) for ints - so a serialiser that shares "identical" records through
such a table writes the wrong record.  Expected count on a correct tree is zero; the detector is exercised on an embedded
positive example on every run.
"""
import ast

from ..loader import norm, parents, AnalysisError

_POSITIVE = '''
def w(lc, written):
    key = hash(tuple(lc))
    if key in written:
        return written[key]
    written[key] = 1
    return written[hash(tuple(lc))]
'''


def hash_keyed_sites(fnode):
    """[(node, text)] uses of hash(...) - directly or through a local bound to it - as a subscript or membership key"""
    hashnames = set()
    for n in ast.walk(fnode):
        if isinstance(n, ast.Assign) and len(n.targets) == 1 and isinstance(n.targets[0], ast.Name) \
                and isinstance(n.value, ast.Call) and norm(n.value.func) == "hash":
            hashnames.add(n.targets[0].id)

    def is_hash(e):
        return (isinstance(e, ast.Call) and norm(e.func) == "hash") or (isinstance(e, ast.Name) and e.id in hashnames)
    out = []
    for n in ast.walk(fnode):
        if isinstance(n, ast.Subscript) and is_hash(n.slice):
            out.append((n, norm(n)))
        elif isinstance(n, ast.Compare) and len(n.ops) == 1 and isinstance(n.ops[0], (ast.In, ast.NotIn)) and is_hash(n.left):
            out.append((n, norm(n)))
        elif isinstance(n, ast.Call) and isinstance(n.func, ast.Attribute) and n.func.attr in ("get", "setdefault", "pop") and n.args \
                and is_hash(n.args[0]):
            out.append((n, norm(n)[:60]))
    return out


def rule_no_hash_keys(repo, rule, modules):
    if len(hash_keyed_sites(ast.parse(_POSITIVE))) < 3:
        raise AnalysisError("hash-key detector failed its embedded positive example")
    for mn in modules:
        m = repo.module(mn)
        sites = []
        for fi in m.functions.values():
            if isinstance(fi.node, ast.Lambda):
                continue
            for node, txt in hash_keyed_sites(fi.node):
                own = [p for p in parents(node) if isinstance(p, (ast.FunctionDef, ast.Lambda))]
                if own and own[0] is not fi.node:
                    continue
                sites.append((fi, node, txt))
        if sites:
            fi, node, txt = sites[0]
            rule.violation(fi.loc(node), fi.fq, "; ".join(t for _f, _n, t in sites)[:160], "a table is keyed by hash(value): distinct "
                           "values with equal hashes (hash(-1) == hash(-2), c and c + 2**61-1) are conflated, so a record shared "
                           "through it can be another value's record", "hashkey/%s" % mn)
        else:
            rule.ok("%s:1" % m.relpath, mn, "no container keyed by hash(...)", "detector exercised on its embedded positive example")
