"""C05 - traced arithmetic agrees with Python semantics, or raises (necessary structural clauses).

R-C05-1  reflected operators compute op(lifted left operand, self); aliases only on commutative operators
R-C05-2  operator/hint correspondence: comparisons state the relation their name says; hints use the Python
         operator the dunder implements; Boolean operators have the operator's truth table; shifts, abs, pow
R-C05-3  every binary operator uses its operand
R-C05-4  sign-sensitive uses of public integer operands (slice bounds) are guarded
R-C05-5  divisors are tested for zero before use
R-C05-6  guard discipline (shared with C08): 'or raises' is not switched off behind the user's back
R-C05-8  no integer operator reduces the value it reports modulo the field prime
R-C05-9  check_zero / check_positive hint their 0/1 result with Python's truth value of x == 0 / x >= 0 over the integers
R-C05-10 `~` (logical not) is never applied to an operand that may be a plain int/bool
R-C05-7  the range-checking decomposition lies on every completing path of the operator arms that rely on it
"""
import ast
import itertools

from ..hints import Valuer, Undecidable, NeedCase, pre_assume, replay
from ..loader import norm, AnalysisError, parents
from ..poly import P, poly_of
from ..relations import rel, gadget_relation, show

RT = "pysnark.runtime"
COMMUTATIVE = {"__radd__": "__add__", "__rmul__": "__mul__", "__rand__": "__and__", "__ror__": "__or__", "__rxor__": "__xor__"}
BINARY = ["add", "sub", "mul", "truediv", "floordiv", "mod", "divmod", "pow", "lshift", "rshift", "and", "or", "xor"]
OPSYM = {"add": "+", "sub": "-", "mul": "*", "truediv": "/", "floordiv": "//", "mod": "%", "pow": "**", "lshift": "<<",
         "rshift": ">>", "and": "&", "or": "|", "xor": "^"}
CMP = {"__lt__": ast.Lt(), "__le__": ast.LtE(), "__gt__": ast.Gt(), "__ge__": ast.GtE(), "__eq__": ast.Eq(), "__ne__": ast.NotEq()}
HINT_OP = {"__mul__": ast.Mult, "__add__": ast.Add, "__and__": ast.BitAnd, "__or__": ast.BitOr, "__xor__": ast.BitXor,
           "__truediv__": ast.FloorDiv, "__divmod__": ast.FloorDiv}


def _sign_test(t, x):
    """Truth of a comparison of `x` with the literal 0 on the sign classes x > 0, x = 0, x < 0 (None: not such a test)."""
    if not (isinstance(t, ast.Compare) and len(t.ops) == 1):
        return None
    l, r, op = norm(t.left), norm(t.comparators[0]), type(t.ops[0])
    flip = {ast.Lt: ast.Gt, ast.Gt: ast.Lt, ast.LtE: ast.GtE, ast.GtE: ast.LtE}
    if l == "0" and r == x and op in flip:
        l, r, op = r, l, flip[op]
    if not (l == x and r == "0" and op in flip):
        return None
    tab = {ast.Gt: (True, False, False), ast.GtE: (True, True, False), ast.Lt: (False, False, True), ast.LtE: (False, True, True)}[op]
    return dict(zip(("x > 0", "x = 0", "x < 0"), tab))


def rets_of(fi):
    return [n for n in ast.walk(fi.node) if isinstance(n, ast.Return) and n.value is not None and not any(
        isinstance(p, (ast.FunctionDef, ast.Lambda)) and p is not fi.node for p in parents(n))]


def _bit_table_ok(fi, rr, s_, o_, op):
    """every return of the reflected operator, with the Boolean self replaced by 0 and by 1, is `other op 0` / `other op 1`:
         other << b = other * 2^b       other >> 0 = other, other >> 1 kept as a term       other ** 0 = 1, other ** 1 = other"""
    from ..flatten import resolve_locals
    O = P.sym(o_)
    half = P.sym("%s >> 1" % o_)
    want = {"lshift": (O, O * 2), "rshift": (O, half), "pow": (P.const(1), O)}[op]
    for r in rr:
        if r.value is None or norm(r.value) == "NotImplemented":
            continue
        e = resolve_locals(fi.node, r.value)
        inner = e.args[0] if isinstance(e, ast.Call) and norm(e.func).split(".")[-1] in ("LinComb", "LinCombBool", "ConstVal") and e.args else e
        for b in (0, 1):
            env = {"%s.lc" % s_: P.const(b), s_: P.const(b), "%s >> 1" % o_: half, "(%s >> 1)" % o_: half, "%s // 2" % o_: half}
            p = poly_of(inner, env, strict=False)
            if p is None or p != want[b]:
                return False
    return True


def rule_reflected(repo, rule):
    for mod, cn in ((RT, "LinComb"), ("pysnark.boolean", "LinCombBool"), ("pysnark.array", "Array")):
        ci = repo.cls(mod, cn)
        where0 = "%s:%s" % (ci.module.relpath, ci.node.lineno)
        for al, tgt in sorted(ci.aliases.items()):
            if not (al.startswith("__r") and al.endswith("__")) and not (tgt.startswith("__r")):
                continue
            if COMMUTATIVE.get(al) == tgt or (al == "__mul__" and tgt == "__rmul__"):
                rule.ok(where0, ci.fq, "%s = %s" % (al, tgt), "alias on a commutative operator")
            else:
                rule.violation(where0, ci.fq, "%s = %s" % (al, tgt), "a non-commutative reflected operator is aliased to the forward "
                               "one: `a op x` computes `x op a`", "%s/alias/%s" % (ci.fq, al))
        for name, fi in sorted(ci.methods.items()):
            if not (name.startswith("__r") and name.endswith("__") and name[3:-2] in BINARY):
                continue
            op = name[3:-2]
            s_, o_ = fi.params[0], fi.params[1]
            rr = rets_of(fi)
            if not rr:
                continue
            t = norm(rr[0].value)
            if t == "NotImplemented":
                rule.note(fi.loc(), fi.fq, name, "not supported (NotImplemented)")
                continue
            base = "%s.lc" % s_ if cn == "LinCombBool" else s_
            good = {"ConstVal(%s).__%s__(%s)" % (o_, op, s_), "ConstVal(%s) %s %s" % (o_, OPSYM.get(op, "?"), s_)}
            if op == "sub":
                good |= {"%s + -%s" % (o_, base), "-%s + %s" % (base, o_), "%s - %s" % (o_, base)}
            if op in ("add", "mul", "and", "or", "xor"):
                good |= {"%s %s %s" % (s_, OPSYM[op], o_), "%s %s %s" % (o_, OPSYM[op], s_), "%s.__%s__(%s)" % (s_, op, o_)}
            if cn == "Array" and op == "mul":
                # element-wise: [other*sv for sv in self.arr]
                comp = [c for c in ast.walk(fi.node) if isinstance(c, ast.ListComp)]
                if comp and norm(comp[0].elt) in ("%s * %s" % (o_, norm(comp[0].generators[0].target)),
                                                  "%s * %s" % (norm(comp[0].generators[0].target), o_)):
                    rule.ok(fi.loc(), fi.fq, norm(comp[0]), "element-wise scaling")
                    continue
            if t in good:
                rule.ok(fi.loc(), fi.fq, "%s: %s" % (name, t), "computes (left operand) %s self" % OPSYM.get(op, op))
            elif cn == "LinCombBool" and op in ("lshift", "rshift", "pow") and _bit_table_ok(fi, rr, s_, o_, op):
                rule.ok(fi.loc(), fi.fq, "%s: %s" % (name, t), "for both values of the bit it equals other %s bit (evaluated with self.lc = 0 and 1)" % OPSYM.get(op, op))
            else:
                rule.violation(fi.loc(), fi.fq, "%s: %s" % (name, t), "reflected operator does not compute `other %s self`" % OPSYM.get(op, op),
                               "%s/refl/%s" % (ci.fq, name))


def rule_correspondence(repo, rule):
    lc = repo.cls(RT, "LinComb")
    # ---- comparisons
    for name, op in CMP.items():
        fi = lc.methods[name]
        s_, o_ = fi.params
        rr = rets_of(fi)
        env = {s_: P.sym("s"), o_: P.sym("o")}
        g = gadget_relation(rr[0].value, env) if rr else None
        want = rel(op, P.sym("s"), P.sym("o"))
        neg = False
        if g is None and rr and isinstance(rr[0].value, ast.UnaryOp) and isinstance(rr[0].value.op, ast.Invert):
            g0 = gadget_relation(rr[0].value.operand, env)
            if g0 is not None and g0[0] == "==0":
                g = ("!=0", g0[1])
        term = "%s returns %s: tests %s; the operator means %s" % (name, norm(rr[0].value) if rr else None,
                                                                   show(g) if g else None, show(want))
        # every OTHER way out of the operator must be the same test too (or NotImplemented): an early return of a ready-made answer
        # is an answer that was not computed from the operand
        stray = None
        for r_ in rr[1:]:
            if r_.value is None or norm(r_.value) == "NotImplemented":
                continue
            g2 = gadget_relation(r_.value, env)
            if g2 is None and isinstance(r_.value, ast.UnaryOp) and isinstance(r_.value.op, ast.Invert):
                g0 = gadget_relation(r_.value.operand, env)
                g2 = ("!=0", g0[1]) if g0 is not None and g0[0] == "==0" else None
            if g2 != want:
                stray = r_
        if g is not None and g == want and stray is not None:
            # a ready-made answer for a public operand beyond +-2^E is right exactly when the secret operand is known to lie within:
            # the dominating refusal `x.bit_length() > W` must have W <= E
            from ..hints import paths_to as _ptc
            from ..flatten import resolve_locals as _rlc
            verdict = "undecided"
            for pth in _ptc(fi.node, stray):
                W = E = None
                for t_, pol_ in pth.conds:
                    for x_ in ast.walk(_rlc(fi.node, t_)):
                        if isinstance(x_, ast.Compare) and len(x_.ops) == 1 and ".bit_length()" in norm(x_.left) and isinstance(x_.ops[0], ast.Gt):
                            W = poly_of(x_.comparators[0], {"bitlength": P.sym("bl")}, strict=True)
                        if isinstance(x_, ast.BinOp) and isinstance(x_.op, ast.LShift) and norm(x_.left) == "1":
                            e_ = poly_of(x_.right, {"bitlength": P.sym("bl")}, strict=True)
                            E = e_ if e_ is not None else E
                if W is not None and E is not None and (W - E).is_const():
                    verdict = "ok" if (W - E).const_value() <= 0 else "violation: values up to 2^(%s) pass the refusal, the answer assumes |x| < 2^(%s)" % (W, E)
                    if verdict != "ok":
                        break
            if verdict == "ok":
                rule.ok(fi.loc(stray), fi.fq, "%s: ready-made answer for a public operand beyond the value range" % name, "the dominating "
                        "refusal bounds the secret operand within that range")
            elif verdict.startswith("violation"):
                rule.violation(fi.loc(stray), fi.fq, "%s also returns `%s`" % (name, norm(stray.value)[:60]), "the comparison has a way out "
                               "that does not go through the test of `%s`, and its domain check is too weak (%s): for such operands the "
                               "answer differs from Python's" % (show(want), verdict[11:]), "cmp/%s/stray" % name)
            else:
                rule.undecided(fi.loc(stray), fi.fq, "%s also returns `%s`" % (name, norm(stray.value)[:60]), "a way out of the comparison "
                               "that does not go through its test; its domain argument is not interpretable")
        elif g is not None and g == want:
            rule.ok(fi.loc(), fi.fq, term)
        elif g is None:
            rule.undecided(fi.loc(), fi.fq, term, "comparison not in gadget form")
        else:
            rule.violation(fi.loc(), fi.fq, term, "comparison tests a different relation than Python's `%s`" % name.strip("_"),
                           "cmp/%s" % name)
    # ---- hints use the dunder's own operator
    for name, opcls in HINT_OP.items():
        fi = lc.methods[name]
        s_, o_ = fi.params[0], fi.params[1]
        found = 0
        for c in ast.walk(fi.node):
            if isinstance(c, ast.Call) and norm(c.func) in ("PrivVal", "LinComb") and c.args:
                h = c.args[0]
                if not isinstance(h, ast.BinOp):
                    continue
                ops = {norm(h.left), norm(h.right)}
                involves = any(x.startswith("%s.value" % s_) or x == s_ for x in ops)
                if not involves or (name == "__divmod__" and isinstance(h.op, ast.Sub)):
                    continue
                if any(isinstance(p_, ast.If) and norm(p_.test) == "ignore_errors()" and c in [y for b_ in p_.body for y in ast.walk(b_)]
                       for p_ in parents(c)):
                    continue      # error-suppressed arm: no Python value to agree with (C04 decides value == wire there)
                found += 1
                left_ok = norm(h.left) == "%s.value" % s_ and norm(h.right) in ("%s.value" % o_, o_)
                if isinstance(h.op, opcls) and left_ok:
                    rule.ok(fi.loc(c), fi.fq, "%s hint: %s" % (name, norm(h)), "value computed with the operator the method implements")
                elif isinstance(h.op, (ast.Add, ast.Mult, ast.BitAnd, ast.BitOr, ast.BitXor)) and isinstance(h.op, opcls) and \
                        {norm(h.left), norm(h.right)} <= {"%s.value" % s_, "%s.value" % o_, o_}:
                    rule.ok(fi.loc(c), fi.fq, "%s hint: %s" % (name, norm(h)), "commutative operator, operands swapped")
                else:
                    rule.violation(fi.loc(c), fi.fq, "%s hint: %s" % (name, norm(h)), "result hint is not `self.value %s other`" % (
                        OPSYM.get(name.strip("_"), "//")), "hint/%s/%s" % (name, norm(h)[:40]))
        if not found:
            rule.undecided(fi.loc(), fi.fq, name, "no value hint found")
    # exact division is guarded by a divisibility test
    td = lc.methods["__truediv__"]
    for c in ast.walk(td.node):
        if isinstance(c, ast.Call) and norm(c.func) in ("PrivVal", "LinComb") and c.args and isinstance(c.args[0], ast.BinOp) \
                and isinstance(c.args[0].op, ast.FloorDiv):
            h = c.args[0]
            want = "%s %% %s == 0" % (norm(h.left), norm(h.right))
            gov = [p for p in parents(c) if isinstance(p, ast.If)]
            if any(want in norm(g.test) for g in gov):
                rule.ok(td.loc(c), td.fq, norm(h), "floor division used only under `%s`" % want)
            else:
                rule.violation(td.loc(c), td.fq, norm(h), "`/` computes a floor quotient without a dominating exact-divisibility test",
                               "truediv/divis/%s" % norm(h)[:30])
    # remainder
    dm = lc.methods["__divmod__"]
    # path by path with checks on (an error-suppressed arm has no Python value to agree with): the pair returned is
    # (s // d, s - (s // d) * d) in every case the tests on the way split
    from ..hints import paths_to as _ptdm, all_cases as _acdm
    rets = [n for n in rets_of(dm) if isinstance(n.value, ast.Tuple) and len(n.value.elts) == 2]
    fd = P.sym("floordiv(s,d)")
    verdict, detail = None, ""
    for r_ in rets:
        for pth in _ptdm(dm.node, r_):
            if any(norm(t_) == "ignore_errors()" and pol_ for t_, pol_ in pth.conds):
                continue
            def _assume(pth=pth):
                v_ = Valuer({dm.params[0]: P.sym("s"), dm.params[1]: P.sym("d")})
                v_.assume(ast.parse("ignore_errors()", mode="eval").body, False)
                v_.assume(ast.parse("is_guard()", mode="eval").body, True)
                pre_assume(v_, pth)
                return v_
            def _build(v_, pth=pth, r_=r_):
                replay(v_, pth)
                qv, rv = v_._p(r_.value.elts[0]), v_._p(r_.value.elts[1])
                # two residues packed into one polynomial identity: both must vanish
                return (qv - fd) * P.sym("__q__") + (rv - (P.sym("s") - fd * P.sym("d"))) * P.sym("__r__")
            for desc, p_, _v in _acdm(_build, _assume):
                if isinstance(p_, str):
                    if verdict is None:
                        verdict, detail = "undecided", p_
                elif not p_.is_zero():
                    verdict, detail = "violation", "%s when {%s}" % (p_, ", ".join(desc))
                elif verdict is None:
                    verdict = "ok"
    # a return that hands back the pair of ANOTHER division (`return (-self).__divmod__(-divisor)`): by induction that pair is
    # (E // F, E - (E // F)*F); for (E, F) = (k*s, k*d) the quotient is the same and the remainder is k times Python's - so
    # the pair may only be returned as it is when k = 1
    for r_ in rets_of(dm):
        c_ = r_.value
        if not (isinstance(c_, ast.Call) and ((isinstance(c_.func, ast.Attribute) and c_.func.attr == "__divmod__" and len(c_.args) == 1)
                                              or (norm(c_.func) == "divmod" and len(c_.args) == 2))):
            continue
        e_, f_ = (c_.func.value, c_.args[0]) if isinstance(c_.func, ast.Attribute) else (c_.args[0], c_.args[1])
        try:
            vv = Valuer({dm.params[0]: P.sym("s"), dm.params[1]: P.sym("d")})
            pe, pf = vv._p(e_), vv._p(f_)
        except Exception:
            rule.undecided(dm.loc(r_), dm.fq, norm(r_), "delegated division with operands outside the value engine")
            continue
        ks = [k_ for k_ in (-1, 2, -2) if pe == P.sym("s") * k_ and pf == P.sym("d") * k_]
        if ks:
            verdict = "violation"
            detail = "`%s` hands back the remainder of the scaled problem: (%d*s) %% (%d*d) = %d * (s %% d), not s %% d" % (
                norm(r_)[:60], ks[0], ks[0], ks[0])
            rets = [r_] + rets
        elif not (pe == P.sym("s") and pf == P.sym("d")):
            if verdict != "violation":
                verdict, detail = "undecided", "delegated division `%s` on other operands" % norm(r_)[:60]
    if verdict == "ok":
        rule.ok(dm.loc(rets[0]), dm.fq, "returns (s // d, s - (s // d)*d)", "Python's floor division and modulo on every path with checks on")
    elif verdict == "violation":
        rule.violation(dm.loc(rets[0]), dm.fq, "returns a pair with residue %s" % detail, "quotient/remainder hints are not Python's floor "
                       "division and modulo", "divmod/hints")
    else:
        rule.undecided(dm.loc(), dm.fq, "divmod hints", detail or "no tuple return found")
    for name, idx in (("__floordiv__", 0), ("__mod__", 1)):
        f = lc.methods[name]
        rr = [r for r in rets_of(f) if isinstance(r.value, ast.Subscript)]
        if rr and norm(rr[0].value.slice) == str(idx) and "__divmod__" in norm(f.node.body):
            rule.ok(f.loc(), f.fq, "%s = divmod(...)[%d]" % (name, idx))
        else:
            rule.violation(f.loc(), f.fq, norm(f.node.body)[:100], "%s does not return component %d of divmod" % (name, idx), "divmod/%s" % name)
    # ---- Boolean operators
    bc = repo.cls("pysnark.boolean", "LinCombBool")
    tables = {"__and__": (0, 0, 0, 1), "__or__": (0, 1, 1, 1), "__xor__": (0, 1, 1, 0)}
    for name, tt in tables.items():
        fi = bc.methods[name]
        s_, o_ = fi.params
        n_arms = 0
        from ..hints import paths_to, Path
        for c in ast.walk(fi.node):
            if isinstance(c, ast.Call) and norm(c.func) == "LinCombBool" and c.args:
                # path by path: a local bound to the converted operand (`_ensurebool(other)[.lc]`) or to its 0/1
                # normalisation (`1 if other else 0`) stands for the operand's truth value b
                for path in (paths_to(fi.node, c) or [Path()]):
                    env = {s_: P.sym("a"), o_: P.sym("b")}
                    for step in path.steps:
                        if step[0] != "assign":
                            continue
                        nm, val = step[1], step[2]
                        vt = norm(val)
                        if ("_ensurebool(%s)" % o_) in vt and isinstance(val, (ast.Call, ast.Attribute)):
                            env[nm] = P.sym("b")
                        elif isinstance(val, ast.IfExp) and norm(val.body) == "1" and norm(val.orelse) == "0" and norm(val.test) == o_:
                            env[nm] = P.sym("b")
                        else:
                            try:
                                env[nm] = Valuer(dict(env))._p(val)
                            except (Undecidable, NeedCase):
                                env[nm] = P.sym("?" + nm)
                    try:
                        p = Valuer(env)._p(c.args[0])
                    except (Undecidable, NeedCase):
                        rule.undecided(fi.loc(c), fi.fq, norm(c), "not interpretable")
                        continue
                    n_arms += 1
                    table = tuple(int(p.evaluate({"a": x, "b": y})) for x in (0, 1) for y in (0, 1)) if p.symbols() <= {"a", "b"} else None
                    if table == tt:
                        rule.ok(fi.loc(c), fi.fq, "%s: %s" % (name, p), "truth table %s" % (table,))
                    else:
                        rule.violation(fi.loc(c), fi.fq, "%s: %s has table %s" % (name, p, table), "Boolean operator does not have the truth "
                                       "table of `%s`" % OPSYM[name.strip("_")], "bool/%s/%s" % (name, norm(c.args[0])[:30]))
        if n_arms < 2:
            rule.undecided(fi.loc(), fi.fq, name, "expected a wire arm and a constant arm")
    inv = bc.methods["__invert__"]
    rr = rets_of(inv)
    v = Valuer({inv.params[0]: P.sym("a")})
    try:
        p = v._p(rr[0].value.args[0]) if rr and isinstance(rr[0].value, ast.Call) else None
    except (Undecidable, NeedCase):
        p = None
    if p is not None and p == 1 - P.sym("a"):
        rule.ok(inv.loc(), inv.fq, "~a = 1 - a")
    else:
        rule.violation(inv.loc(), inv.fq, "~a = %s" % p, "logical not is not 1 - a", "bool/__invert__")
    # ---- shifts, abs, pow
    from ..bykind import returns_by_kind
    KINDS = {"int": ("int",), "secret": ("LinComb",)}
    ls, rs = lc.methods["__lshift__"], lc.methods["__rshift__"]
    s_, o_ = ls.params
    POW = P.sym("2^k")
    penv = {s_: P.sym("x"), "1 << %s" % o_: POW, "2 ** %s" % o_: POW}
    got = returns_by_kind(ls, o_, KINDS)
    bad = []
    for kind in KINDS:
        vals = [(r, e) for r, e in got[kind] if norm(e) != "NotImplemented"]
        if not vals:
            bad.append((ls.node, "%s count: no value returned" % kind))
        for r, e in vals:
            p = poly_of(e, penv, strict=True)
            if p is None or p != P.sym("x") * POW:
                bad.append((r, "%s count: returns %s" % (kind, norm(e))))
    if not bad:
        rule.ok(ls.loc(), ls.fq, "x << k = x * 2^k (public and secret k)")
    else:
        rule.violation(ls.loc(bad[0][0]), ls.fq, "; ".join(b_[1] for b_ in bad)[:160], "left shift is not multiplication by 2^k", "shift/left")
    s_, o_ = rs.params
    got = returns_by_kind(rs, o_, KINDS)
    ivals = {norm(e).replace(" ", "") for _r, e in got["int"] if norm(e) != "NotImplemented"}
    svals = {norm(e).replace(" ", "") for _r, e in got["secret"] if norm(e) != "NotImplemented"}
    ok_int = ivals and ivals <= {"LinComb.from_bits(%s.to_bits()[%s:])" % (s_, o_)}
    ok_lc = svals and svals <= {"%s//2**%s" % (s_, o_), "%s//(1<<%s)" % (s_, o_)}
    if ok_int and ok_lc:
        rule.ok(rs.loc(), rs.fq, "x >> k = recompose(bits[k:]) / x // 2^k")
    else:
        rule.violation(rs.loc(), rs.fq, "int: %s; secret: %s" % (sorted(ivals), sorted(svals)), "right shift does not drop exactly the k low bits",
                       "shift/right")
    ab = lc.methods["__abs__"]
    rr = rets_of(ab)
    s_ = ab.params[0]
    from ..flatten import resolve_locals as _rl
    at = norm(_rl(ab.node, rr[0].value)) if rr else ""
    if at in ("if_then_else(%s >= 0, %s, -%s)" % (s_, s_, s_), "if_then_else(%s < 0, -%s, %s)" % (s_, s_, s_)):
        rule.ok(ab.loc(), ab.fq, at)
    elif rr and isinstance(_rl(ab.node, rr[0].value), ast.Call) and norm(_rl(ab.node, rr[0].value).func) == "if_then_else" \
            and len(_rl(ab.node, rr[0].value).args) == 3 and not _rl(ab.node, rr[0].value).keywords \
            and _sign_test(_rl(ab.node, rr[0].value).args[0], s_) is not None \
            and all(poly_of(a_, {s_: P.sym("x")}, strict=True) is not None for a_ in _rl(ab.node, rr[0].value).args[1:]):
        # a selection on a sign test of x between two polynomials of x: decided on the three sign classes (x > 0, x = 0, x < 0)
        call_ = _rl(ab.node, rr[0].value)
        holds = _sign_test(call_.args[0], s_)
        pa, pb = [poly_of(a_, {s_: P.sym("x")}, strict=True) for a_ in call_.args[1:]]
        bad = []
        for cls_, want in (("x > 0", P.sym("x")), ("x = 0", P.const(0)), ("x < 0", -P.sym("x"))):
            got = pa if holds[cls_] else pb
            d_ = got - want
            if cls_ == "x = 0":
                d_ = d_.subst({"x": P.const(0)})
            if not d_.is_zero():
                bad.append("%s: returns %s" % (cls_, got))
        if bad:
            rule.violation(ab.loc(), ab.fq, at[:100] + "  [" + "; ".join(bad) + "]", "abs is not select(x >= 0, x, -x)", "abs")
        else:
            rule.ok(ab.loc(), ab.fq, at[:100], "selection on a sign test: x, 0, -x on the three sign classes")
    else:
        # any other construction (e.g. recomposing the magnitude bits of the sign test): the value returned, path by path with
        # checks on and split on the sign, must be x for x >= 0 and -x for x < 0
        from ..hints import paths_to as _ptab, all_cases as _acab
        verdict, detail = None, ""
        x = P.sym("x")
        for r_ in rr:
            for pth in _ptab(ab.node, r_):
                if any(norm(t_) == "ignore_errors()" and pol_ for t_, pol_ in pth.conds):
                    continue
                for nonneg in (True, False):
                    def _assume(pth=pth, nonneg=nonneg):
                        v_ = Valuer({s_: x})
                        v_.assume(ast.parse("ignore_errors()", mode="eval").body, False)
                        v_.assume(ast.parse("is_guard()", mode="eval").body, True)
                        v_.assume(ast.parse("%s.value >= 0" % s_, mode="eval").body, nonneg)
                        pre_assume(v_, pth)
                        return v_
                    def _build(v_, pth=pth, r_=r_, nonneg=nonneg):
                        replay(v_, pth)
                        return v_._p(r_.value) - (x if nonneg else -x)
                    for desc, p_, _v in _acab(_build, _assume):
                        if isinstance(p_, str):
                            if verdict is None:
                                verdict, detail = "undecided", p_
                        elif not p_.is_zero():
                            verdict, detail = "violation", "x %s 0: result - |x| = %s" % (">=" if nonneg else "<", p_)
                        elif verdict is None:
                            verdict = "ok"
        if verdict == "ok":
            rule.ok(ab.loc(), ab.fq, at[:100], "returns x for x >= 0 and -x for x < 0 on every path with checks on")
        elif verdict == "violation":
            rule.violation(ab.loc(), ab.fq, at[:100] + "  [" + detail + "]", "abs is not select(x >= 0, x, -x)", "abs")
        else:
            rule.undecided(ab.loc(), ab.fq, at[:100], detail or "no return reached with checks on")
    pw = lc.methods["__pow__"]
    s_, o_ = pw.params[0], pw.params[1]
    txt = norm(pw.node.body)
    base0 = any(isinstance(n, ast.If) and norm(n.test) == "%s == 0" % o_ and "return LinComb.ONE" in norm(n.body) for n in ast.walk(pw.node))
    base1 = any(isinstance(n, ast.If) and norm(n.test) == "%s == 1" % o_ and "return %s" % s_ in norm(n.body) for n in ast.walk(pw.node))
    step = "return %s * %s ** (%s - 1)" % (s_, s_, o_) in txt
    negx = any(isinstance(n, ast.If) and norm(n.test) == "%s < 0" % o_ and any(isinstance(b, ast.Raise) for b in n.body) for n in ast.walk(pw.node))
    if base0 and base1 and step and negx:
        rule.ok(pw.loc(), pw.fq, "x**0 = 1, x**1 = x, x**n = x * x**(n-1), negative exponent raises")
    else:
        rule.violation(pw.loc(), pw.fq, "base0=%s base1=%s step=%s neg=%s" % (base0, base1, step, negx),
                       "integer power is not the standard recursion with base cases 0 and 1", "pow/int")


def rule_operand_used(repo, rule):
    for mod, cn in ((RT, "LinComb"), ("pysnark.boolean", "LinCombBool"), ("pysnark.fixedpoint", "LinCombFxp")):
        ci = repo.cls(mod, cn)
        for name, fi in sorted(ci.methods.items()):
            core = name.strip("_")
            if not (name.startswith("__") and name.endswith("__")):
                continue
            if core not in BINARY and not (core.startswith("r") and core[1:] in BINARY) and name not in CMP:
                continue
            if len(fi.params) < 2:
                continue
            o_ = fi.params[1]
            rr = rets_of(fi)
            if rr and all(norm(r.value) == "NotImplemented" for r in rr):
                continue
            uses = [n for n in ast.walk(fi.node) if isinstance(n, ast.Name) and n.id == o_ and isinstance(n.ctx, ast.Load)]
            if uses:
                rule.ok(fi.loc(), fi.fq, "%s uses `%s` (%d reads)" % (name, o_, len(uses)))
            else:
                rule.violation(fi.loc(), fi.fq, "%s(%s): %s" % (name, o_, norm(rr[0].value) if rr else ""),
                               "binary operator ignores its operand: the result cannot agree with Python for all operands",
                               "%s/unused-operand" % fi.fq)


def rule_sign(repo, rule):
    lc = repo.cls(RT, "LinComb")
    n_sites = 0
    for name, fi in sorted(lc.methods.items()):
        # public-int arms: slices bounded by the operand
        for arm in ast.walk(fi.node):
            if not (isinstance(arm, ast.If) and isinstance(arm.test, ast.Call) and norm(arm.test).startswith("isinstance(")
                    and norm(arm.test).endswith(", int)") and arm.test.args):
                continue
            p = arm.test.args[0].id if isinstance(arm.test.args[0], ast.Name) else None
            if p is None or p not in fi.params:
                continue
            for sl in [x for s in arm.body for x in ast.walk(s) if isinstance(x, ast.Subscript) and isinstance(x.slice, ast.Slice)]:
                bounds = [b for b in (sl.slice.lower, sl.slice.upper) if b is not None and p in {n.id for n in ast.walk(b) if isinstance(n, ast.Name)}]
                if not bounds:
                    continue
                n_sites += 1
                guarded = False
                for s in arm.body:
                    if any(x is sl for x in ast.walk(s)):
                        break
                    if isinstance(s, ast.If) and any(isinstance(b, ast.Raise) for b in s.body) and norm(s.test) in (
                            "%s < 0" % p, "0 > %s" % p, "%s <= -1" % p):
                        guarded = True
                    # an earlier  1 << p  raises ValueError on negatives by itself
                    if any(isinstance(x, ast.BinOp) and isinstance(x.op, ast.LShift) and norm(x.right) == p for x in ast.walk(s)):
                        guarded = True
                term = "%s[%s] with public int `%s` in %s" % (norm(sl.value), norm(sl.slice), p, name)
                if guarded:
                    rule.ok(fi.loc(sl), fi.fq, term, "negative values are rejected before the slice")
                else:
                    rule.violation(fi.loc(sl), fi.fq, term, "a negative `%s` silently selects the wrong bits (Python raises ValueError "
                                   "for a negative shift count)" % p, "%s/slice/%s" % (fi.fq, p))
    return n_sites


def rule_divisor(repo, rule):
    lc = repo.cls(RT, "LinComb")
    for name in ("__truediv__", "__divmod__"):
        fi = lc.methods[name]
        o_ = fi.params[1]
        tests = [n for n in ast.walk(fi.node) if isinstance(n, ast.If) and any(isinstance(b, ast.Raise) for b in n.body)
                 and norm(n.test) in ("%s == 0" % o_, "%s.value == 0" % o_)]
        uses = [n for n in ast.walk(fi.node) if isinstance(n, ast.BinOp) and isinstance(n.op, (ast.FloorDiv, ast.Mod, ast.Div))
                and norm(n.right) in (o_, "%s.value" % o_)] + \
               [n for n in ast.walk(fi.node) if isinstance(n, ast.Call) and norm(n.func).endswith("fieldinverse") and norm(n.args[0]) == o_]
        from ..hints import paths_to as _pt
        from .c07 import excludes_zero, short_circuit_conds
        for u in uses:
            operand = u.right if isinstance(u, ast.BinOp) else u.args[0]
            kind = norm(operand)
            upaths = _pt(fi.node, u)
            # (a) the division itself is never reached with a zero divisor: on every path some governing test - an earlier `if`,
            #     or an earlier operand of the `and` / conditional expression it sits in - excludes zero
            sc = short_circuit_conds(u)
            prot = bool(upaths) and all(
                any(c is t.test and not pol and norm(t.test) == "%s == 0" % kind for t in tests for c, pol in pth.conds)
                or excludes_zero([(c, pol, False) for c, pol in pth.conds] + sc, kind) for pth in upaths)
            # (b) with checks on, a zero divisor raises: some `if <divisor> == 0: raise` is reached on a path whose other
            #     conditions are type tests, `ignore_errors()` being false, or tests that a zero divisor falsifies
            def _falsified_by_zero(c_):
                vals = c_.values if isinstance(c_, ast.BoolOp) and isinstance(c_.op, ast.And) else [c_]
                return any(norm(v_).replace(" ", "") in ("%s!=0" % kind, "0!=%s" % kind, kind) for v_ in vals)
            raises = False
            for rz in [x for x in ast.walk(fi.node) if isinstance(x, ast.Raise)]:
                for pth in _pt(fi.node, rz):
                    zero_here = False
                    fine = True
                    for c, pol in pth.conds:
                        tc = norm(c).replace(" ", "")
                        if tc in ("%s==0" % kind, "0==%s" % kind, "not%s" % kind):
                            zero_here = zero_here or pol
                            fine = fine and pol
                        elif not pol and _falsified_by_zero(c):
                            zero_here = True
                        elif "isinstance(" in tc or (tc == "ignore_errors()" and not pol) or (tc == "notignore_errors()" and pol):
                            pass
                        else:
                            fine = False
                    if fine and zero_here:
                        raises = True
            if prot and raises:
                rule.ok(fi.loc(u), fi.fq, "%s: `%s` is not reached with %s == 0, and a zero divisor raises when checks are on" % (name, norm(u)[:50], kind))
            else:
                rule.violation(fi.loc(u), fi.fq, "%s: `%s` without a preceding zero test of %s" % (name, norm(u)[:60], kind),
                               "division by zero is not turned into the documented ValueError" if prot else
                               "the division can be reached with a zero divisor (ZeroDivisionError instead of the documented ValueError)",
                               "%s/zero/%s" % (fi.fq, kind))


def rule_domain(repo, rule):
    """An operator arm whose result is built from a bit decomposition of `self` is only correct for operands in the
    decomposition's range; the decomposition (which raises outside the range) must therefore lie on every completing
    path of that arm - a shortcut return that skips it returns a value where Python's differs."""
    from ..cfg import CFG, calls_in, own_stmt_part
    lc = repo.cls(RT, "LinComb")
    for name, fi in sorted(lc.methods.items()):
        if not (name.startswith("__") and name.endswith("__")):
            continue
        s_ = fi.params[0] if fi.params else "self"
        arms = [n for n in fi.node.body if isinstance(n, ast.If) and norm(n.test).startswith("isinstance(")]
        if not arms:
            arms = [None]
        cfg = None
        for arm in arms:
            scope = arm.body if arm is not None else fi.node.body
            dec = [c for st in scope for c in ast.walk(st) if isinstance(c, ast.Call) and isinstance(c.func, ast.Attribute)
                   and c.func.attr == "to_bits" and norm(c.func.value) == s_]
            if not dec:
                continue
            if cfg is None:
                cfg = CFG(fi.node)
            dn = {n for n in range(cfg.n) if cfg.stmt[n] is not None and any(
                c in dec for c in calls_in(own_stmt_part(cfg.stmt[n], cfg.kind[n])))}
            first = scope[0]
            start = [n for n in range(cfg.n) if cfg.stmt[n] is first]
            where = fi.loc(dec[0])
            if not start:
                rule.undecided(where, fi.fq, name, "arm entry not found in the CFG")
                continue
            if start[0] in dn:
                rule.ok(where, fi.fq, "%s: %s dominates the arm" % (name, norm(dec[0])))
                continue
            # pretend entry: paths from the arm's first statement to EXIT avoiding the decomposition
            avoid = set(dn)
            seen = cfg.reach_avoiding(start[0], avoid)
            seen.add(start[0])
            leak = None
            for n in sorted(seen):
                st = cfg.stmt[n]
                if isinstance(st, ast.Return) and st.value is not None and norm(st.value) != "NotImplemented" and any(st is x for s2 in scope for x in ast.walk(s2)):
                    leak = st
                    break
            term = "%s arm `%s`: result built from %s" % (name, norm(arm.test) if arm is not None else "-", norm(dec[0]))
            if leak is not None:
                rule.violation(fi.loc(leak), fi.fq, term + "; but `%s` is reached without it" % norm(leak)[:60],
                               "a path returns a result without the range-checking decomposition: for operands outside the "
                               "bitlength range it returns a value instead of raising, and the value differs from Python's",
                               "%s/domain/%s" % (fi.fq, norm(leak)[:40]))
            else:
                rule.ok(where, fi.fq, term, "the decomposition lies on every completing path of the arm")


def rule_no_operand_mutation(repo, rule):
    """An operator returns a new value and leaves its operands alone: no statement of a dunder method assigns to `.value`
    (or `.lc`) of an object that may BE one of the operands.  Flow-sensitive may-alias analysis over the method body: a
    name is {operand p, ...} after `name = p` / `name = other_name`, fresh after any other assignment; loops are iterated
    to a fixed point, branches joined."""
    n_sites = 0
    for mod, cn in ((RT, "LinComb"), ("pysnark.boolean", "LinCombBool"), ("pysnark.fixedpoint", "LinCombFxp")):
        ci = repo.cls(mod, cn)
        for name, fi in sorted(ci.methods.items()):
            if not (name.startswith("__") and name.endswith("__")) or name in ("__init__", "__new__", "__setattr__", "__setitem__") \
                    or not isinstance(fi.node, ast.FunctionDef):
                continue
            params = set(fi.params)
            found = []

            def join(a, b):
                return {k: a.get(k, frozenset(["fresh"])) | b.get(k, frozenset(["fresh"])) for k in set(a) | set(b)}

            def run(stmts, st):
                for s in stmts:
                    if isinstance(s, ast.Assign) and len(s.targets) == 1 and isinstance(s.targets[0], ast.Name):
                        v = s.value
                        if isinstance(v, ast.Name):
                            st[s.targets[0].id] = st.get(v.id, frozenset([v.id]) if v.id in params else frozenset(["fresh"]))
                        elif isinstance(v, ast.IfExp) and all(isinstance(x, ast.Name) for x in (v.body, v.orelse)):
                            st[s.targets[0].id] = frozenset().union(*[st.get(x.id, frozenset([x.id]) if x.id in params else frozenset(["fresh"]))
                                                                      for x in (v.body, v.orelse)])
                        else:
                            st[s.targets[0].id] = frozenset(["fresh"])
                    elif isinstance(s, (ast.Assign, ast.AugAssign)):
                        for t in (s.targets if isinstance(s, ast.Assign) else [s.target]):
                            if isinstance(t, ast.Attribute) and t.attr in ("value", "lc") and isinstance(t.value, ast.Name):
                                who = st.get(t.value.id, frozenset([t.value.id]) if t.value.id in params else frozenset(["fresh"]))
                                hit = sorted(w for w in who if w in params)
                                found.append((s, t, hit))
                    elif isinstance(s, ast.If):
                        a, b = dict(st), dict(st)
                        run(s.body, a)
                        run(s.orelse, b)
                        st.clear()
                        st.update(join(a, b))
                    elif isinstance(s, (ast.For, ast.While)):
                        for _ in range(3):
                            b = dict(st)
                            if isinstance(s, ast.For):
                                for x in ast.walk(s.target):
                                    if isinstance(x, ast.Name):
                                        b[x.id] = frozenset(["fresh"])
                            run(s.body, b)
                            j = join(st, b)
                            if j == st:
                                break
                            st.clear()
                            st.update(j)
                        # findings of the last, widest pass are the ones that count
                    elif isinstance(s, (ast.With, ast.Try)):
                        run(getattr(s, "body", []), st)
                        for h in getattr(s, "handlers", []) or []:
                            run(h.body, st)
                        run(getattr(s, "finalbody", []) or [], st)
            run(fi.node.body, {p: frozenset([p]) for p in params})
            seen = set()
            for s, t, hit in found:
                if id(s) in seen:
                    continue
                n_sites += 1
                if hit:
                    seen.add(id(s))
                    rule.violation(fi.loc(s), fi.fq, norm(s), "the operator writes `%s` of an object that can be its own operand `%s`: "
                                   "evaluating `%s` changes the operand the caller still holds" % (t.attr, hit[0], name.strip("_")),
                                   "%s/mutates/%s" % (fi.fq, hit[0]))
            clean = [s for s, t, hit in found if not hit and id(s) not in seen]
            done = set()
            for s in clean:
                if id(s) in done or any(id(s) == id(s2) and h for s2, _t, h in found):
                    continue
                done.add(id(s))
                rule.ok(fi.loc(s), fi.fq, norm(s), "written object is a fresh intermediate on every path")
    return n_sites


def rule_no_reduction(repo, rule):
    """Integer operators must report Python's integer, not its residue mod p: an in-place `value %= modulus` inside an
    operator turns negative (and >= p) results into different numbers."""
    n = 0
    for mod, cn in ((RT, "LinComb"), ("pysnark.boolean", "LinCombBool")):
        ci = repo.cls(mod, cn)
        for name, fi in sorted(ci.methods.items()):
            if not (name.startswith("__") and name.endswith("__")):
                continue
            k_in_op = 0
            sts = sorted((x for x in ast.walk(fi.node) if isinstance(x, (ast.AugAssign, ast.Assign))),
                         key=lambda x: (getattr(x, "lineno", 0), getattr(x, "col_offset", 0)))
            # order of execution inside the operator = order in the flattened body (inlined helpers keep their own line numbers)
            order = {id(x): i for i, x in enumerate(x for x in ast.walk(ast.Module(body=fi.node.body, type_ignores=[]))
                                                    if isinstance(x, (ast.AugAssign, ast.Assign)))}
            sts.sort(key=lambda x: order.get(id(x), 0))
            for st in sts:
                tgt = None
                if isinstance(st, ast.AugAssign) and isinstance(st.op, ast.Mod):
                    tgt = st.target
                elif isinstance(st, ast.Assign) and isinstance(st.value, ast.BinOp) and isinstance(st.value.op, ast.Mod):
                    tgt = st.targets[0]
                if tgt is not None and isinstance(tgt, ast.Attribute) and tgt.attr == "value":
                    n += 1
                    k_in_op += 1
                    rule.violation(fi.loc(st), fi.fq, norm(st), "the reported value of `%s` is reduced into [0, p): for a negative (or "
                                   ">= p) result it differs from the value Python computes" % name.strip("_"),
                                   "%s/reduce/#%d" % (fi.fq, k_in_op))
    ops = sum(1 for mod, cn in ((RT, "LinComb"), ("pysnark.boolean", "LinCombBool")) for nm in repo.cls(mod, cn).methods
              if nm.startswith("__") and nm.endswith("__"))
    rule.ok("%s" % RT, "operators", "%d operator methods scanned, %d in-place reductions of a reported value" % (ops, n))


PRIMITIVES = {"check_zero": ("{s}.value == 0", "x == 0"), "check_positive": ("{s}.value >= 0", "x >= 0")}


def rule_primitive_hints(repo, rule):
    """The 0/1 result of the comparison primitives is hinted with Python's own truth value of the relation (over the
    integers - not over the field, and not some other predicate), on every honest path and for both outcomes."""
    from ..hints import all_cases, paths_to
    from .c01 import base_env, honest
    lc = repo.cls(RT, "LinComb")
    for name, (ref, human) in PRIMITIVES.items():
        fi = lc.methods.get(name)
        if fi is None:
            raise AnalysisError("LinComb.%s not found" % name)
        reft = ast.parse(ref.format(s=fi.params[0]), mode="eval").body
        rets = [r for r in rets_of(fi) if norm(r.value) != "NotImplemented"]
        if not rets:
            rule.violation(fi.loc(), fi.fq, "no return", "comparison primitive returns nothing", "%s/ret" % name)
            continue
        for r in rets:
            bad, und, n = [], [], 0
            for path in paths_to(fi.node, r):
                if not honest(path):
                    continue
                for truth in (True, False):
                    def assumptions(path=path, truth=truth):
                        v = Valuer(base_env(fi))
                        v.exact_int = True
                        v.assume(ast.parse("is_guard()", mode="eval").body, True)
                        v.assume(ast.parse("ignore_errors()", mode="eval").body, False)
                        v.assume(reft, truth)
                        pre_assume(v, path)
                        return v

                    def build(v, path=path, truth=truth):
                        replay(v, path)
                        return v._p(r.value) - P.const(1 if truth else 0)
                    for desc, p, _v in all_cases(build, assumptions):
                        n += 1
                        if isinstance(p, str):
                            if not p.startswith("refuted"):
                                und.append(p)
                        elif not p.is_zero():
                            bad.append((truth, desc, p))
            term = "%s: result hint vs Python's `%s`  [%d case(s)]" % (norm(r.value), human, n)
            if bad:
                truth, desc, p = bad[0]
                rule.violation(fi.loc(r), fi.fq, term + "  when %s is %s%s: result - expected = %s" % (
                    human, truth, (" and " + ", ".join(desc)) if desc else "", p),
                    "the comparison result is not hinted with Python's truth value of `%s`: the operator returns a different "
                    "0/1 than the same expression on plain integers" % human, "%s/hint" % name)
            elif und or n == 0:
                rule.undecided(fi.loc(r), fi.fq, term, und[0] if und else "no honest path")
            else:
                rule.ok(fi.loc(r), fi.fq, term, "1 when the relation holds over the integers, 0 otherwise")


def rule_int_invert(repo, rule):
    """`~` is the logical not of LinCombBool only; on a plain int/bool operand Python computes -x-1, which is truthy for
    both 0 and 1.  Every `~e` in the library must have an operand that can never be a plain integer."""
    from .c06 import get_interp
    it = get_interp(repo)
    n = 0
    for m in repo.modules.values():
        if not m.name.startswith("pysnark.") or m.name.startswith("pysnark.zkinterface.") and not m.name.endswith(".backend"):
            continue
        for fi in m.functions.values():
            for x in ast.walk(fi.node):
                if isinstance(x, ast.UnaryOp) and isinstance(x.op, ast.Invert):
                    owner = [p for p in parents(x) if isinstance(p, (ast.FunctionDef, ast.Lambda))]
                    if owner and owner[0] is not fi.node:
                        continue
                    n += 1
                    rec = it.int_inverts.get((fi.fq, x.lineno, x.col_offset))
                    if rec is None:
                        rule.ok(fi.loc(x), fi.fq, norm(x), "operand is never a plain integer (logical not of a Boolean wire)")
                    else:
                        rule.violation(fi.loc(x), fi.fq, "%s  operand kinds %s" % (norm(x), sorted(rec["kinds"])),
                                       "`~` may be applied to a plain int/bool here: Python yields -x-1 (truthy for 0 and for 1), "
                                       "not the logical complement", "invert/%s/%s" % (fi.fq, norm(x)[:40]))
    return n


def rule_domain_accepts(repo, rule):
    """'On operands inside the documented domain it does not raise': in honest mode (a live guard, checks on) the sign
    test check_positive - on which every comparison, abs, // and % rest - raises only for values whose bit length exceeds
    the configured width.  The conditions of every path to a `raise` are evaluated (constant evaluation of the extracted
    tests, is_guard() = True, ignore_errors() = False) for the in-domain bit lengths N-2, N-1, N: none may be feasible;
    and some path must raise for N+1."""
    from ..hints import paths_to
    from .c03 import _ceval, _NoEval
    lc = repo.cls(RT, "LinComb")
    fi = lc.methods["check_positive"]
    wp = [p for p in fi.params[1:]][:1]
    if not wp:
        raise AnalysisError("check_positive has no width parameter")
    wp = wp[0]
    raises = [n for n in ast.walk(fi.node) if isinstance(n, ast.Raise)]
    N = 10
    subj = "%s.value.bit_length()" % fi.params[0]
    feasible_in, feasible_out, und = [], False, None
    for r in raises:
        for path in paths_to(fi.node, r):
            for b in (N - 2, N - 1, N, N + 1):
                env = {"is_guard()": True, "ignore_errors()": False, subj: b, wp: N, "%s is None" % wp: False}
                try:
                    ok = True
                    for st in path.steps:
                        if st[0] == "assign":
                            try:
                                env[st[1]] = _ceval(st[2], env)
                            except _NoEval:
                                env.pop(st[1], None)
                        elif bool(_ceval(st[1], env)) != st[2]:
                            ok = False
                            break
                except _NoEval as e:
                    und = str(e)
                    continue
                if ok and b <= N:
                    feasible_in.append((r, b, path))
                if ok and b > N:
                    feasible_out = True
    where = fi.loc()
    if feasible_in:
        r, b, path = feasible_in[0]
        conds = " and ".join(("" if pol else "not ") + "(" + norm(t) + ")" for t, pol in path.conds)
        rule.violation(fi.loc(r), fi.fq, "raise reached when %s, for a value of bit length %s and width %s" % (
            conds[:160], "N" if b == N else "N-%d" % (N - b), "N"),
            "the sign test raises for values INSIDE the documented domain (bit length %s the width): comparisons, abs, // and %% of "
            "such operands raise instead of returning Python's result" % ("equal to" if b == N else "below"), "domain/check_positive")
    elif und and not feasible_out:
        rule.undecided(where, fi.fq, "raise conditions of check_positive", und)
    elif not feasible_out:
        rule.violation(where, fi.fq, "no raise for bit length N+1", "a value wider than the configured width is accepted by the sign "
                       "test: the comparison silently returns a wrong value", "domain/check_positive-out")
    else:
        rule.ok(where, fi.fq, "%d raise site(s): infeasible for bit lengths <= width, feasible for width + 1" % len(raises),
                "honest mode: is_guard() and not ignore_errors()")


def check(repo, rep, tier):
    rep.explanation = ("Agreement with Python for all operands is a value property; the clauses decided here are structural "
                       "necessary conditions: operand order of reflected methods, the relation each comparison tests (canonical "
                       "affine form), the operator used to compute each result hint, truth tables of the Boolean operators, use "
                       "of the operand, sign guards of slice bounds, zero tests of divisors.")
    rep.trusted = ["Python operator semantics as named by the dunder methods"]
    rep.not_decided = ["range behaviour at the bitlength boundary", "value agreement of composed expressions",
                       "the integer-vs-fixed-point strict comparison (see C14)"]
    r1 = rep.rule("R-C05-1", "reflected operators compute `other op self`", floor=12)
    rule_reflected(repo, r1)
    r2 = rep.rule("R-C05-2", "operator / hint / truth-table correspondence", floor=24)
    rule_correspondence(repo, r2)
    r3 = rep.rule("R-C05-3", "every binary operator uses its operand", floor=30)
    rule_operand_used(repo, r3)
    r4 = rep.rule("R-C05-4", "sign-sensitive uses of public operands are guarded", floor=1)
    rule_sign(repo, r4)
    r5 = rep.rule("R-C05-5", "divisors are tested for zero before use", floor=4)
    rule_divisor(repo, r5)
    r7 = rep.rule("R-C05-7", "range-checking decomposition on every completing path of the arms that depend on it", floor=1)
    rule_domain(repo, r7)
    r8 = rep.rule("R-C05-8", "integer operators report Python's integer, not its residue mod p", floor=1)
    rule_no_reduction(repo, r8)
    r14 = rep.rule("R-C05-14", "operators leave their operands unchanged (no write to .value/.lc of an object that may be an operand)", floor=2)
    rule_no_operand_mutation(repo, r14)
    r15 = rep.rule("R-C05-15", "an operation is a function of its operands: no result or decomposition is cached on an operand and reused (shared memoryless rule)", floor=4)
    from .memoryless import rule_memoryless
    rule_memoryless(repo, r15)
    r9 = rep.rule("R-C05-9", "comparison primitives hint Python's own truth value (over the integers)", floor=2)
    rule_primitive_hints(repo, r9)
    r10 = rep.rule("R-C05-10", "`~` is applied to Boolean wires only, never to plain integers", floor=2)
    rule_int_invert(repo, r10)
    r11 = rep.rule("R-C05-11", "mixed integer / fixed-point comparisons are performed at one scale (shared with C14)", floor=6)
    from .c14 import rule_integer_side
    rule_integer_side(repo, r11)
    r12 = rep.rule("R-C05-12", "selection returns the chosen alternative (shared with C02)", floor=2)
    from .c02 import rule_selection
    rule_selection(repo, r12)
    r13 = rep.rule("R-C05-13", "the sign test raises only outside the documented domain (bit length > width)", floor=1)
    rule_domain_accepts(repo, r13)
    r6 = rep.rule("R-C05-6", "'or raises' is not silently switched off: guard state is restored exactly (shared with C08)", floor=10)
    from .c08 import guard_discipline
    guard_discipline(repo, r6)
