"""C17 - a @snark function exposes exactly its arguments and results as public values.

R-C17-1  who may publish: backend.pubval is reached only from the publishing API
R-C17-2  argument conversion: every numeric leaf (through lists, tuples, dicts, in order, unfiltered) becomes a
         public input; keyword arguments are refused before the function runs
R-C17-3  results: every secret leaf is replaced by .val(); val() allocates one public wire with the same value,
         constrains it equal and returns the plain value
R-C17-4  the wrapper itself emits nothing else
"""
import ast

from ..cfg import CFG, calls_in, own_stmt_part
from ..loader import norm, AnalysisError, parents
from ..poly import P
from ..hints import Valuer
from .c06 import get_interp

RT = "pysnark.runtime"
PUBLISHING_API = {
    "pysnark.runtime:PubVal": "the public-input constructor",
    "pysnark.runtime:LinComb.val": "explicit output",
    "pysnark.boolean:LinCombBool.val": "explicit output (delegates)",
    "pysnark.fixedpoint:LinCombFxp.val": "explicit output (delegates)",
    "pysnark.fixedpoint:LinCombFxp.remove_scaling": "explicit output helper",
    "pysnark.fixedpoint:PubValFxp": "public-input constructor (fixed point)",
    "pysnark.boolean:PubValBool": "public-input constructor (Boolean)",
    "pysnark.runtime:snark": "the @snark wrapper",
    "pysnark.runtime:for_each_in": "structure traversal applying the wrapper's converters",
}


def allowed(fq):
    for k in PUBLISHING_API:
        if fq == k or fq.startswith(k + "."):
            return k
    return None


def rule_who(repo, rule):
    it = get_interp(repo)
    # reverse reachability to BACKEND.pubval
    rev = {}
    for caller, tgts in it.calls.items():
        for t in tgts:
            rev.setdefault(t, set()).add(caller)
    reach = set()
    stack = ["BACKEND.pubval"]
    while stack:
        x = stack.pop()
        for c in rev.get(x, ()):
            if c not in reach:
                reach.add(c)
                # do not climb above the publishing API: its callers publish *by contract*
                if allowed(c) is None or c.startswith("pysnark.runtime:for_each_in") or c.startswith("pysnark.runtime:snark"):
                    stack.append(c)
                elif c in ("pysnark.runtime:PubVal",):
                    stack.append(c)
                elif allowed(c) and c.endswith(".val") or c.endswith("remove_scaling") or c.endswith("PubValFxp") or c.endswith("PubValBool"):
                    stack.append(c)
    direct = rev.get("BACKEND.pubval", set())
    for c in sorted(direct):
        fi = _fn(repo, c)
        where = fi.loc() if fi else c
        if c == RT + ":PubVal":
            rule.ok(where, c, "backend.pubval called from PubVal")
        elif c.split(":")[0].startswith("pysnark.qaptools") or "<module>" in c:
            rule.note(where, c, "backend-internal")
        else:
            rule.violation(where, c, "calls backend.pubval", "a public variable is allocated outside PubVal", "direct/%s" % c)
    n_ok = 0
    for c in sorted(reach):
        if c.split(":")[0] in ("pysnark.qaptools.backend",) or "<module>" in c:
            continue
        fi = _fn(repo, c)
        where = fi.loc() if fi else c
        a = allowed(c)
        if a:
            n_ok += 1
            rule.ok(where, c, "can publish: " + PUBLISHING_API[a])
        else:
            # path for the report
            path = _path(rev, c)
            rule.violation(where, c, "reaches backend.pubval via %s" % " -> ".join(path),
                           "this operation makes a value public although only @snark arguments/results and explicit val() may",
                           "publish/%s" % c)
    if n_ok < 4:
        raise AnalysisError("publishing API not recovered from the call graph (%d functions reach backend.pubval)" % n_ok)


def _fn(repo, fq):
    mod, _, qual = fq.partition(":")
    m = repo.modules.get(mod)
    return m.functions.get(qual) if m else None


def _path(rev, start):
    # forward search from start to BACKEND.pubval
    fwd = {}
    for t, cs in rev.items():
        for c in cs:
            fwd.setdefault(c, set()).add(t)
    seen = {start: None}
    q = [start]
    while q:
        x = q.pop(0)
        if x == "BACKEND.pubval":
            out = []
            while x is not None:
                out.append(x.split(":")[-1])
                x = seen[x]
            return list(reversed(out))
        for t in sorted(fwd.get(x, ())):
            if t not in seen:
                seen[t] = x
                q.append(t)
    return [start.split(":")[-1], "...", "pubval"]


def _iterates_whole(expr, struct):
    """The traversal iterates the container itself (not a slice / filtered view of it)."""
    its = []
    for n in ast.walk(expr):
        if isinstance(n, ast.comprehension):
            its.append(n.iter)
        if isinstance(n, ast.Call) and norm(n.func) in ("map", "filter") and len(n.args) >= 2:
            its += n.args[1:]
    if not its:
        return False
    ok = {struct, "%s.items()" % struct, "%s.keys()" % struct, "range(len(%s))" % struct, "enumerate(%s)" % struct}
    return all(norm(i) in ok for i in its)


def composed_at(fnode, target, expr, stop_at=None):
    """[(path conditions, expr with the assignments of the path substituted in order)] for every syntactic path to `target`.
    An assignment whose value is the node `stop_at` is left symbolic (its name stands for that call's result)."""
    from ..hints import paths_to
    from ..flatten import _Subst
    from ..loader import clone
    out = []
    for path in paths_to(fnode, target):
        env = {}
        for st in path.steps:
            if st[0] == "assign":
                _, name, val = st
                if stop_at is not None and val is stop_at:
                    env.pop(name, None)
                    continue
                env[name] = _Subst(env).visit(clone(val)) if env else val
        out.append((path.conds, _Subst(env).visit(clone(expr)) if env else expr))
    return out


_CONV_DEFS = {}      # name -> FunctionDef of converters defined next to the passes (filled by rule_args from the wrapper's children)


def unwrap_passes(e):
    """for_each_in(L3, for_each_in(L2, for_each_in(L1, X)))  ->  ([L1, L2, L3], X);  a pass is a lambda or a named converter"""
    passes = []
    while isinstance(e, ast.Call) and norm(e.func) == "for_each_in" and len(e.args) == 2 and (
            isinstance(e.args[0], ast.Lambda) or (isinstance(e.args[0], ast.Name) and e.args[0].id in _CONV_DEFS)):
        passes.append(e.args[0])
        e = e.args[1]
    passes.reverse()
    return passes, e


def pass_kinds(conv):
    """[(type tested, action on the leaf written as `x`)] of a converter: the one-kind lambda of pass_kind, or a named function
           def conv(x):  (if isinstance(x, T | (T1, T2, ..)): return ACT)*  return x
       which converts several kinds in ONE traversal (so that wires are allocated in call order)"""
    if isinstance(conv, ast.Lambda):
        k = pass_kind(conv)
        return [k] if k else []
    f = _CONV_DEFS.get(conv.id) if isinstance(conv, ast.Name) else None
    if f is None or len(f.args.args) != 1:
        return []
    x = f.args.args[0].arg
    body = [s for s in f.body if not (isinstance(s, ast.Expr) and isinstance(s.value, ast.Constant))]
    if not body or not (isinstance(body[-1], ast.Return) and norm(body[-1].value) == x):
        return []
    out = []
    seen = set()
    for s in body[:-1]:
        if not (isinstance(s, ast.If) and not s.orelse and len(s.body) == 1 and isinstance(s.body[0], ast.Return) and s.body[0].value is not None
                and isinstance(s.test, ast.Call) and norm(s.test.func) == "isinstance" and len(s.test.args) == 2 and norm(s.test.args[0]) == x):
            return []
        ts = s.test.args[1].elts if isinstance(s.test.args[1], (ast.Tuple, ast.List)) else [s.test.args[1]]
        act = norm(s.body[0].value).replace("(%s)" % x, "(x)").replace("%s." % x, "x.")
        for t in ts:
            if norm(t) not in seen:          # an earlier clause wins
                seen.add(norm(t))
                out.append((norm(t), act))
    return out


def pass_kind(lam):
    """(type tested, action text with the leaf written as `x`) of `lambda x: ACT(x) if isinstance(x, T) else x`, else None"""
    b = lam.body
    if not lam.args.args:
        return None
    x = lam.args.args[0].arg
    if isinstance(b, ast.IfExp) and isinstance(b.test, ast.Call) and norm(b.test.func) == "isinstance" and len(b.test.args) == 2 \
            and norm(b.test.args[0]) == x and norm(b.orelse) == x:
        return norm(b.test.args[1]), norm(b.body).replace("(%s)" % x, "(x)").replace("%s." % x, "x.")
    return None


def rule_args(repo, rule):
    fe = repo.fn(RT, "for_each_in")
    conv, struct = fe.params[0], fe.params[1]
    handled = {}
    # every `if isinstance(struct, T):` of the function, whether chained with elif or written as early returns
    for iff in [n for n in ast.walk(fe.node) if isinstance(n, ast.If)]:
        t = iff.test
        if isinstance(t, ast.Call) and norm(t.func) == "isinstance" and len(t.args) == 2 and norm(t.args[0]) == struct:
            handled[norm(t.args[1])] = iff
    # the leaf: `return converter(struct)` reached when no container test matched
    final = None
    leafs = [n for n in ast.walk(fe.node) if isinstance(n, ast.Return) and n.value is not None
             and norm(n.value) == "%s(%s)" % (conv, struct)]
    if leafs:
        final = [leafs[0]]
    # helpers that recurse:  lambda x: for_each_in(converter, x)  /  def recurse(x): return for_each_in(converter, x)
    recursers = set()
    for n in ast.walk(fe.node):
        if isinstance(n, ast.FunctionDef) and n is not fe.node and len(n.body) >= 1 and isinstance(n.body[-1], ast.Return) \
                and n.args.args and norm(n.body[-1].value) == "for_each_in(%s, %s)" % (conv, n.args.args[0].arg):
            recursers.add(n.name)
        if isinstance(n, ast.Assign) and isinstance(n.value, ast.Lambda) and n.value.args.args and \
                norm(n.value.body) == "for_each_in(%s, %s)" % (conv, n.value.args.args[0].arg):
            recursers.add(norm(n.targets[0]))
    # what is returned for each kind of structure, however the dispatch and the locals are written
    from ..bykind import returns_by_kind
    byk = returns_by_kind(fe, struct, {"list": ("list",), "tuple": ("tuple",), "dict": ("dict",), "leaf": ("<leaf>",)})
    if byk["leaf"] and all(norm(e) == "%s(%s)" % (conv, struct) for _r, e in byk["leaf"]):
        final = [byk["leaf"][0][0]]
    # a traversal that keeps its own stack / queue instead of recursing: which elements reach the converter, and in which order, is
    # a property of that data structure's history - an invariant of a worklist loop, which this analysis does not establish.
    # Reported as undecided (never as "not converted", which would be a statement about code we did not understand).
    selfcalls = [c for c in ast.walk(fe.node) if isinstance(c, ast.Call) and norm(c.func) == "for_each_in"]
    worklist = [w for w in ast.walk(fe.node) if isinstance(w, ast.While) and any(
        isinstance(c, ast.Call) and isinstance(c.func, ast.Attribute) and c.func.attr in ("pop", "popleft") for c in ast.walk(w)) and any(
        isinstance(c, ast.Call) and isinstance(c.func, ast.Attribute) and c.func.attr in ("append", "extend", "appendleft") for c in ast.walk(w))]
    convcalls = [c for c in ast.walk(fe.node) if isinstance(c, ast.Call) and norm(c.func) == conv and len(c.args) == 1]
    iterative = bool(worklist) and not selfcalls and bool(convcalls)
    if iterative:
        # one thing IS decided for a worklist: a queue consumed first-in-first-out (popleft / pop(0), children appended at the
        # back) with the converter applied as items come off walks the structure level by level - a leaf that follows a container
        # is converted before that container's elements, which is not the order of the arguments
        for w in worklist:
            fifo = {norm(c.func.value) for c in ast.walk(w) if isinstance(c, ast.Call) and isinstance(c.func, ast.Attribute)
                    and (c.func.attr == "popleft" or (c.func.attr == "pop" and len(c.args) == 1 and norm(c.args[0]) == "0"))}
            fed = {norm(c.func.value) for c in ast.walk(w) if isinstance(c, ast.Call) and isinstance(c.func, ast.Attribute)
                   and c.func.attr in ("append", "extend")}
            conv_in = [c for c in convcalls if any(c is x for x in ast.walk(w))]
            if fifo & fed and conv_in:
                rule.violation(fe.loc(conv_in[0]), fe.fq, "queue `%s`: taken from the front, children appended at the back" % sorted(fifo & fed)[0],
                               "breadth-first traversal: leaves are converted level by level, so the public values are not allocated "
                               "in the order of the (nested) arguments", "for_each_in/order")
    for typ in ("list", "tuple", "dict"):
        if iterative:
            rule.undecided(fe.loc(worklist[0]), fe.fq, "%s: worklist loop `while %s`" % (typ, norm(worklist[0].test)[:40]),
                           "iterative traversal with its own stack: coverage and order of the elements of a %s are not decided here" % typ)
            continue
        iff = handled.get(typ)
        vals = byk.get(typ) or []
        where = fe.loc(vals[0][0]) if vals else (fe.loc(iff) if iff else fe.loc())
        if not vals or any(norm(e) == "%s(%s)" % (conv, struct) for _r, e in vals):
            rule.violation(where, fe.fq, "containers handled: %s" % sorted(handled), "arguments nested in a %s are not converted" % typ,
                           "for_each_in/%s" % typ)
            continue
        r = vals[0][1] if len({norm(e) for _r, e in vals}) == 1 else None
        txt = norm(r) if r is not None else ""
        filt = any(isinstance(x, ast.comprehension) and x.ifs for x in ast.walk(r)) if r is not None else True
        rec = "for_each_in(%s," % conv in txt.replace(" ", "").replace("for_each_in(%s, " % conv, "for_each_in(%s," % conv) or any(
            ("map(%s," % h) in txt.replace(" ", "") or ("%s(" % h) in txt for h in recursers)
        rev_ = "reversed(" in txt or "sorted(" in txt
        covers = _iterates_whole(r, struct) if r is not None else False
        if r is not None and rec and covers and not filt and not rev_:
            rule.ok(where, fe.fq, "%s: %s" % (typ, txt[:90]), "every element converted, in order")
        else:
            rule.violation(where, fe.fq, "%s: %s" % (typ, txt[:100]), "elements of a %s are filtered, reordered or not converted" % typ,
                           "for_each_in/%s/shape" % typ)
    if final and isinstance(final[0], ast.Return) and norm(final[0].value) == "%s(%s)" % (conv, struct):
        rule.ok(fe.loc(final[0]), fe.fq, norm(final[0]), "every leaf goes through the converter")
    elif iterative:
        rule.undecided(fe.loc(convcalls[0]), fe.fq, norm(convcalls[0])[:60], "leaves of the worklist traversal: not decided here")
    else:
        rule.violation(fe.loc(), fe.fq, norm(final)[:80] if final else "", "leaves are not passed to the converter", "for_each_in/leaf")
    sn = repo.fn(RT, "snark.snark__")
    fn_name = repo.fn(RT, "snark").params[0]
    _CONV_DEFS.clear()
    _CONV_DEFS.update({nm: ch.node for nm, ch in sn.children.items() if isinstance(ch.node, ast.FunctionDef)})
    calls = [c for c in ast.walk(sn.node) if isinstance(c, ast.Call) and norm(c.func) == "for_each_in" and len(c.args) == 2
             and pass_kinds(c.args[0])]
    arg_convs = {}
    res_convs = {}
    for c in calls:
        for typ, act in pass_kinds(c.args[0]):
            if act.endswith("(x)") and act.split("(")[0].startswith("PubVal"):
                arg_convs.setdefault(typ, (c, act))
            elif act == "x.val()":
                res_convs.setdefault(typ, (c, act))
    want = {"int": "PubVal", "float": "PubValFxp", "bool": "PubValBool"}
    for typ, ctor in want.items():
        if typ in arg_convs and arg_convs[typ][1].startswith(ctor + "("):
            rule.ok(sn.loc(arg_convs[typ][0]), sn.fq, "%s leaves -> %s" % (typ, arg_convs[typ][1]))
        elif typ == "bool" and "int" in arg_convs:
            rule.note(sn.loc(), sn.fq, "bool leaves are published by the int pass (True is an int)", "still a public input, in order")
        else:
            rule.violation(sn.loc(), sn.fq, "argument converters: %s" % {k: v[1] for k, v in arg_convs.items()},
                           "%s arguments are not made public inputs" % typ, "snark/args/%s" % typ)
    # conversion chain feeds the call
    cfg = CFG(sn.node)
    dom = cfg.dominators()
    fcall = [c for c in ast.walk(sn.node) if isinstance(c, ast.Call) and norm(c.func) == fn_name]
    if not fcall:
        rule.violation(sn.loc(), sn.fq, "no call of the wrapped function", "wrapper never runs the function", "snark/nocall")
        return None
    fc = fcall[0]
    starred = [norm(a.value) for a in fc.args if isinstance(a, ast.Starred)]
    # what the function is called on, path by path: the composition of the passes applied to the wrapper's own arguments
    #   fn(*for_each_in(L_bool, for_each_in(L_float, for_each_in(L_int, args))))
    # (a path that skips the passes is fine only where there are no arguments: `if not args`)
    vararg = sn.node.args.vararg.arg if sn.node.args.vararg else None
    star_nodes = [a.value for a in fc.args if isinstance(a, ast.Starred)]
    chain_ok = bool(star_nodes)
    why = "the function is not called on the converted arguments"
    key = "snark/callargs"
    for conds, e in (composed_at(sn.node, fc, star_nodes[0]) if star_nodes else []):
        passes, base = unwrap_passes(e)
        kinds = [k_ for l in passes for k_ in pass_kinds(l)]
        empty = any(norm(t) in ("not %s" % vararg, "len(%s) == 0" % vararg) and pol for t, pol in conds) or any(
            norm(t) in (vararg, "len(%s) > 0" % vararg) and not pol for t, pol in conds)
        if norm(base) != vararg:
            chain_ok = False
            if any(isinstance(x, ast.Call) and norm(x.func) == "for_each_in" for x in ast.walk(base)):
                why = "an argument-conversion pass does not consume the output of the previous pass: the previous conversion " \
                      "is dropped and those arguments reach the function unconverted"
                key = "snark/chain/%s" % norm(base)[:30]
            break
        if empty and not passes:
            continue
        have = {k[0]: k[1] for k in kinds if k}
        if not (have.get("int", "").startswith("PubVal(") and have.get("float", "").startswith("PubValFxp(")):
            chain_ok = False
            why = "on the path {%s} the arguments reach the function without the int / float conversions" % ", ".join(
                ("" if pol else "not ") + norm(t) for t, pol in conds)
            break
    if chain_ok:
        rule.ok(sn.loc(fc), sn.fq, norm(fc), "on every path the function receives for_each_in(...)(args) with all the conversion passes applied")
    else:
        rule.violation(sn.loc(fc), sn.fq, norm(fc), why, key)
    kw = [s for s in sn.node.body if isinstance(s, ast.If) and norm(s.test) in ("kwargs", "len(kwargs) > 0", "kwargs != {}")
          and any(isinstance(b, ast.Raise) for b in s.body)]
    fnode = [n for n in range(cfg.n) if cfg.stmt[n] is not None and fc in calls_in(own_stmt_part(cfg.stmt[n], cfg.kind[n]))]
    knode = [n for n in range(cfg.n) if kw and cfg.stmt[n] is kw[0]]
    if kw and fnode and knode and knode[0] in dom[fnode[0]]:
        rule.ok(sn.loc(kw[0]), sn.fq, "if kwargs: raise  dominates the call of the function")
    else:
        rule.violation(sn.loc(), sn.fq, "kwargs test: %s" % (norm(kw[0].test) if kw else None), "keyword arguments are not refused "
                       "before the function runs (they would bypass the public-input conversion)", "snark/kwargs")
    return res_convs, sn, fc


def rule_results(repo, rule, res_convs, sn, fc):
    for typ in ("LinComb", "LinCombFxp", "LinCombBool"):
        if typ in res_convs:
            rule.ok(sn.loc(res_convs[typ][0]), sn.fq, "%s leaves of the result -> .val()" % typ)
        else:
            rule.violation(sn.loc(), sn.fq, "result converters: %s" % sorted(res_convs), "%s results are returned without being made "
                           "public outputs" % typ, "snark/res/%s" % typ)
    def _owner_fn(n):
        for p in parents(n):
            if isinstance(p, (ast.Lambda, ast.FunctionDef)):
                return p
        return None
    rets = [n for n in ast.walk(sn.node) if isinstance(n, ast.Return) and _owner_fn(n) is sn.node]
    # the returned name is the last conversion of the function's result
    retvar = norm(getattr(fc, "_parent").targets[0]) if isinstance(getattr(fc, "_parent", None), ast.Assign) else None
    chain_ok = bool(rets)
    cur = retvar
    for r_ in rets:
        for _conds, e in composed_at(sn.node, r_, r_.value, stop_at=fc):
            passes, base = unwrap_passes(e)
            have = {k[0]: k[1] for l in passes for k in pass_kinds(l) if k}
            if not (norm(base) == retvar or base is fc or norm(base) == norm(fc)) or not all(have.get(t) == "x.val()" for t in ("LinComb", "LinCombFxp", "LinCombBool")):
                chain_ok = False
    if rets and chain_ok:
        rule.ok(sn.loc(rets[0]), sn.fq, "returns the plain values of the function's own result (%s -> %s)" % (retvar, cur))
    else:
        rule.violation(sn.loc(), sn.fq, "return %s" % (norm(rets[0].value) if rets else None), "the wrapper does not return the "
                       "converted result of the wrapped function", "snark/return")
    # LinComb.val
    val = repo.fn(RT, "LinComb.val")
    s_ = val.params[0]
    # the tie: some call forces  self - <the public wire>  to zero, whichever way it is spelled (assert_zero on the difference,
    # assert_eq, a 0 * 0 = D constraint, guarded or not)
    from .c16 import zero_asserted
    az = [c for c in ast.walk(val.node) if isinstance(c, ast.Call) and zero_asserted(c) is not None]
    pubs = [c for c in ast.walk(val.node) if isinstance(c, ast.Call) and norm(c.func) == "PubVal"]
    ok = False
    if len(pubs) == 1 and norm(pubs[0].args[0]) == "%s.value" % s_ and az:
        from ..flatten import resolve_locals as _rl
        from ..poly import poly_of
        ptxt = norm(pubs[0])
        for a in az:
            d = _rl(val.node, zero_asserted(a))          # locals holding the public wire / the difference are substituted
            p = poly_of(d, {s_: P.sym("s"), ptxt: P.sym("o")}, strict=True)
            if p is not None and (p == P.sym("s") - P.sym("o") or p == P.sym("o") - P.sym("s")):
                ok = True
                az = [a]
                break
    rets = [n for n in ast.walk(val.node) if isinstance(n, ast.Return)]
    if ok and rets and norm(rets[0].value) == "%s.value" % s_:
        rule.ok(val.loc(), val.fq, norm(az[0]), "one public wire with the same value, constrained equal; returns the plain value")
    else:
        rule.violation(val.loc(), val.fq, norm(val.node.body)[:120], "val() does not allocate a public wire with the value, tie it to "
                       "the computed wire and return the plain value", "val/shape")
    for mod, cn, want in (("pysnark.boolean", "LinCombBool", ("self.lc.val()",)),
                          ("pysnark.fixedpoint", "LinCombFxp", ("LinCombFxp.remove_scaling(self.lc.val())", "self.remove_scaling(self.lc.val())"))):
        f = repo.cls(mod, cn).methods.get("val")
        rets = [n for n in ast.walk(f.node) if isinstance(n, ast.Return)] if f else []
        if rets and norm(rets[0].value) in want:
            rule.ok(f.loc(), f.fq, norm(rets[0].value))
        elif f is not None and _same_effects(repo, f.fq, val.fq) and any(
                isinstance(x, ast.Attribute) and norm(x) == "%s.lc" % f.params[0] for r_ in rets for x in ast.walk(r_.value)):
            # written differently (the unwrapping moved into a helper): the emission term of the wrapper's val() - computed by the
            # abstract interpreter through whatever helpers it calls - is that of LinComb.val: one public wire, one tying
            # constraint, nothing else; and what it hands on is its own .lc
            rule.ok(f.loc(), f.fq, norm(rets[0].value), "emits exactly what LinComb.val emits (one public wire tied to the computed wire)")
        else:
            rule.violation(f.loc() if f else mod, "%s:%s.val" % (mod, cn), norm(rets[0].value) if rets else "", "wrapper val() does not "
                           "publish through LinComb.val", "%s/val" % cn)


def _same_effects(repo, fq_a, fq_b):
    from .c06 import get_interp
    from ..efftree import render
    it = get_interp(repo)
    ta = {render(t) for k, (t, _v) in it.memo.items() if k[0] == fq_a}
    tb = {render(t) for k, (t, _v) in it.memo.items() if k[0] == fq_b}
    return bool(ta) and bool(tb) and ta <= tb


def rule_nothing_else(repo, rule, sn):
    fn_name = repo.fn(RT, "snark").params[0]
    own = []
    for s in sn.node.body:
        for c in calls_in(own_stmt_part(s, "test" if isinstance(s, ast.If) else "stmt")) if not isinstance(s, (ast.Import, ast.ImportFrom)) else []:
            if any(isinstance(p, ast.Lambda) for p in parents(c)):
                continue
            if any(isinstance(p, ast.Raise) for p in parents(c)):
                continue          # building the message of a refusal
            own.append(c)
    extra = [c for c in own if norm(c.func) not in ("for_each_in", fn_name, "ValueError")]
    if extra:
        for c in extra:
            rule.violation(sn.loc(c), sn.fq, norm(c)[:80], "the wrapper does something besides converting arguments/results and "
                           "calling the function", "snark/extra/%s" % norm(c.func))
    else:
        rule.ok(sn.loc(), sn.fq, "wrapper body: %d calls, all of them for_each_in(...) or the wrapped function" % len(own))
    it = get_interp(repo)
    from ..efftree import atoms
    for key, (tree, _ret) in it.memo.items():
        if key[0] == sn.fq:
            at = atoms(tree)
            bad = [a for a in at if not (a in ("pub", "priv", "cons") or (isinstance(a, tuple) and a[0] in ("dyn", "rec", "op?")))]
            if bad:
                rule.violation(sn.loc(), sn.fq, str(sorted(map(str, at))), "unexpected backend effects in the wrapper: %s" % bad, "snark/effects")
            else:
                rule.ok(sn.loc(), sn.fq, "emission atoms of the wrapper: %s" % sorted(map(str, at)))
            break


def check(repo, rep, tier):
    rep.explanation = ("Call-graph reachability to backend.pubval over the kind-aware call edges of the abstract interpreter "
                       "(who may publish), shape of the recursive structure traversal (containers handled, order, no filter), "
                       "the converter lambdas of the wrapper, CFG dominance of the kwargs refusal, and the shape of val().")
    rep.trusted = ["call edges of sa/absint.py (operators dispatched on operand kinds, method calls on unknown receivers "
                   "resolved by name over the value classes)"]
    rep.not_decided = ["what the wrapped function itself publishes by calling val()/PubVal explicitly (allowed by the API)"]
    r1 = rep.rule("R-C17-1", "only the publishing API reaches backend.pubval", floor=5)
    rule_who(repo, r1)
    r2 = rep.rule("R-C17-2", "argument conversion covers every numeric leaf, in order; kwargs refused", floor=8)
    out = rule_args(repo, r2)
    r3 = rep.rule("R-C17-3", "results become public outputs tied to their wires", floor=6)
    r4 = rep.rule("R-C17-4", "the wrapper emits nothing else", floor=2)
    if out is not None:
        res_convs, sn, fc = out
        rule_results(repo, r3, res_convs, sn, fc)
        rule_nothing_else(repo, r4, sn)
