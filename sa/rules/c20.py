"""C20 - hash gadgets use the active backend's parameters; structure of the permutation / sponge.

R-C20-1  the Poseidon parameter set is selected by the runtime's selection result (backend_name), not by
         the environment variable alone and never by a literal default
R-C20-2  parameter-table consistency (rows = R_F + R_P, row width t, t x t matrix, constants below the
         field prime of the backend the entry is registered for, gcd(a, p-1) = 1, keys are registry names)
R-C20-3  round structure of permute(): R_F/2 full, R_P partial, R_F/2 full rounds; constant rows
         0.., R_F/2.., R_F/2+R_P..; S-box on all / on element 0; MDS mix after every S-box layer
R-C20-4  padding appends the marker element always and pads to a multiple of t-1
R-C20-5  obliviousness of both hash modules (the C06 rules over poseidon_hash / ggh_hash)
R-C20-6  the subset-sum hash takes its prime from the active backend and pairs coefficient i with bit i
"""
import ast
from math import gcd

from ..loader import norm, AnalysisError, parents
from ..poly import P, poly_of
from .c13 import CURVE_OF_BACKEND, int_literal
from .c06 import eval_tainted_alts, eval_tainted_loops, count_public_loops

PH = "pysnark.poseidon_hash"
PC = "pysnark.poseidon_constants"
GG = "pysnark.ggh_hash"


def module_defs(m, name):
    """All module-level (incl. try/if bodies) assignments to `name`."""
    out = []
    for n in ast.walk(m.tree):
        if isinstance(n, ast.Assign) and any(isinstance(t, ast.Name) and t.id == name for t in n.targets):
            if not any(isinstance(p, (ast.FunctionDef, ast.Lambda, ast.ClassDef)) for p in parents(n)):
                out.append(n)
    return out


def mentions_backend_name(m, node):
    for x in ast.walk(node):
        if isinstance(x, ast.Attribute) and x.attr == "backend_name" and "runtime" in norm(x.value):
            return True
        if isinstance(x, ast.Name):
            b = m.bindings.get(x.id)
            if b and b[0] == "attr" and b[1] == "pysnark.runtime" and b[2] == "backend_name":
                return True
    return False


def provenance(repo, rule):
    m = repo.module(PH)
    subs = []
    for n in ast.walk(m.tree):
        if isinstance(n, ast.Subscript) and norm(n.value).endswith("poseidon_constants"):
            subs.append((n, n.slice))
        if isinstance(n, ast.Call) and norm(n.func).endswith("poseidon_constants.get") and n.args:
            subs.append((n, n.args[0]))
    if not subs:
        raise AnalysisError("no lookup into poseidon_constants found in poseidon_hash")
    def scoped_defs(nm, at):
        """definitions of a name used inside a function: the argument of every call for a parameter, the assignments of the function
        for a local, and - for the variable of a comprehension over the parameter table - what its filter compares the entries with"""
        fn = next((p_ for p_ in parents(at) if isinstance(p_, ast.FunctionDef)), None)
        if fn is None:
            return None
        out = []
        params = [a.arg for a in fn.args.args]
        if nm in params:
            k = params.index(nm)
            for c in ast.walk(m.tree):
                if isinstance(c, ast.Call) and isinstance(c.func, ast.Name) and c.func.id == fn.name and len(c.args) > k:
                    out.append((c.args[k], c))
            return out
        for a in ast.walk(fn):
            if isinstance(a, ast.Assign) and any(isinstance(t, ast.Name) and t.id == nm for t in a.targets):
                out.append((a.value, a))
            if isinstance(a, ast.comprehension) and isinstance(a.target, ast.Name) and a.target.id == nm and "poseidon_constants" in norm(a.iter):
                for f_ in a.ifs:
                    for x in ast.walk(f_):
                        if isinstance(x, ast.Compare) and any("poseidon_constants" in norm(s_) for s_ in [x.left] + x.comparators):
                            out += [(s_, a) for s_ in [x.left] + x.comparators if "poseidon_constants" not in norm(s_)]
        return out
    for n, key in subs:
        where = "%s:%s" % (m.relpath, n.lineno)
        # reaching definitions of the key (module-level, flow-insensitive: every definition must be good)
        frontier = [(key, n)]
        seen = set()
        bad, good = [], []
        while frontier:
            e, at = frontier.pop()
            if "environ" in norm(e) or "getenv" in norm(e):
                bad.append(norm(e))     # the environment is only one of the three selection paths
                continue
            if mentions_backend_name(m, e):
                good.append(norm(e))
                continue
            if norm(e) in ("runtime.backend.get_modulus()", "pysnark.runtime.backend.get_modulus()"):
                good.append(norm(e))    # the field the selected backend computes in (compared with the order a set was made for)
                continue
            if isinstance(e, ast.Constant) and isinstance(e.value, str) and any(isinstance(p_, ast.comprehension) for p_ in parents(e)):
                continue                # a name excluded by a filter (key != 'nobackend') selects nothing
            names = [x.id for x in ast.walk(e) if isinstance(x, ast.Name) and x.id not in ("os",)]
            if isinstance(e, ast.Constant) or "environ" in norm(e) or "getenv" in norm(e):
                bad.append(norm(e))
                continue
            progressed = False
            for nm in names:
                if (nm, id(next((p_ for p_ in parents(at) if isinstance(p_, ast.FunctionDef)), None))) in seen:
                    continue
                seen.add((nm, id(next((p_ for p_ in parents(at) if isinstance(p_, ast.FunctionDef)), None))))
                sd = scoped_defs(nm, at)
                if sd:
                    for v_, at2 in sd:
                        frontier.append((v_, at2))
                        progressed = True
                    continue
                for d in module_defs(m, nm):
                    frontier.append((d.value, d))
                    progressed = True
            if not progressed and not names:
                bad.append(norm(e))
        term = "key `%s`: derives from %s" % (norm(key), sorted(set(good + bad)))
        if bad or not good:
            rule.violation(where, PH, term, "the Poseidon parameter set is keyed by %s, not by the backend the runtime "
                           "actually selected (pre-import / auto-detection are ignored%s)" % (
                               sorted(set(bad)) or "an unknown source",
                               "; a literal default silently selects a toy parameter set" if any(
                                   b.startswith("'") or b.startswith('"') for b in bad) else ""), "provenance")
        else:
            rule.ok(where, PH, term)
    # unsupported backends must fail loudly
    raises = [n for n in ast.walk(m.tree) if isinstance(n, ast.Raise) and "NotImplementedError" in norm(n)]
    if raises:
        rule.ok("%s:%s" % (m.relpath, raises[0].lineno), PH, norm(raises[0])[:100], "unsupported backend raises")
    else:
        rule.violation("%s:1" % m.relpath, PH, "no NotImplementedError", "a backend without a registered parameter set "
                       "does not fail loudly", "provenance/loud")


def table(repo, rule):
    m = repo.module(PC)
    node = None
    for n in m.tree.body:
        if isinstance(n, ast.Assign) and norm(n.targets[0]) == "poseidon_constants" and isinstance(n.value, ast.Dict):
            node = n.value
    if node is None:
        raise AnalysisError("poseidon_constants literal not found")
    from .c19 import find_registry
    _n, _r, rows = find_registry(repo.module("pysnark.runtime"))
    regnames = {r[0] for r in rows}
    for k, v in zip(node.keys, node.values):
        name = k.value if isinstance(k, ast.Constant) else norm(k)
        where = "%s:%s" % (m.relpath, k.lineno)
        if not isinstance(v, ast.Dict):
            rule.undecided(where, PC, name, "entry is not a dict literal")
            continue
        keys = [kk.value for kk in v.keys if isinstance(kk, ast.Constant)]
        dup = sorted({x for x in keys if keys.count(x) > 1})
        if dup:
            rule.note(where, PC, name, "duplicate key(s) %s in the entry (the last one wins)" % dup)
        try:
            ent = ast.literal_eval(v)
        except Exception as e:
            rule.undecided(where, PC, name, "entry is not a pure literal: %s" % e)
            continue
        problems = []
        try:
            RF, RP, t, a = ent["R_F"], ent["R_P"], ent["t"], ent["a"]
            rc, mx = ent["round_constants"], ent["matrix"]
        except KeyError as e:
            rule.violation(where, PC, name, "parameter %s missing" % e, "table/%s/missing" % name)
            continue
        real = name in CURVE_OF_BACKEND
        if name not in regnames:
            problems.append("key is not a registry backend name")
        if RF % 2:
            problems.append("R_F=%d is odd (two halves of full rounds)" % RF)
        if real and len(rc) != RF + RP:
            problems.append("%d round-constant rows for R_F+R_P=%d rounds" % (len(rc), RF + RP))
        if not real and len(rc) < RF + RP:
            problems.append("%d round-constant rows < R_F+R_P=%d (permute would index past the end)" % (len(rc), RF + RP))
        if any(len(r) != t for r in rc):
            problems.append("a round-constant row does not have t=%d entries" % t)
        if len(mx) != t or any(len(r) != t for r in mx):
            problems.append("MDS matrix is not %dx%d" % (t, t))
        if real:
            p = CURVE_OF_BACKEND[name][1]
            big = [x for r in rc for x in r if not (0 <= x < p)] + [x for r in mx for x in r if not (0 <= x < p)]
            if big:
                problems.append("%d constants are not in [0, p) for %s" % (len(big), CURVE_OF_BACKEND[name][0]))
            if gcd(a, p - 1) != 1:
                problems.append("gcd(a=%d, p-1) != 1: the S-box is not a permutation" % a)
            if len({tuple(r) for r in rc}) != len(rc):
                problems.append("duplicate round-constant rows")
        term = "%s: R_F=%d R_P=%d t=%d a=%d rows=%d matrix=%dx%d" % (name, RF, RP, t, a, len(rc), len(mx), len(mx[0]) if mx else 0)
        if problems:
            rule.violation(where, PC, term, "; ".join(problems), "table/%s" % name)
        else:
            rule.ok(where, PC, term)
    return node


def _table_exponents(repo):
    """the S-box exponents `a` of the parameter table"""
    m = repo.module(PC)
    out = set()
    for n in m.tree.body:
        if isinstance(n, ast.Assign) and norm(n.targets[0]) == "poseidon_constants" and isinstance(n.value, ast.Dict):
            for v in n.value.values:
                if isinstance(v, ast.Dict):
                    for kk, vv in zip(v.keys, v.values):
                        if isinstance(kk, ast.Constant) and kk.value == "a" and isinstance(vv, ast.Constant) and isinstance(vv.value, int):
                            out.add(vv.value)
    if not out:
        raise AnalysisError("no S-box exponent found in the parameter table")
    return out


def rounds(repo, rule):
    fi = repo.fn(PH, "permute")
    loops = [s for s in fi.node.body if isinstance(s, ast.For)]
    where = fi.loc()
    if len(loops) != 3:
        rule.violation(where, fi.fq, "%d top-level loops" % len(loops), "permutation is not three groups of rounds", "rounds/groups")
        return
    h = P.sym("H")   # R_F // 2
    env = {"R_F // 2": h, "R_P": P.sym("RP")}
    # single-assignment locals (e.g. `half = R_F // 2`) are substituted (def-use)
    counts = {}
    for s_ in ast.walk(fi.node):
        if isinstance(s_, ast.Assign) and len(s_.targets) == 1 and isinstance(s_.targets[0], ast.Name):
            counts[s_.targets[0].id] = counts.get(s_.targets[0].id, 0) + 1
    for s_ in fi.node.body:
        if isinstance(s_, ast.Assign) and isinstance(s_.targets[0], ast.Name) and counts.get(s_.targets[0].id) == 1:
            v_ = poly_of(s_.value, env, strict=False)
            if v_ is not None:
                env[s_.targets[0].id] = v_
    want_iter = [h, P.sym("RP"), h]
    want_off = [P(), h, h + P.sym("RP")]
    kinds = ["full", "partial", "full"]
    for idx, lp in enumerate(loops):
        lw = fi.loc(lp)
        var = norm(lp.target)
        it = lp.iter
        cnt = poly_of(it.args[0], env, strict=False) if isinstance(it, ast.Call) and norm(it.func) == "range" and len(it.args) == 1 else None
        if cnt == want_iter[idx]:
            rule.ok(lw, fi.fq, "group %d (%s rounds): %s iterations" % (idx + 1, kinds[idx], norm(it)))
        else:
            rule.violation(lw, fi.fq, "group %d iterates %s" % (idx + 1, norm(it)),
                           "wrong number of %s rounds (expected %s)" % (kinds[idx], ["R_F//2", "R_P", "R_F//2"][idx]),
                           "rounds/count/%d" % idx)
        # round constant row
        subs = [x for s in lp.body for x in ast.walk(s) if isinstance(x, ast.Subscript) and norm(x.value) == "round_constants"]
        if len(subs) != 1:
            rule.violation(lw, fi.fq, "%d uses of round_constants" % len(subs), "each round must add exactly one constant row",
                           "rounds/rc/%d" % idx)
        else:
            e = dict(env)
            e[var] = P.sym("r")
            for s_ in lp.body:      # loop-body locals in statement order (e.g. `index = R_F // 2 + r`)
                if isinstance(s_, ast.Assign) and len(s_.targets) == 1 and isinstance(s_.targets[0], ast.Name):
                    v_ = poly_of(s_.value, e, strict=False)
                    if v_ is not None:
                        e[s_.targets[0].id] = v_
                if subs[0] in list(ast.walk(s_)):
                    break
            off = poly_of(subs[0].slice, e, strict=False)
            if off == want_off[idx] + P.sym("r"):
                rule.ok(fi.loc(subs[0]), fi.fq, "group %d adds row %s" % (idx + 1, norm(subs[0].slice)))
            else:
                rule.violation(fi.loc(subs[0]), fi.fq, "group %d adds row %s = %s" % (idx + 1, norm(subs[0].slice), off),
                               "round-constant row index is wrong: a row is skipped or reused", "rounds/offset/%d" % idx)
            # added to every element:  [x + y for (x, y) in zip(sponge, row)]
            st = [s for s in lp.body if subs[0] in list(ast.walk(s))][0]
            okadd = isinstance(st, ast.Assign) and isinstance(st.value, ast.ListComp) and not st.value.generators[0].ifs \
                and isinstance(st.value.elt, ast.BinOp) and isinstance(st.value.elt.op, ast.Add) \
                and norm(st.value.generators[0].iter).startswith("zip(")
            if not okadd:
                rule.undecided(fi.loc(st), fi.fq, norm(st)[:100], "constant addition not in the element-wise zip form")
        # a choice by kind written as a statement (`if isinstance(v, int): S[0] = A  else: S[0] = B`, v = S[0]) is the conditional
        # expression  S[0] = A if isinstance(S[0], int) else B
        newbody = []
        for s in lp.body:
            if isinstance(s, ast.If) and "isinstance(" in norm(s.test) and len(s.body) == 1 and len(s.orelse) == 1 \
                    and isinstance(s.body[0], ast.Assign) and isinstance(s.orelse[0], ast.Assign) \
                    and norm(s.body[0].targets[0]) == norm(s.orelse[0].targets[0]):
                ie = ast.IfExp(test=s.test, body=s.body[0].value, orelse=s.orelse[0].value)
                asg = ast.copy_location(ast.Assign(targets=s.body[0].targets, value=ie), s)
                prev = newbody[-1] if newbody else None
                if isinstance(prev, ast.Assign) and len(prev.targets) == 1 and isinstance(prev.targets[0], ast.Name) \
                        and sum(1 for x in ast.walk(lp) if isinstance(x, ast.Name) and x.id == prev.targets[0].id and isinstance(x.ctx, ast.Store)) == 1:
                    from ..flatten import _Subst
                    from ..loader import clone as _cl
                    asg = ast.copy_location(ast.Assign(targets=s.body[0].targets, value=_Subst({prev.targets[0].id: prev.value}).visit(_cl(ie))), s)
                    newbody.pop()
                ast.fix_missing_locations(asg)
                for n_ in ast.walk(asg):
                    for c_ in ast.iter_child_nodes(n_):
                        c_._parent = n_
                asg._parent = lp
                newbody.append(asg)
            else:
                newbody.append(s)
        lp.body = newbody
        # S-box: `X ** a`, or a helper applied to X that the power domain shows to return X^a for every exponent of the table
        pows = [x for s in lp.body for x in ast.walk(s) if isinstance(x, ast.BinOp) and isinstance(x.op, ast.Pow)]
        helper_undecided = None
        wrong_power = None
        for s in lp.body:
            for x in ast.walk(s):
                if isinstance(x, ast.Call) and isinstance(x.func, ast.Name) and len(x.args) == 1 and not x.keywords:
                    hf = repo.module(PH).functions.get(x.func.id)
                    if hf is None or not isinstance(hf.node, ast.FunctionDef) or x.func.id in ("matmul", "transpose", "permute"):
                        continue
                    from ..powdom import power_of, Undecided as _PU
                    try:
                        ks = {a_: power_of(hf.node, {"a": a_}) for a_ in sorted(_table_exponents(repo))}
                    except _PU as e:
                        helper_undecided = (x, str(e))
                        continue
                    if all(k == a_ for a_, k in ks.items()):
                        x._sbox_arg = x.args[0]
                        pows.append(x)
                    else:
                        wrong_power = (x, ks)
        # the plain-integer form of the same power: pow(X, a, <field prime>) for a state element that is public; and a choice
        # between the two forms by the KIND of the element (isinstance(x, int)) is the S-box whichever way it goes
        for s in lp.body:
            for x in ast.walk(s):
                if isinstance(x, ast.Call) and norm(x.func) == "pow" and len(x.args) == 3 and norm(x.args[1]) == "a" \
                        and norm(x.args[2]).endswith("get_modulus()"):
                    x._sbox_arg = x.args[0]
                    pows.append(x)

        def _arg(p):
            if isinstance(p, ast.IfExp):
                return getattr(p, "_sbox_arg", None)
            return getattr(p, "_sbox_arg", None) if isinstance(p, ast.Call) else p.left
        for s in lp.body:
            for x in ast.walk(s):
                if isinstance(x, ast.IfExp) and x.body in pows and x.orelse in pows and "isinstance(" in norm(x.test) \
                        and norm(_arg(x.body)) == norm(_arg(x.orelse)):
                    x._sbox_arg = _arg(x.body)
                    pows.append(x)
        sb = None
        for s in lp.body:
            if any(p in list(ast.walk(s)) for p in pows):
                sb = s
        if wrong_power is not None:
            rule.violation(fi.loc(wrong_power[0]), fi.fq, norm(wrong_power[0])[:80], "the S-box helper raises its argument to the power "
                           "%s for a = %s" % (", ".join(str(k) for k in wrong_power[1].values()), ", ".join(str(k) for k in wrong_power[1])),
                           "rounds/sbox/%d" % idx)
        elif sb is None and helper_undecided is not None:
            rule.undecided(fi.loc(helper_undecided[0]), fi.fq, norm(helper_undecided[0])[:80], "helper applied in the round not "
                           "interpretable in the power domain: %s" % helper_undecided[1])
        elif sb is None or not all(isinstance(p, (ast.Call, ast.IfExp)) or norm(p.right) == "a" for p in pows):
            rule.violation(lw, fi.fq, norm(lp.body)[:100], "round applies no `** a` S-box", "rounds/sbox/%d" % idx)
        else:
            full = isinstance(sb, ast.Assign) and isinstance(sb.value, ast.ListComp) and not sb.value.generators[0].ifs \
                and norm(sb.value.generators[0].iter) == norm(sb.targets[0]) and sb.value.elt in pows \
                and norm(_arg(sb.value.elt)) == norm(sb.value.generators[0].target)
            partial = isinstance(sb, ast.Assign) and isinstance(sb.targets[0], ast.Subscript) and norm(sb.targets[0].slice) == "0" \
                and sb.value in pows and _arg(sb.value) is not None and norm(_arg(sb.value)) == norm(sb.targets[0])
            got = "full" if full else ("partial" if partial else "?")
            if got == kinds[idx]:
                rule.ok(fi.loc(sb), fi.fq, "group %d S-box layer: %s (%s)" % (idx + 1, got, norm(sb)[:60]))
            else:
                rule.violation(fi.loc(sb), fi.fq, "group %d S-box layer: %s" % (idx + 1, norm(sb)[:80]),
                               "%s rounds must apply the S-box to %s" % (kinds[idx], "every element" if kinds[idx] == "full" else "element 0 only"),
                               "rounds/sboxkind/%d" % idx)
            # mix after S-box
            body = lp.body
            si = body.index(sb)
            mix = [i for i, s in enumerate(body) if isinstance(s, ast.Assign) and "matmul(matrix" in norm(s.value)]
            if mix and mix[0] > si:
                rule.ok(fi.loc(body[mix[0]]), fi.fq, "group %d: MDS mix after the S-box layer" % (idx + 1))
            else:
                rule.violation(lw, fi.fq, norm(body)[:100], "no MDS mix after the S-box layer", "rounds/mix/%d" % idx)
            ai = [i for i, s in enumerate(body) if "round_constants" in norm(s)]
            if ai and ai[0] < si:
                rule.ok(lw, fi.fq, "group %d: constants added before the S-box" % (idx + 1))
            else:
                rule.violation(lw, fi.fq, norm(body)[:100], "round constants are not added before the S-box", "rounds/order/%d" % idx)


_ONES = ("LinComb.ONE", "1", "LinComb.ONE_SAFE", "ConstVal(1)")
_ZEROS = ("LinComb.ZERO", "0", "ConstVal(0)")


def padding(repo, rule):
    """Padding of poseidon_hash, independent of local names: some statement builds  MSG + [ONE] + [ZERO] * Z  (message
    first, then the marker, then zeros) on every path; with m = t - 1 the rate and n = len(MSG), the number of appended
    elements 1 + Z equals m - (n mod m): it lies in [1, m] (the marker always fits) and completes the last block.
    Locals are evaluated in statement order (a name may be re-bound, e.g. `inputs`)."""
    fi = repo.fn(PH, "poseidon_hash")
    m_ = P.sym("m")
    n_ = P.sym("n")
    env = {"t - 1": m_, "t": m_ + 1}
    # module-level names for the rate (RATE = t - 1), bound once
    mod_ = repo.module(PH)
    for s in mod_.tree.body:
        if isinstance(s, ast.Assign) and len(s.targets) == 1 and isinstance(s.targets[0], ast.Name) and s.targets[0].id != "t":
            nm_ = s.targets[0].id
            nst = sum(1 for x in ast.walk(mod_.tree) if isinstance(x, ast.Name) and x.id == nm_ and not isinstance(x.ctx, ast.Load))
            pv_ = poly_of(s.value, env, strict=True) if not isinstance(s.value, (ast.List, ast.Call, ast.Constant, ast.Dict, ast.Tuple)) else None
            if pv_ is not None and nst == 1:
                env[nm_] = pv_
    msgname = None
    found = None
    where = fi.loc()
    for s in fi.node.body:
        if not isinstance(s, ast.Assign) or len(s.targets) != 1 or not isinstance(s.targets[0], ast.Name):
            continue
        v = s.value
        parts = []

        def flat(e):
            if isinstance(e, ast.BinOp) and isinstance(e.op, ast.Add):
                flat(e.left)
                flat(e.right)
            else:
                parts.append(e)
        flat(v)
        if len(parts) >= 2 and any(isinstance(p_, ast.List) and any(norm(e) in _ONES for e in p_.elts) for p_ in parts):
            found = (s, parts)
            break
        # an integer local (rate, number of zeros, ...): its polynomial in m, n
        lenv = dict(env)
        if msgname is None:
            # len(X) of any list-valued name read so far counts as n once X is the message; bind lazily below
            pass
        for x in ast.walk(v):
            if isinstance(x, ast.Call) and norm(x.func) == "len" and x.args and isinstance(x.args[0], ast.Name):
                lenv[norm(x)] = n_
                msgname = msgname or x.args[0].id
        pv = poly_of(v, lenv, strict=False)
        if pv is not None and not isinstance(v, (ast.List, ast.ListComp, ast.Call)):
            env[s.targets[0].id] = pv
    if found is None:
        rule.violation(where, fi.fq, "no marker", "the 1-marker is not appended to the input", "pad/marker")
        return
    s, parts = found
    w2 = fi.loc(s)
    rate = [k for k, v in env.items() if v == m_ and k not in ("t - 1",)]
    if not rate and poly_of(ast.parse("t - 1", mode="eval").body, {"t": m_ + 1}, strict=True) != m_:
        rule.undecided(w2, fi.fq, norm(s)[:100], "rate is not t - 1 in an interpretable form")
        return
    rule.ok(w2, fi.fq, "rate m = t - 1 (%s)" % (", ".join(sorted(rate)) or "inline"))
    count = P()
    order = []
    lenv = dict(env)
    msg = None
    for prt in parts:
        if isinstance(prt, ast.Name):
            order.append("msg")
            msg = msg or prt.id
        elif isinstance(prt, ast.List):
            count = count + len(prt.elts)
            order += [norm(e) for e in prt.elts]
        elif isinstance(prt, ast.BinOp) and isinstance(prt.op, ast.Mult) and (isinstance(prt.left, ast.List) or isinstance(prt.right, ast.List)):
            lst, k = (prt.left, prt.right) if isinstance(prt.left, ast.List) else (prt.right, prt.left)
            if msg is not None:
                lenv["len(%s)" % msg] = n_
            kp = poly_of(k, lenv, strict=False)
            if kp is None:
                order.append("?" + norm(prt))
                continue
            count = count + kp * len(lst.elts)
            order.append(norm(lst.elts[0]) + "*")
        else:
            order.append("?" + norm(prt))
    want = m_ - P.sym("Mod(n,m)")
    # the marker may be the wire of the constant one or the plain integer 1, the filler the zero wire or the plain 0
    order = ["LinComb.ONE" if o in _ONES else ("LinComb.ZERO*" if o.endswith("*") and o[:-1] in _ZEROS else o) for o in order]
    if msg is not None and msgname is not None and msg != msgname:
        # the length was taken of another list than the one that is padded
        rule.violation(w2, fi.fq, "len(%s) used to pad %s" % (msgname, msg), "the padding length is computed from a different list than "
                       "the one that is padded", "pad/len")
        return
    if order[:2] == ["msg", "LinComb.ONE"] and all(o in ("LinComb.ZERO*",) for o in order[2:]) and count == want:
        rule.ok(w2, fi.fq, "padded = message + [ONE] + [ZERO]*Z with 1 + Z = m - (n mod m), in [1, m]",
                "marker always present; messages of different length never share a padded form")
    elif order[:2] == ["msg", "LinComb.ONE"] and all(o in ("LinComb.ZERO*",) for o in order[2:]):
        rule.violation(w2, fi.fq, "appended %s elements, expected %s" % (count, want), "padding length is not m - (n mod m): it can be 0 "
                       "(no marker room) or does not complete the block", "pad/len")
    else:
        rule.violation(w2, fi.fq, "order %s, appended %s" % (order, count),
                       "padding is not `message, 1, 0...0` with exactly m - (n mod m) appended elements", "pad/shape")


def ggh(repo, rule):
    m = repo.module(GG)
    prime = [n for n in m.tree.body if isinstance(n, ast.Assign) and norm(n.targets[0]) == "PRIME"]
    if prime and norm(prime[0].value).endswith("runtime.backend.get_modulus()"):
        rule.ok("%s:%s" % (m.relpath, prime[0].lineno), GG, norm(prime[0]), "prime of the active backend")
    else:
        rule.violation("%s:1" % m.relpath, GG, norm(prime[0]) if prime else "PRIME not found",
                       "subset-sum prime is not the active backend's modulus", "ggh/prime")
    for fn in ("ggh_hash_nonplain", "ggh_hash_plain"):
        fi = m.functions.get(fn)
        if fi is None:
            continue
        loops = [s for s in fi.node.body if isinstance(s, ast.For)]
        ok = False
        if loops and norm(loops[0].iter).startswith("enumerate(") and isinstance(loops[0].target, ast.Tuple):
            iv, bv = norm(loops[0].target.elts[0]), norm(loops[0].target.elts[1])
            from ..flatten import resolve_locals
            txt = " ; ".join(norm(resolve_locals(fi.node, st)) for st in loops[0].body)
            # names that stand for the bit itself: bound (on every arm of a dispatch by operand kind) to the bit, its wire
            # `b.lc`, its plain value `int(b)` / `b.value`
            def _ident(e, al):
                t_ = norm(e)
                return any(t_ in (a_, "%s.lc" % a_, "int(%s)" % a_, "%s.value" % a_, "%s.lc.value" % a_) for a_ in al)
            aliases = {bv}
            grew = True
            while grew:
                grew = False
                binds = {}
                for a_ in [x for st in loops[0].body for x in ast.walk(st)]:
                    if isinstance(a_, ast.Assign) and len(a_.targets) == 1 and isinstance(a_.targets[0], ast.Name):
                        binds.setdefault(a_.targets[0].id, []).append(a_.value)
                for nm_, vals_ in binds.items():
                    if nm_ not in aliases and nm_ != iv and all(_ident(v_, aliases) for v_ in vals_):
                        aliases.add(nm_)
                        grew = True
            weighted = any(isinstance(x, ast.BinOp) and isinstance(x.op, ast.Mult) and any(
                _ident(a_, aliases) and norm(b_) == "SHA512_prng(%s)" % iv for a_, b_ in ((x.left, x.right), (x.right, x.left)))
                for st in loops[0].body for x in ast.walk(st))
            ok = (weighted or "%s * SHA512_prng(%s)" % (bv, iv) in txt or "SHA512_prng(%s) * %s" % (iv, bv) in txt) and (
                "% PRIME" in txt or "%= PRIME" in txt)
        if ok:
            rule.ok(fi.loc(), fi.fq, norm(loops[0].body)[:100], "bit i weighted by coefficient i, reduced mod PRIME")
        else:
            rule.violation(fi.loc(), fi.fq, norm(fi.node.body)[:120], "bit/coefficient pairing or reduction is wrong", "ggh/%s" % fn)


def sponge_absorb(repo, rule):
    """Sponge construction of poseidon_hash: each block is ADDED to the rate elements sponge[1:], the capacity element
    sponge[0] is carried over unchanged into the permutation, the state is permuted once per block, the digest is read
    from the rate part."""
    fi = repo.fn(PH, "poseidon_hash")
    # the state belongs to one hash computation: no helper class of the module keeps it in a class attribute (shared by every
    # instance, so the second hash would start from the state the first one ended in)
    for ci in repo.module(PH).classes.values():
        for nm_, val_ in sorted(ci.attrs.items()):
            mut = isinstance(val_, (ast.List, ast.Dict, ast.Set, ast.ListComp, ast.Call)) or (
                isinstance(val_, ast.BinOp) and any(isinstance(x, ast.List) for x in ast.walk(val_)))
            touched = [a for mi in ci.methods.values() for a in ast.walk(mi.node) if isinstance(a, ast.Attribute) and a.attr == nm_
                       and isinstance(a.value, ast.Name) and mi.params and a.value.id == mi.params[0]]
            own = any(isinstance(s_, ast.Assign) and any(isinstance(t_, ast.Attribute) and t_.attr == nm_ for t_ in s_.targets)
                      for mi in [ci.methods.get("__init__")] if mi is not None for s_ in mi.node.body)
            if mut and touched and not own:
                rule.violation("%s:%d" % (repo.module(PH).relpath, getattr(val_, "lineno", 1)), ci.fq, "%s.%s = %s" % (ci.name, nm_, norm(val_)[:60]),
                               "sponge state is kept in a class attribute: it is shared by all instances, so a hash starts from "
                               "the state the previous one left behind instead of the all-zero state", "sponge/shared-state/%s" % nm_)
    loops = [s for s in fi.node.body if isinstance(s, ast.For)]
    lp = None
    for s in loops:
        if any(isinstance(c, ast.Call) and norm(c.func) == "permute" for c in ast.walk(s)):
            lp = s
    if lp is None:
        rule.violation(fi.loc(), fi.fq, "no loop calling permute()", "the sponge does not permute once per block", "sponge/loop")
        return
    pc = [c for c in ast.walk(lp) if isinstance(c, ast.Call) and norm(c.func) == "permute" and c.args]
    sn = norm(pc[0].args[0]) if pc else "sponge"          # name of the state variable
    if pc and not isinstance(pc[0].args[0], ast.Name):
        # permute(<rebuilt state>): the state is the variable the result is bound to
        par_ = getattr(pc[0], "_parent", None)
        if isinstance(par_, ast.Assign) and len(par_.targets) == 1 and isinstance(par_.targets[0], ast.Name):
            sn = par_.targets[0].id
    blocks = {}          # local name -> text of the block slice
    state_name = None
    permuted = 0
    absorbed = False
    problems = []
    for s in lp.body:
        if isinstance(s, ast.Assign) and len(s.targets) == 1:
            t, v = s.targets[0], s.value
            # block slice: round_inputs = inputs[i*k:(i+1)*k]
            if isinstance(t, ast.Name) and isinstance(v, ast.Subscript) and isinstance(v.slice, ast.Slice) and not (
                    isinstance(v.value, ast.Name) and v.value.id == sn):
                blocks[t.id] = norm(v)
                continue
            if isinstance(v, ast.Call) and norm(v.func) == "permute":
                arg = norm(v.args[0]) if v.args else ""
                fused = bool(arg != sn and norm(t) == sn and v.args and isinstance(v.args[0], ast.BinOp) and isinstance(v.args[0].op, ast.Add))
                # fused: sponge = permute([capacity] + (rate + block)) - the rebuilt state goes straight into the permutation
                if not fused and (arg != sn or norm(t) != sn):
                    problems.append((s, "the permutation is not applied to the whole state in place of it"))
                permuted += 1
                if not fused:
                    continue
                v = v.args[0]

            def added(comp):
                """[x + y for (x, y) in zip(sponge[1:], block)] (either order)"""
                if not isinstance(comp, ast.ListComp) or len(comp.generators) != 1 or comp.generators[0].ifs:
                    return False
                g = comp.generators[0]
                it = g.iter
                if not (isinstance(it, ast.Call) and norm(it.func) == "zip" and len(it.args) == 2 and isinstance(g.target, ast.Tuple)
                        and len(g.target.elts) == 2):
                    return False
                srcs = {norm(a) for a in it.args}
                blk = [a for a in srcs if a != sn + "[1:]"]
                if sn + "[1:]" not in srcs or len(blk) != 1 or not (blk[0] in blocks or "inputs[" in blk[0]):
                    return False
                x, y = norm(g.target.elts[0]), norm(g.target.elts[1])

                def sumlike(e):
                    """x + y, or a conditional that returns the other operand when one is the plain integer 0 and x + y otherwise"""
                    if isinstance(e, ast.BinOp) and isinstance(e.op, ast.Add) and {norm(e.left), norm(e.right)} == {x, y}:
                        return True
                    if isinstance(e, ast.IfExp):
                        tt = norm(e.test).replace(" ", "")
                        for z, other in ((x, y), (y, x)):
                            if tt in ("isinstance(%s,int)and%s==0" % (z, z), "%s==0andisinstance(%s,int)" % (z, z), "%s==0" % z, "%sis0" % z) \
                                    and norm(e.body) == other:
                                return sumlike(e.orelse)
                    return False
                return sumlike(comp.elt)
            if isinstance(t, ast.Subscript) and norm(t) == sn + "[1:]" and not (isinstance(s.value, ast.Call) and norm(s.value.func) == "permute"):
                if added(v):
                    absorbed = True
                else:
                    problems.append((s, "the rate part is not (old rate + block) element-wise"))
                continue
            if isinstance(t, ast.Name) and t.id == sn:
                # whole-state rebuild: must be [sponge[0]] + [rate + block]  (or sponge[:1] + ...)
                ok = False
                if isinstance(v, ast.BinOp) and isinstance(v.op, ast.Add):
                    head = norm(v.left)
                    if head in ("[%s[0]]" % sn, "%s[:1]" % sn, "%s[0:1]" % sn, "list(%s[:1])" % sn) and added(v.right):
                        ok = True
                    elif added(v.right):
                        problems.append((s, "the capacity element sponge[0] is replaced by `%s` before each permutation instead of "
                                            "being carried over: from the second block on the state differs from the sponge "
                                            "construction" % head))
                        absorbed = True
                        continue
                if ok:
                    absorbed = True
                else:
                    problems.append((s, "the state is rebuilt in a way that is not [capacity] + (rate + block)"))
                continue
            if isinstance(t, ast.Subscript) and norm(t.value) == sn:
                problems.append((s, "an element of the state is overwritten during absorption"))
    where = fi.loc(lp)
    if problems:
        s, msg = problems[0]
        rule.violation(fi.loc(s), fi.fq, norm(s)[:120], msg, "sponge/absorb")
    elif absorbed and permuted == 1:
        rule.ok(where, fi.fq, "per block: sponge[1:] += block; sponge = permute(sponge)", "capacity element carried over")
    else:
        rule.violation(where, fi.fq, "absorbed=%s, permutations per block=%d" % (absorbed, permuted), "a block is not absorbed exactly "
                       "once and followed by exactly one permutation", "sponge/shape")
    rets = [n for n in fi.node.body if isinstance(n, ast.Return)]
    if rets and norm(rets[-1].value) in ("%s[1:]" % sn, "%s[1:t]" % sn, "list(%s[1:])" % sn):
        rule.ok(fi.loc(rets[-1]), fi.fq, "digest = sponge[1:]")
    else:
        rule.violation(fi.loc(), fi.fq, norm(rets[-1].value) if rets else "no return", "the digest is not the rate part of the final state",
                       "sponge/digest")


def prng_rejection(repo, rule):
    """SHA512_prng is pure rejection sampling: every value it returns is a draw accepted by `val < PRIME` (no cap on the
    number of draws, no folding of a rejected draw into the field): otherwise the coefficients differ from the published
    generator for the indices that need more draws."""
    from ..hints import paths_to
    fi = repo.module(GG).functions.get("SHA512_prng")
    if fi is None:
        raise AnalysisError("SHA512_prng not found")
    rets = [n for n in ast.walk(fi.node) if isinstance(n, ast.Return) and n.value is not None]
    if not rets:
        rule.violation(fi.loc(), fi.fq, "no return", "generator returns nothing", "prng/ret")
        return
    for r in rets:
        rv = norm(r.value)
        accepted = False
        for p_ in parents(r):
            if isinstance(p_, ast.If):
                inbody = any(r is x for st in p_.body for x in ast.walk(st))
                t = norm(p_.test).replace(" ", "")
                if inbody and t in ("%s<PRIME" % rv, "PRIME>%s" % rv):
                    accepted = True
                if (not inbody) and t in ("%s>=PRIME" % rv, "PRIME<=%s" % rv, "not%s<PRIME" % rv):
                    accepted = True
        if accepted:
            rule.ok(fi.loc(r), fi.fq, "return %s under `%s < PRIME`" % (rv, rv), "accepted draw")
        else:
            rule.violation(fi.loc(r), fi.fq, "return %s" % rv, "a value is returned that was not accepted by the rejection test "
                           "`< PRIME`: the generator departs from pure rejection sampling (different coefficients for some indices)",
                           "prng/fallback")
    loops = [n for n in ast.walk(fi.node) if isinstance(n, (ast.While, ast.For))]
    bounded = [n for n in loops if (isinstance(n, ast.For) and norm(n.iter).split("(")[0] not in ("itertools.count", "count"))
               or (isinstance(n, ast.While) and norm(n.test) not in ("True", "1"))]
    if bounded:
        rule.violation(fi.loc(bounded[0]), fi.fq, norm(bounded[0])[:80].split(":")[0], "the number of draws is capped: indices whose first "
                       "draws are all rejected get a different coefficient", "prng/bounded")
    elif loops:
        rule.ok(fi.loc(loops[0]), fi.fq, "while True: draw until accepted")


def check(repo, rep, tier):
    rep.explanation = ("Provenance of the parameter-set key by module-level def-use; the parameter table is evaluated "
                       "with ast.literal_eval (literals only) and checked against the reader's index arithmetic and the "
                       "curve table; the round structure, padding arithmetic and subset-sum pairing are checked on the "
                       "ast with polynomial normal forms; obliviousness reuses the C06 analysis on the hash modules.")
    rep.trusted = ["curve table of rules/c13.py", "Poseidon structure: R_F/2 full, R_P partial, R_F/2 full rounds"]
    rep.not_decided = ["agreement with a reference implementation / published test vectors (value facts)"]
    r1 = rep.rule("R-C20-1", "parameter set keyed by the runtime's selected backend", floor=2)
    provenance(repo, r1)
    r2 = rep.rule("R-C20-2", "parameter-table consistency", floor=4)
    table(repo, r2)
    r3 = rep.rule("R-C20-3", "round structure of the permutation", floor=12)
    rounds(repo, r3)
    r4 = rep.rule("R-C20-4", "padding: marker always appended, multiple of t-1", floor=2)
    padding(repo, r4)
    r5 = rep.rule("R-C20-5", "hash gadgets are oblivious (C06 rules over the hash modules)", floor=3)
    mods = {PH, GG}
    eval_tainted_alts(repo, r5, mods)
    bad = eval_tainted_loops(repo, r5, mods)
    for (fq, itx), where in sorted(count_public_loops(repo, r5, mods).items()):
        if (fq, itx) not in bad:
            r5.ok(where, fq, "iteration space `%s`" % itx, "public iteration space")
    r6 = rep.rule("R-C20-6", "subset-sum hash: active prime, coefficient i with bit i", floor=2)
    ggh(repo, r6)
    r7 = rep.rule("R-C20-7", "sponge construction: blocks added to the rate part, capacity carried over, one permutation per block", floor=2)
    sponge_absorb(repo, r7)
    r8 = rep.rule("R-C20-8", "subset-sum coefficients come from pure rejection sampling", floor=2)
    prng_rejection(repo, r8)
