"""C10 - snarkjs .r1cs / .wtns files encode exactly the traced circuit and a canonical witness.

prove() is straight-line code over three lists.  It is interpreted symbolically into, per output file, a
*stream* of write events (width polynomial, value expression) with loops as single events whose size is
`len(iterable) * body`, in the symbols P=len(pubvals), W=len(privvals), K=len(constraints) and
S{..}=sums over constraints.  The stream is then parsed against the iden3 binary-format templates.

R-C10-1  every field-size write carries a canonical value (literal in [0,p), the modulus, or `e % p`)
R-C10-2  byte accounting: declared section lengths and counts equal what the loops write
R-C10-3  wire numbering agrees between allocator, circuit writer and witness writer
R-C10-4  format constants (magic, versions, section counts/ids, field size, little-endian byte order)
"""
import ast
import re

from ..loader import norm, AnalysisError, clone
from ..poly import P, poly_of
from .c13 import int_literal

MOD = "pysnark.snarkjsbackend"
SYM = {"len(pubvals)": "P", "len(privvals)": "W", "len(constraints)": "K"}


class Ev:
    def __init__(self, width, value, node, loop=None, body=None, count=None):
        self.width = width      # P (bytes) for a single write; for loops: total size
        self.value = value      # ast node of the value written (None for loops)
        self.node = node
        self.loop = loop        # text of the iterable (loops only)
        self.body = body        # [Ev] (loops only)
        self.count = count      # P: number of iterations

    def size(self):
        return self.width


class Interp:
    def __init__(self, fi, consts, module=None):
        self.fi = fi
        from ..bytesnorm import normalise as _bn
        self.fnode = _bn(fi.node)     # pieces collected in lists / joined comprehensions / encoders -> buffer appends
        self.module = module          # for calls of module-level helper functions (interpreted in place)
        self.active = []
        self.inline_writers = []      # little-endian writes written in place
        self.tables = {}              # local name -> literal list of rows
        self.consts = consts          # module-level integer names (snarkjsp)
        self.writers = {}             # name -> (fileexpr, valparam, lenparam, little_endian_ok)
        self.helpers = {}             # name -> FunctionDef of helper that calls writers (writefac)
        self.files = {}               # var -> filename
        self.streams = {}             # filename -> [Ev]
        self.closed = set()
        self.env = {}                 # local name -> poly
        self.problems = []
        self.violations = []          # (node, message, key): format decisions that depend on the data
        self.endian = {}
        self.row_vars = set()         # loop variables standing for one row of `constraints`
        self.row_len = 0              # number of parts of a row (3: add_constraint appends [v, w, y])
        if module is not None:
            ac = module.functions.get("add_constraint")
            if ac is not None:
                apps = [c_ for c_ in ast.walk(ac.node) if isinstance(c_, ast.Call) and norm(c_.func) == "constraints.append" and c_.args
                        and isinstance(c_.args[0], (ast.List, ast.Tuple))]
                if len(apps) == 1:
                    self.row_len = len(apps[0].args[0].elts)
        self.buffers = {}             # local name -> "one" (a bytearray) | "many" (a dict of bytearrays keyed by constants)
        self.exprs = {}               # local name -> expression node (bytes expressions bound to a local: data = bytes([...]))
        self.env_len = {}

    # ---- polynomials of python int expressions
    def fold(self, node):
        """copy of `node` with integer sub-expressions over literals and module constants computed
        ((snarkjsp.bit_length() + 7) // 8 is 32: arithmetic on source literals, nothing is run)"""
        consts = self.consts

        def ev(n):
            if isinstance(n, ast.Constant) and isinstance(n.value, int) and not isinstance(n.value, bool):
                return n.value
            if isinstance(n, ast.Name) and n.id in consts:
                return consts[n.id]
            if isinstance(n, ast.BinOp):
                a, b = ev(n.left), ev(n.right)
                if a is None or b is None:
                    return None
                try:
                    if isinstance(n.op, ast.Add): return a + b
                    if isinstance(n.op, ast.Sub): return a - b
                    if isinstance(n.op, ast.Mult): return a * b
                    if isinstance(n.op, ast.FloorDiv) and b != 0: return a // b
                    if isinstance(n.op, ast.Mod) and b != 0: return a % b
                    if isinstance(n.op, ast.LShift) and 0 <= b < 4096: return a << b
                    if isinstance(n.op, ast.RShift) and 0 <= b < 4096: return a >> b
                except Exception:
                    return None
                return None
            if isinstance(n, ast.Call) and isinstance(n.func, ast.Attribute) and n.func.attr == "bit_length" and not n.args:
                a = ev(n.func.value)
                return a.bit_length() if a is not None else None
            return None

        class _F(ast.NodeTransformer):
            def generic_visit(self_, n):
                if isinstance(n, (ast.BinOp, ast.Call)) and not (isinstance(n, ast.BinOp) and isinstance(n.op, ast.Mod)):
                    v = ev(n)
                    if v is not None and abs(v) < (1 << 64):
                        return ast.copy_location(ast.Constant(value=v), n)
                return super().generic_visit(n)
        return _F().visit(clone(node))

    def poly(self, node, extra=None):
        node = self.fold(node)
        env = {k: P.sym(v) for k, v in SYM.items()}
        env.update(self.env)
        if extra:
            env.update(extra)
        calls = {"sum": self._sum_call, "len": self._len_call}
        return poly_of(node, env, calls)

    def _len_call(self, args, rec):
        # len(<buffer>): the number of bytes collected in it so far
        if len(args) == 1:
            key = self.buffer_key(args[0])
            if key is not None:
                tot = P()
                for ev in self.streams.get(key, []):
                    tot = tot + ev.width
                return tot
            t = "len(%s)" % norm(args[0])
            if t in SYM:
                return P.sym(SYM[t])
            if norm(args[0]) in self.env_len:
                return self.env_len[norm(args[0])]
            return P.sym(t)
        return None

    def buffer_key(self, node):
        """stream key of an in-memory byte buffer expression:  buf  |  bufs[<const>]  |  bytes(buf)"""
        if isinstance(node, ast.Call) and norm(node.func) in ("bytes", "bytearray", "memoryview") and len(node.args) == 1:
            return self.buffer_key(node.args[0])
        if isinstance(node, ast.Name) and node.id in self.buffers and self.buffers[node.id] == "one":
            return "buf:%s" % node.id
        if isinstance(node, ast.Subscript) and isinstance(node.value, ast.Name) and self.buffers.get(node.value.id) == "many":
            k = self.fold(node.slice)
            if isinstance(k, ast.Constant):
                return "buf:%s[%r]" % (node.value.id, k.value)
        return None

    def _sum_call(self, args, rec):
        if len(args) == 1 and isinstance(args[0], (ast.ListComp, ast.GeneratorExp)) and len(args[0].generators) == 2:
            # sum(E(x) for c in CS for x in (a(c), b(c), ..))  ==  sum(E(a(c)) + E(b(c)) + .. for c in CS)
            g0, g1 = args[0].generators
            if not g0.ifs and not g1.ifs and isinstance(g1.iter, (ast.Tuple, ast.List)) and isinstance(g1.target, ast.Name) and isinstance(g0.target, ast.Name):
                tot = None
                for e_ in g1.iter.elts:
                    t_ = _SubstNames({g1.target.id: e_}).visit(clone(args[0].elt))
                    tot = t_ if tot is None else ast.BinOp(left=tot, op=ast.Add(), right=t_)
                if tot is not None:
                    ast.fix_missing_locations(tot)
                    inner = rec(tot)
                    if inner is not None:
                        return sum_over(g0.target.id, norm(g0.iter), inner)
        if len(args) == 1 and isinstance(args[0], (ast.ListComp, ast.GeneratorExp)) and len(args[0].generators) == 1:
            g = args[0].generators[0]
            if not g.ifs and isinstance(g.target, ast.Name):
                inner = rec(args[0].elt)
                if inner is not None:
                    return sum_over(g.target.id, norm(g.iter), inner)
        return P.sym("sum(%s)" % ",".join(norm(a) for a in args))

    # ---- discovery of writer helpers
    def scan_defs(self, fnode=None):
        for s in (fnode or self.fnode).body:
            if isinstance(s, ast.FunctionDef):
                w = self._as_writer(s)
                if w:
                    self.writers[s.name] = w
                else:
                    self.helpers[s.name] = s

    def _as_writer(self, fn):
        if len(fn.args.args) != 2 or len(fn.body) != 1 or not isinstance(fn.body[0], ast.Expr):
            return None
        c = fn.body[0].value
        if not (isinstance(c, ast.Call) and isinstance(c.func, ast.Attribute) and c.func.attr == "write" and c.args):
            return None
        b = c.args[0]
        if not (isinstance(b, ast.Call) and norm(b.func) == "bytes" and b.args and isinstance(b.args[0], ast.ListComp)):
            return None
        comp = b.args[0]
        g = comp.generators[0]
        vp, lp = fn.args.args[0].arg, fn.args.args[1].arg
        i = norm(g.target)
        le = norm(g.iter) == "range(%s)" % lp and not g.ifs
        elt = norm(comp.elt)
        forms = {"%s >> %s * 8 & 255" % (vp, i), "%s >> 8 * %s & 255" % (vp, i), "(%s >> %s * 8) %% 256" % (vp, i),
                 "%s >> (%s << 3) & 255" % (vp, i), "%s >> %s * 8 & 0xff" % (vp, i)}
        le = le and elt in forms
        return (norm(c.func.value), vp, lp, le, fn)

    # ---- execution
    def run(self):
        self.scan_defs()
        self.block(self.fnode.body, None)

    def block(self, stmts, sink):
        for s in stmts:
            self.stmt(s, sink)

    def emit(self, fvar, ev, sink):
        if sink is not None:
            sink.append((fvar, ev))
            return
        fname = self.files.get(fvar)
        if fname is None and isinstance(fvar, str) and fvar.startswith("buf:"):
            self.streams.setdefault(fvar, []).append(ev)
            return
        if fname is None:
            self.problems.append((ev.node, "write to unknown file object `%s`" % fvar))
            return
        if fname in self.closed:
            self.problems.append((ev.node, "write to %s after close" % fname))
        self.streams.setdefault(fname, []).append(ev)

    def data_events(self, a, node):
        """[Ev] for a bytes-valued expression, or None:  little-endian extraction written in place, E.to_bytes(N, 'little'),
        bytes('literal', ..), a local bound to one of these, the content of an in-memory buffer, concatenations"""
        if isinstance(a, ast.Name) and a.id in self.exprs:
            return self.data_events(self.exprs[a.id], node)
        if isinstance(a, ast.BinOp) and isinstance(a.op, ast.Add):
            l, r = self.data_events(a.left, node), self.data_events(a.right, node)
            return None if l is None or r is None else l + r
        key = self.buffer_key(a)
        if key is not None:
            return list(self.streams.get(key, []))
        le = self._inline_le(a)
        if le is not None:
            valnode, widthnode = le
            self.inline_writers.append((node, valnode, widthnode))
            return [Ev(self.poly(widthnode), valnode, node)]
        if isinstance(a, ast.Call) and isinstance(a.func, ast.Attribute) and a.func.attr == "to_bytes" and len(a.args) >= 1:
            order = a.args[1] if len(a.args) > 1 else next((k.value for k in a.keywords if k.arg == "byteorder"), None)
            if isinstance(order, ast.Constant) and order.value == "little" and not any(
                    k.arg == "signed" and not (isinstance(k.value, ast.Constant) and k.value.value is False) for k in a.keywords):
                self.inline_writers.append((node, a.func.value, a.args[0]))
                return [Ev(self.poly(a.args[0]), a.func.value, node)]
            self.problems.append((node, "to_bytes is not little-endian unsigned: %s" % norm(a)[:60]))
            return None
        if isinstance(a, ast.Call) and norm(a.func) == "bytes" and a.args and isinstance(a.args[0], ast.Constant) \
                and isinstance(a.args[0].value, str):
            return [Ev(P.const(len(a.args[0].value)), a.args[0], node)]
        if isinstance(a, ast.Constant) and isinstance(a.value, bytes):
            return [Ev(P.const(len(a.value)), ast.Constant(value=a.value.decode("latin-1")), node)]
        return None

    @staticmethod
    def static_test(t):
        """truth of a test between constants (after a helper's parameters were substituted), else None"""
        if isinstance(t, ast.UnaryOp) and isinstance(t.op, ast.Not):
            v = Interp.static_test(t.operand)
            return None if v is None else not v
        if isinstance(t, ast.Constant):
            return bool(t.value)
        if isinstance(t, ast.Compare) and len(t.ops) == 1 and isinstance(t.left, ast.Constant) and isinstance(t.comparators[0], ast.Constant):
            a, b, op = t.left.value, t.comparators[0].value, t.ops[0]
            if isinstance(op, ast.Is):
                return a is b if (a is None or b is None) else a == b
            if isinstance(op, ast.IsNot):
                return a is not b if (a is None or b is None) else a != b
            if isinstance(op, ast.Eq):
                return a == b
            if isinstance(op, ast.NotEq):
                return a != b
        return None

    def stmt(self, s, sink, subst=None):
        if isinstance(s, ast.FunctionDef):
            return
        if isinstance(s, (ast.Import, ast.ImportFrom)):
            return
        # in-memory buffers:  buf = bytearray() | b""   ;   bufs = defaultdict(bytearray) | {}
        if isinstance(s, ast.Assign) and len(s.targets) == 1 and isinstance(s.targets[0], ast.Name):
            v = s.value
            vt = norm(v).replace(" ", "")
            if vt in ("bytearray()", "bytes()", "b''", "io.BytesIO()", "BytesIO()"):
                self.buffers[s.targets[0].id] = "one"
                self.streams.setdefault("buf:%s" % s.targets[0].id, [])
                return
            if vt in ("defaultdict(bytearray)", "collections.defaultdict(bytearray)", "defaultdict(bytes)", "collections.defaultdict(bytes)"):
                self.buffers[s.targets[0].id] = "many"
                return
            if isinstance(v, ast.Call) and (norm(v.func) in ("bytes",) or (isinstance(v.func, ast.Attribute) and v.func.attr == "to_bytes")):
                self.exprs[s.targets[0].id] = v          # data = bytes([...]) : a local holding the bytes to write
                return
        if isinstance(s, ast.AugAssign) and isinstance(s.op, ast.Add):
            key = self.buffer_key(s.target)
            if key is not None:
                evs = self.data_events(s.value, s)
                if evs is None:
                    self.problems.append((s, "bytes appended to a buffer not interpretable: %s" % norm(s.value)[:60]))
                    return
                for e_ in evs:
                    if sink is not None:
                        sink.append((key, e_))
                    else:
                        self.streams.setdefault(key, []).append(e_)
                return
        if isinstance(s, ast.If):
            st_ = self.static_test(s.test)
            if st_ is not None:
                for b in (s.body if st_ else s.orelse):
                    self.stmt(b, sink, subst)
                return
        if isinstance(s, ast.Assign) and isinstance(s.targets[0], ast.Name) and isinstance(s.value, ast.Call) \
                and norm(s.value.func) == "open" and s.value.args and isinstance(s.value.args[0], ast.Constant):
            self.files[s.targets[0].id] = s.value.args[0].value
            self.streams.setdefault(s.value.args[0].value, [])
            return
        if isinstance(s, ast.Assign) and isinstance(s.targets[0], ast.Name) and isinstance(s.value, ast.Call) \
                and self._writer_factory(s.targets[0].id, s.value):
            return
        if isinstance(s, ast.Assign) and isinstance(s.targets[0], ast.Name) and isinstance(s.value, (ast.List, ast.Tuple)) \
                and s.value.elts and all(isinstance(e, (ast.Tuple, ast.List, ast.Constant)) for e in s.value.elts):
            self.tables[s.targets[0].id] = s.value          # a literal table of (value, width) rows
            return
        if isinstance(s, ast.Assign) and isinstance(s.targets[0], ast.Name):
            p = self.poly(s.value)
            if p is not None:
                self.env[s.targets[0].id] = p
            return
        if isinstance(s, ast.Expr) and isinstance(s.value, ast.Call):
            self.call(s.value, sink, subst or {})
            return
        if isinstance(s, ast.For) and any(isinstance(x, ast.Name) and self.buffers.get(x.id) == "many" for x in ast.walk(s.iter)):
            # the sections written are the keys that happen to exist in the table of buffers
            keys = sorted(k for k in self.streams if k.startswith("buf:"))
            self.violations.append((s, "the sections are written from the keys present in `%s`: a section that received no bytes "
                                       "(e.g. a program without constraints) is left out of the file although the header announces "
                                       "it" % norm(s.iter), "sections/dynamic"))
            return
        if isinstance(s, ast.For) and isinstance(s.iter, ast.BinOp) and isinstance(s.iter.op, ast.Add) and not s.orelse:
            # for x in A + B + C: BODY   ==   the loop over A, then over B, then over C
            parts = []

            def flat_(e):
                if isinstance(e, ast.BinOp) and isinstance(e.op, ast.Add):
                    flat_(e.left)
                    flat_(e.right)
                else:
                    parts.append(e)
            flat_(s.iter)
            for prt in parts:
                lp_ = ast.For(target=s.target, iter=prt, body=s.body, orelse=[])
                ast.copy_location(lp_, s)
                self.stmt(lp_, sink, subst)
            return
        if isinstance(s, ast.For) and isinstance(s.iter, ast.Name) and s.iter.id in self.row_vars and isinstance(s.target, ast.Name) and not s.orelse:
            # for part in c   with c one row of `constraints` (a list [A, B, C], see add_constraint): the three parts in order
            for j_ in range(self.row_len):
                alias = {s.target.id: ast.Subscript(value=ast.Name(id=s.iter.id, ctx=ast.Load()), slice=ast.Constant(value=j_), ctx=ast.Load())}
                for b in s.body:
                    b2 = _SubstNames(alias).visit(clone(b))
                    ast.fix_missing_locations(b2)
                    self.stmt(b2, sink, subst)
            return
        unroll = None
        if isinstance(s, ast.For) and isinstance(s.target, ast.Name):
            if isinstance(s.iter, ast.Call) and norm(s.iter.func) == "range" and len(s.iter.args) == 1 \
                    and isinstance(s.iter.args[0], ast.Constant) and isinstance(s.iter.args[0].value, int) \
                    and 0 <= s.iter.args[0].value <= 8:
                unroll = list(range(s.iter.args[0].value))
            elif isinstance(s.iter, (ast.Tuple, ast.List)) and len(s.iter.elts) <= 8 and all(
                    isinstance(e, ast.Constant) and isinstance(e.value, int) for e in s.iter.elts):
                unroll = [e.value for e in s.iter.elts]
        if unroll is None and isinstance(s, ast.For):
            # table-driven writes:  for (val, n) in [(2, 4), (1, 4), ...]: w(val, n)   (literal, or a local bound once to one)
            it = s.iter
            if isinstance(it, ast.Name) and it.id in self.tables:
                it = self.tables[it.id]
            tg = [s.target] if isinstance(s.target, ast.Name) else (list(s.target.elts) if isinstance(s.target, (ast.Tuple, ast.List)) else None)
            if isinstance(it, (ast.Tuple, ast.List)) and 1 <= len(it.elts) <= 32 and tg and all(isinstance(t, ast.Name) for t in tg):
                rows = []
                for e in it.elts:
                    parts = list(e.elts) if isinstance(e, (ast.Tuple, ast.List)) else [e]
                    if len(parts) != len(tg):
                        rows = None
                        break
                    rows.append(parts)
                if rows:
                    import copy
                    for parts in rows:
                        alias = {t.id: p_ for t, p_ in zip(tg, parts)}
                        for b in s.body:
                            b2 = _SubstNames(alias).visit(clone(b))
                            ast.fix_missing_locations(b2)
                            self.stmt(b2, sink, subst)
                    return
        if unroll is not None:
            # a loop over a small literal range / tuple is unrolled (e.g. `for j in range(3): ... c[j].lc ...`)
            import copy
            for jv in unroll:
                alias = {s.target.id: ast.Constant(value=jv)}
                for b in s.body:
                    b2 = _SubstNames(alias).visit(clone(b))
                    ast.fix_missing_locations(b2)
                    if isinstance(b2, ast.Assign) and len(b2.targets) == 1 and isinstance(b2.targets[0], ast.Name) \
                            and self.poly(b2.value) is not None and not isinstance(b2.value, ast.Constant) \
                            and isinstance(b2.value, (ast.Attribute, ast.Subscript, ast.Name)):
                        alias[b2.targets[0].id] = b2.value     # loop-local alias of a container expression
                        continue
                    self.stmt(b2, sink, subst)
            return
        if isinstance(s, ast.For):
            body = []
            inner_sub = dict(subst or {})
            alias = {}
            if norm(s.iter) == "constraints" and isinstance(s.target, ast.Name) and self.row_len:
                self.row_vars.add(s.target.id)
            for b in s.body:
                # loop-local names holding an expression (v2 = val % p; w(v2, 32)) are substituted
                if isinstance(b, ast.Assign) and len(b.targets) == 1 and isinstance(b.targets[0], ast.Name) \
                        and not isinstance(b.value, ast.Call):
                    alias[b.targets[0].id] = _SubstNames(alias).visit(clone(b.value)) if alias else b.value
                    continue
                if alias:
                    b = _SubstNames(alias).visit(clone(b))
                    ast.fix_missing_locations(b)
                self.stmt(b, body, inner_sub)
            if not body:
                return
            files = {f for f, _e in body}
            if len(files) != 1:
                self.problems.append((s, "loop writes to several files"))
                return
            fvar = files.pop()
            evs = [e for _f, e in body]
            it = s.iter
            cnt = self.count_of(it)
            var = norm(s.target)
            per = P()
            for e in evs:
                per = per + e.width
            total = sum_over_loop(var, norm(it), per, cnt)
            self.emit(fvar, Ev(total, None, s, loop=norm(it), body=evs, count=cnt), sink)
            return
        if isinstance(s, ast.Expr) and isinstance(s.value, ast.Constant):
            return
        if isinstance(s, (ast.Pass,)):
            return
        if isinstance(s, ast.If):
            self.problems.append((s, "conditional in the serializer: format depends on `%s`" % norm(s.test)))
            return
        self.problems.append((s, "statement not interpretable: %s" % norm(s)[:60]))

    def count_of(self, it):
        t = norm(it)
        m = re.match(r"^range\((.*)\)$", t)
        if m and isinstance(it, ast.Call) and len(it.args) == 1:
            return self.poly(it.args[0])
        if t.endswith(".items()"):
            t = t[:-8]
        elif t.endswith(".keys()") or t.endswith(".values()"):
            t = t.rsplit(".", 1)[0]
        return P.sym(SYM.get("len(%s)" % t, "len(%s)" % t))

    def call(self, c, sink, subst):
        f = norm(c.func)
        if f in self.writers:
            fvar, vp, lp, le, fn = self.writers[f]
            if len(c.args) != 2:
                self.problems.append((c, "writer called with %d arguments" % len(c.args)))
                return
            w = self.poly(c.args[1])
            self.emit(fvar, Ev(w, c.args[0], c), sink)
            return
        if f in self.helpers:
            h = self.helpers[f]
            params = [a.arg for a in h.args.args]
            sub = dict(zip(params, c.args))
            for p_, d_ in zip(params[len(params) - len(h.args.defaults):], h.args.defaults):
                sub.setdefault(p_, d_)
            for k_ in c.keywords:
                if k_.arg in params:
                    sub[k_.arg] = k_.value
            for b in h.body:
                self._helper_stmt(b, sink, sub)
            return
        if isinstance(c.func, ast.Attribute) and c.func.attr == "write":
            fvar = norm(c.func.value)
            a = c.args[0] if c.args else None
            le = self._inline_le(a)
            if le is None and a is not None:
                evs = self.data_events(a, c)
                if evs is not None:
                    for e_ in evs:
                        self.emit(fvar, e_, sink)
                    return
            if le is not None:
                # F.write(bytes([(V >> (i*8)) & 255 for i in range(N)])) written in place (an inlined writer helper)
                valnode, widthnode = le
                self.inline_writers.append((c, valnode, widthnode))
                self.emit(fvar, Ev(self.poly(widthnode), valnode, c), sink)
                return
            if isinstance(a, ast.Call) and norm(a.func) == "bytes" and a.args and isinstance(a.args[0], ast.Constant) \
                    and isinstance(a.args[0].value, str):
                self.emit(fvar, Ev(P.const(len(a.args[0].value)), a.args[0], c), sink)
            else:
                self.problems.append((c, "raw write not interpretable: %s" % norm(c)[:60]))
            return
        if isinstance(c.func, ast.Attribute) and c.func.attr == "close":
            fn = self.files.get(norm(c.func.value))
            if fn:
                self.closed.add(fn)
            return
        if f == "print":
            return
        mf = self.module.functions.get(f) if (self.module is not None and isinstance(c.func, ast.Name)) else None
        if mf is not None and isinstance(mf.node, ast.FunctionDef) and f not in self.active and not c.keywords \
                and len(c.args) == len(mf.node.args.args):
            # a module-level helper of the serializer (e.g. _write_witness()): interpreted in place
            self.active.append(f)
            self.scan_defs(mf.node)
            sub = dict(zip([a.arg for a in mf.node.args.args], c.args))
            for b in mf.node.body:
                if sub:
                    self._helper_stmt(b, sink, sub)
                else:
                    self.stmt(b, sink)
            self.active.pop()
            return
        self.problems.append((c, "call not interpretable: %s" % norm(c)[:60]))

    def _inline_le(self, a):
        """(value node, width node) of  bytes([(V >> (i*8)) & 255 for i in range(N)])  or None"""
        if not (isinstance(a, ast.Call) and norm(a.func) == "bytes" and a.args and isinstance(a.args[0], ast.ListComp)):
            return None
        comp = a.args[0]
        if len(comp.generators) != 1 or comp.generators[0].ifs:
            return None
        g = comp.generators[0]
        if not (isinstance(g.iter, ast.Call) and norm(g.iter.func) == "range" and len(g.iter.args) == 1 and isinstance(g.target, ast.Name)):
            return None
        i = g.target.id
        e = comp.elt
        # (V >> (i*8)) & 255   |   (V >> (i*8)) % 256
        if isinstance(e, ast.BinOp) and ((isinstance(e.op, ast.BitAnd) and norm(e.right) in ("255", "0xff")) or
                                         (isinstance(e.op, ast.Mod) and norm(e.right) == "256")):
            sh = e.left
            if isinstance(sh, ast.BinOp) and isinstance(sh.op, ast.RShift) and norm(sh.right).replace(" ", "") in (
                    "%s*8" % i, "8*%s" % i, "%s<<3" % i):
                if not any(isinstance(x, ast.Name) and x.id == i for x in ast.walk(sh.left)):
                    return sh.left, g.iter.args[0]
        return None

    def _writer_factory(self, target, call):
        """w = make_writer(fileobj): a module-level function that defines a little-endian writer over its parameter and
        returns it.  Registers `target` as a writer to that file."""
        if self.module is None or not isinstance(call.func, ast.Name) or call.keywords:
            return False
        mf = self.module.functions.get(call.func.id)
        if mf is None or not isinstance(mf.node, ast.FunctionDef):
            return False
        body = [b for b in mf.node.body if not (isinstance(b, ast.Expr) and isinstance(b.value, ast.Constant))]
        if len(body) != 2 or not isinstance(body[0], ast.FunctionDef) or not isinstance(body[1], ast.Return) \
                or norm(body[1].value) != body[0].name:
            return False
        w = self._as_writer(body[0])
        params = [a.arg for a in mf.node.args.args]
        if w is None or len(params) != len(call.args):
            return False
        fvar, vp, lp, le, fn = w
        if fvar in params:
            fvar = norm(call.args[params.index(fvar)])
        self.writers[target] = (fvar, vp, lp, le, fn)
        return True

    def _helper_stmt(self, s, sink, sub):
        """Inline a helper such as writefac(k, v): substitute actual argument nodes for parameters."""
        class Sub(ast.NodeTransformer):
            def visit_Name(self_, n):
                if n.id in sub:
                    return sub[n.id]
                return n
        import copy
        s2 = Sub().visit(clone(s))
        ast.fix_missing_locations(s2)
        self.stmt(s2, sink)


class _SubstNames(ast.NodeTransformer):
    def __init__(self, mapping):
        self.mapping = mapping

    def visit_Name(self, n):
        if isinstance(n.ctx, ast.Load) and n.id in self.mapping:
            import copy
            return clone(self.mapping[n.id])
        return n


def canon_var(text, var):
    return re.sub(r"\b%s\b" % re.escape(var), "#", text)


def sum_over(var, it, p):
    """Sum of polynomial p(var) for var ranging over iterable `it`."""
    cnt = P.sym(SYM.get("len(%s)" % it, "len(%s)" % it))
    return sum_over_loop(var, it, p, cnt)


def sum_over_loop(var, it, p, cnt):
    out = P()
    for mono, coef in p.t.items():
        dep = [s for s, _e in mono if re.search(r"\b%s\b" % re.escape(var.split(",")[0].strip("() ")), s)] if var else []
        if not dep:
            out = out + P({mono: coef}) * cnt
        else:
            name = "*".join(canon_var(s, var.split(",")[0].strip("() ")) + ("^%d" % e if e != 1 else "") for s, e in mono)
            out = out + P.sym("S{%s}[%s]" % (it, name)) * coef
    return out


# ------------------------------------------------------------------------------------------------- templates
def lit(ev):
    return int_literal(ev.value) if ev.value is not None and not isinstance(ev.value, ast.Constant) or (
        ev.value is not None and isinstance(ev.value, ast.Constant) and isinstance(ev.value.value, int)) else None


def _modulus_candidates(m, name, consts, depth=0):
    """the integers the module-level name can be bound to when the module has been imported: an integer literal, another such
    name, or `TABLE[key]` / `TABLE.get(key, default)`-free subscripts of a module-level dict whose values are such integers"""
    if name in consts:
        return {consts[name]}
    if depth > 4:
        return None
    binds = [n for n in m.tree.body if isinstance(n, ast.Assign) and len(n.targets) == 1 and isinstance(n.targets[0], ast.Name)
             and n.targets[0].id == name]
    # bound anywhere else (if-arms, functions with `global`)? then not a plain module constant
    others = [n for n in ast.walk(m.tree) if isinstance(n, (ast.Assign, ast.AugAssign, ast.AnnAssign)) and n not in binds and any(
        isinstance(x, ast.Name) and x.id == name and isinstance(x.ctx, ast.Store) for x in ast.walk(n))
        and not _local_to_function(m, n, name)]
    if len(binds) != 1 or others:
        return None
    v = binds[0].value
    if isinstance(v, ast.Name):
        return _modulus_candidates(m, v.id, consts, depth + 1)
    if isinstance(v, ast.Subscript) and isinstance(v.value, ast.Name):
        tb = [n for n in m.tree.body if isinstance(n, ast.Assign) and len(n.targets) == 1 and isinstance(n.targets[0], ast.Name)
              and n.targets[0].id == v.value.id]
        if len(tb) != 1 or not isinstance(tb[0].value, ast.Dict):
            return None
        # the table must not be written elsewhere
        for n in ast.walk(m.tree):
            if isinstance(n, ast.Subscript) and isinstance(n.ctx, (ast.Store, ast.Del)) and norm(n.value) == v.value.id:
                return None
            if isinstance(n, ast.Call) and isinstance(n.func, ast.Attribute) and norm(n.func.value) == v.value.id \
                    and n.func.attr in ("update", "pop", "setdefault", "clear", "popitem"):
                return None
        out = set()
        for e in tb[0].value.values:
            l = int_literal(e)
            if l is not None:
                out.add(l)
            elif isinstance(e, ast.Name):
                c = _modulus_candidates(m, e.id, consts, depth + 1)
                if not c:
                    return None
                out |= c
            else:
                return None
        return out
    return None


def _local_to_function(m, node, name):
    """the binding `node` of `name` sits in a function that does not declare the name global"""
    for f in ast.walk(m.tree):
        if isinstance(f, (ast.FunctionDef, ast.Lambda)) and any(x is node for x in ast.walk(f)):
            return not any(isinstance(g, ast.Global) and name in g.names for g in ast.walk(f))
    return False


def _stored_canonical(m, listname, modname):
    """every `listname.append(E)` of the module stores a canonical element: E, with locals resolved, is `X % modname`, or a call of a
    module-level helper all of whose returns are; and nothing else writes the list"""
    from ..flatten import resolve_locals
    apps = []
    for f in m.functions.values():
        if isinstance(f.node, ast.Lambda):
            continue
        for c in ast.walk(f.node):
            if isinstance(c, ast.Call) and norm(c.func) == "%s.append" % listname and len(c.args) == 1:
                apps.append((f, c))
            elif isinstance(c, ast.Call) and isinstance(c.func, ast.Attribute) and norm(c.func.value) == listname \
                    and c.func.attr in ("extend", "insert", "__setitem__", "__iadd__"):
                return False
            elif isinstance(c, (ast.Assign, ast.AugAssign)):
                tg = c.targets if isinstance(c, ast.Assign) else [c.target]
                if any(isinstance(t, ast.Subscript) and norm(t.value) == listname for t in tg) or any(
                        isinstance(c, ast.AugAssign) and norm(t) == listname for t in tg):
                    return False

    def reduced(e, depth=0):
        if isinstance(e, ast.BinOp) and isinstance(e.op, ast.Mod) and norm(e.right) == modname:
            return True
        if isinstance(e, ast.Call) and isinstance(e.func, ast.Name) and depth < 3:
            h = m.functions.get(e.func.id)
            if h is not None and isinstance(h.node, ast.FunctionDef):
                rets = [r for r in ast.walk(h.node) if isinstance(r, ast.Return)]
                return bool(rets) and all(r.value is not None and reduced(resolve_locals(h.node, r.value), depth + 1) for r in rets)
        return False
    def last_binding(f, c):
        """value of the closest preceding assignment to the appended name in the statement list of the append (a name re-bound
        step by step: val = index(val); val = val % p; xs.append(val))"""
        a0 = c.args[0]
        if not isinstance(a0, ast.Name):
            return a0
        st = c
        while getattr(st, "_parent", None) is not None and not isinstance(st, ast.stmt):
            st = st._parent
        holder = getattr(st, "_parent", None)
        for fld in ("body", "orelse", "finalbody"):
            lst = getattr(holder, fld, None)
            if isinstance(lst, list) and st in lst:
                for prev in reversed(lst[:lst.index(st)]):
                    if isinstance(prev, ast.Assign) and len(prev.targets) == 1 and norm(prev.targets[0]) == a0.id:
                        return prev.value
                    if any(isinstance(x, ast.Name) and x.id == a0.id and isinstance(x.ctx, ast.Store) for x in ast.walk(prev)):
                        return a0
        return a0
    return bool(apps) and all(reduced(resolve_locals(f.node, c.args[0])) or reduced(last_binding(f, c)) for f, c in apps)


def check(repo, rep, tier):
    rep.explanation = ("prove() of the snarkjs backend is interpreted symbolically (no execution): every writer call "
                       "contributes its width, every loop len(iterable) times its body; the resulting per-file event "
                       "streams are parsed against the iden3 .wtns/.r1cs layouts and every declared length/count is "
                       "compared, as a polynomial in P, W, K and sums over constraints, with what is written.")
    rep.trusted = ["iden3 binary format of .r1cs (v1) and .wtns (v2) as transcribed in rules/c10.py",
                   "Python semantics of >>, & on ints (two's complement extraction of negatives)"]
    rep.not_decided = ["acceptance by the snarkjs tool", "satisfaction of the decoded constraints (C01)"]
    m = repo.module(MOD)
    fi = repo.fn(MOD, "prove")
    # module constants
    consts = {}
    for n in m.tree.body:
        if isinstance(n, ast.Assign) and isinstance(n.targets[0], ast.Name):
            v = int_literal(n.value)
            if v is not None:
                consts[n.targets[0].id] = v
    gm = m.functions.get("get_modulus")
    modname = None
    if gm is not None:
        rets = [x for x in ast.walk(gm.node) if isinstance(x, ast.Return)]
        if rets and isinstance(rets[0].value, ast.Name):
            modname = rets[0].value.id
    cands = _modulus_candidates(m, modname, consts) if modname is not None else None
    if not cands:
        raise AnalysisError("snarkjs modulus constant not found")
    # the modulus may be chosen from a table of primes at import time: every statement below is shown for each of them
    p = min(cands)
    sizes = {(c.bit_length() + 7) // 8 for c in cands}
    if len(sizes) != 1:
        raise AnalysisError("the selectable moduli have different byte sizes %s: the fixed-width layout is not decided here" % sorted(sizes))
    fs = sizes.pop()
    it = Interp(fi, consts, m)
    it.run()
    if "witness.wtns" not in it.streams or "circuit.r1cs" not in it.streams:
        raise AnalysisError("prove() does not write witness.wtns and circuit.r1cs (files: %s)" % sorted(it.streams))
    r4 = rep.rule("R-C10-4", "format constants and little-endian writers", floor=10)
    r2 = rep.rule("R-C10-2", "declared lengths and counts equal what is written", floor=10)
    r1 = rep.rule("R-C10-1", "field-size writes carry canonical values", floor=5)
    r3 = rep.rule("R-C10-3", "wire numbering: allocator = circuit writer = witness writer", floor=4)
    r6 = rep.rule("R-C10-6", "records shared through tables are keyed by the value itself, never by hash(value)", floor=1)
    from .hashkeys import rule_no_hash_keys
    rule_no_hash_keys(repo, r6, (MOD,))
    r5 = rep.rule("R-C10-5", "the linear combinations written are the traced ones: backend algebra (shared with C13) and immutability", floor=4)
    from .c13 import algebra as _alg, immutability as _imm
    _alg(repo, r5, only=(MOD,))
    for node, why in it.problems:
        r2.undecided(fi.loc(node), fi.fq, norm(node)[:100], why)
    for node, why, key in it.violations:
        r2.violation(fi.loc(node), fi.fq, norm(node)[:100], why, key)
    for name, (fvar, vp, lp, le, fn) in sorted(it.writers.items()):
        if le:
            r4.ok(fi.loc(fn), fi.fq + "." + name, norm(fn.body[0])[:120], "byte i = (val >> 8i) & 255, i ascending: little-endian")
        else:
            r4.violation(fi.loc(fn), fi.fq + "." + name, norm(fn.body[0])[:160],
                         "fixed-width writer is not little-endian byte extraction over range(len)", "writer/%s" % name)
    if it.inline_writers:
        r4.ok(fi.loc(it.inline_writers[0][0]), fi.fq, "%d little-endian writes in place: %s" % (
            len(it.inline_writers), norm(it.inline_writers[0][0])[:100]), "byte i = (val >> 8i) & 255, i ascending: little-endian")
    if len(it.writers) + (1 if it.inline_writers else 0) < 2 and not (it.inline_writers and {"witness.wtns", "circuit.r1cs"} <= set(it.streams)):
        raise AnalysisError("fixed-width writer helpers not recognised in prove()")
    for fname in ("witness.wtns", "circuit.r1cs"):
        if fname not in it.closed:
            r2.violation(fi.loc(), fi.fq, fname, "%s is never closed (content may not reach the disk)" % fname, "close/" + fname)

    Pp, Ww, Kk = P.sym("P"), P.sym("W"), P.sym("K")
    NW = Pp + Ww + 1

    def pv(ev):
        return it.poly(ev.value) if ev.value is not None else None

    def same_modulus(node):
        """node denotes the declared modulus: its name, or a constant name when that is the only selectable value"""
        t_ = norm(node)
        if t_ == modname:
            return True
        c_ = _modulus_candidates(m, t_, consts) if isinstance(node, ast.Name) else None
        return bool(c_) and len(cands) == 1 and c_ == cands

    def canonical32(ev, what):
        """R-C10-1 for one field-size write."""
        v = ev.value
        while isinstance(v, ast.Call) and norm(v.func) == "int" and len(v.args) == 1 and not v.keywords:
            v = v.args[0]          # int(E) of an integer expression is E
        where = fi.loc(ev.node)
        t = norm(v)
        l = int_literal(v)
        ok = False
        why = ""
        if l is not None:
            ok = 0 <= l < p
            why = "literal %d" % l
        elif t == modname:
            ok = True
            why = "the modulus itself (header field)"
        elif isinstance(v, ast.BinOp) and isinstance(v.op, ast.Mod) and same_modulus(v.right):
            ok = True
            why = "reduced: %s" % t
        elif isinstance(v, ast.BinOp) and isinstance(v.op, ast.Mod) and _modulus_candidates(m, norm(v.right), consts):
            r1.violation(where, fi.fq, "%s: writes `%s` in %d bytes" % (what, t, fs),
                         "%s is reduced by `%s`, but the field the files declare (and get_modulus() reports) is `%s`, which can be "
                         "another prime (%d selectable): the element is not canonical for the declared field"
                         % (what, norm(v.right), modname, len(cands)), "canon/%s" % what.replace(" ", "-"))
            return
        if ok:
            r1.ok(where, fi.fq, "%s: %s" % (what, t), why)
        else:
            r1.violation(where, fi.fq, "%s: writes `%s` in %d bytes" % (what, t, fs),
                         "%s is written unreduced: negative values become 2^%d-|v|, values >= p are non-canonical, "
                         "wider values are truncated" % (what, 8 * fs), "canon/%s" % what.replace(" ", "-"))

    def expect(ev, width, value_poly, what, rule=r2, literal=None):
        where = fi.loc(ev.node) if ev is not None else fi.loc()
        if ev is None:
            rule.violation(where, fi.fq, what, "field `%s` missing from the stream" % what, "missing/" + what.replace(" ", "-"))
            return False
        got_w = ev.width
        okw = got_w == P.const(width)
        gv = pv(ev) if ev.loop is None else None
        if literal is not None:
            okv = isinstance(ev.value, ast.Constant) and ev.value.value == literal
            gtxt = norm(ev.value)
        else:
            okv = gv is not None and gv == value_poly
            gtxt = str(gv)
        term = "%s: %d bytes, value %s (expected %s)" % (what, width, gtxt, literal if literal is not None else value_poly)
        if okw and okv:
            rule.ok(where, fi.fq, term)
            return True
        rule.violation(where, fi.fq, term + ("" if okw else " width written: %s" % got_w),
                       "%s is %s" % (what, "written with the wrong width" if not okw else "wrong"),
                       "field/" + what.replace(" ", "-"))
        return False

    def parse_sections(stream, label, nsec_expected):
        """[(id_ev, len_ev, [payload evs])]"""
        out = []
        i = 0
        n = len(stream)
        while i < n:
            if i + 1 >= n:
                r2.violation(fi.loc(stream[i].node), fi.fq, "%s: trailing event" % label,
                             "bytes after the last section", "trailing/" + label)
                break
            idev, lenev = stream[i], stream[i + 1]
            declared = pv(lenev)
            j = i + 2
            acc = P()
            found = None
            if declared is not None and declared == P():
                found = j
            while j < n and found is None:
                acc = acc + stream[j].width
                j += 1
                if declared is not None and acc == declared:
                    found = j
            if found is None:
                # fall back on the section-header pattern to delimit the payload
                j = i + 2
                acc = P()
                while j < n:
                    e = stream[j]
                    nxt = stream[j + 1] if j + 1 < n else None
                    if e.loop is None and e.width == P.const(4) and int_literal(e.value) == len(out) + 2 \
                            and nxt is not None and nxt.width == P.const(8):
                        break
                    acc = acc + e.width
                    j += 1
                r2.violation(fi.loc(lenev.node), fi.fq,
                             "%s section %d: declared length %s, bytes written %s" % (label, len(out) + 1, declared, acc),
                             "declared section length differs from the bytes actually written",
                             "seclen/%s/%d" % (label, len(out) + 1))
                found = j
            else:
                r2.ok(fi.loc(lenev.node), fi.fq, "%s section %d: declared length %s == bytes written" % (
                    label, len(out) + 1, declared))
            out.append((idev, lenev, stream[i + 2:found]))
            i = found
        return out

    # ------------------------------------------------------------------ witness.wtns
    ws = it.streams["witness.wtns"]
    if len(ws) < 5:
        raise AnalysisError("witness stream too short")
    magic = ws[0]
    if isinstance(magic.value, ast.Constant) and magic.value.value == "wtns":
        r4.ok(fi.loc(magic.node), fi.fq, "magic 'wtns'")
    else:
        r4.violation(fi.loc(magic.node), fi.fq, norm(magic.value), "wrong magic for .wtns", "magic/wtns")
    expect(ws[1], 4, None, "wtns version", r4, literal=2)
    nsec = int_literal(ws[2].value)
    secs = parse_sections(ws[3:], "wtns", nsec)
    if ws[2].width == P.const(4) and nsec == len(secs) == 2:
        r4.ok(fi.loc(ws[2].node), fi.fq, "wtns: %d sections declared, %d written" % (nsec, len(secs)))
    else:
        r4.violation(fi.loc(ws[2].node), fi.fq, "declared %s, written %d, format needs 2" % (nsec, len(secs)),
                     "section count of .wtns is wrong", "nsec/wtns")
    for k, (idev, lenev, payload) in enumerate(secs):
        expect(idev, 4, None, "wtns section id %d" % (k + 1), r4, literal=k + 1)
        if lenev.width != P.const(8):
            r4.violation(fi.loc(lenev.node), fi.fq, "width %s" % lenev.width, "section length field must be 8 bytes",
                         "lenwidth/wtns/%d" % (k + 1))
    witness_slots = []
    if len(secs) == 2:
        h = secs[0][2]
        if len(h) == 3:
            expect(h[0], 4, P.const(fs), "wtns field size")
            expect(h[1], fs, P.sym(modname), "wtns prime")
            canonical32(h[1], "wtns prime")
            expect(h[2], 4, NW, "wtns number of witness values")
        else:
            r2.violation(fi.loc(secs[0][0].node), fi.fq, "%d header fields" % len(h), "wtns header must be field size, prime, "
                         "count", "hdr/wtns")
        body = secs[1][2]
        total = P()
        for e in body:
            if e.loop is None:
                if e.width != P.const(fs):
                    r2.violation(fi.loc(e.node), fi.fq, "width %s" % e.width, "witness value not written in %d bytes" % fs, "wval/width")
                lv_ = it.poly(e.value)
                lit_txt = str(int(lv_.const_value())) if lv_ is not None and lv_.is_const() and lv_.const_value().denominator == 1 else norm(e.value)
                if isinstance(e.value, ast.BinOp) and isinstance(e.value.op, ast.Mod) and norm(e.value.right) == modname:
                    lv2_ = it.poly(e.value.left)          # a literal written through the reducing encoder: c % p
                    if lv2_ is not None and lv2_.is_const() and 0 <= lv2_.const_value() < p:
                        lit_txt = str(int(lv2_.const_value()))
                canonical32(e, "constant-one witness" if lit_txt == "1" else "witness value")
                witness_slots.append(("lit", lit_txt, P.const(1)))
                total = total + 1
            else:
                inner = e.body
                if len(inner) != 1 or inner[0].width != P.const(fs):
                    r2.violation(fi.loc(e.node), fi.fq, norm(e.node)[:80], "witness loop does not write one %d-byte value per "
                                 "element" % fs, "wloop/%s" % e.loop)
                else:
                    what = {"pubvals": "public witness values", "privvals": "private witness values"}.get(e.loop, "witness values of " + e.loop)
                    # the value written must be the loop variable (possibly reduced)
                    if isinstance(inner[0].value, ast.Name) and norm(inner[0].value) == norm(e.node.target) and _stored_canonical(m, e.loop, modname):
                        # the list holds canonical elements already: every append to it (who-may-append) stores `E % p`
                        r1.ok(fi.loc(e.node), fi.fq, "%s: elements of `%s`" % (what, e.loop), "reduced where they are stored: every "
                              "append to the list stores a value taken modulo the prime")
                    else:
                        canonical32(inner[0], what)
                    witness_slots.append(("loop", e.loop, e.count))
                    base = inner[0].value.left if isinstance(inner[0].value, ast.BinOp) and isinstance(inner[0].value.op, ast.Mod) else inner[0].value
                    if norm(base) != norm(e.node.target):
                        r2.violation(fi.loc(e.node), fi.fq, norm(inner[0].value), "witness loop does not write its element",
                                     "wloop/value/%s" % e.loop)
                total = total + e.count
        if total == NW:
            r2.ok(fi.loc(secs[1][0].node), fi.fq, "wtns: %s values written == declared count P+W+1" % total)
        else:
            r2.violation(fi.loc(secs[1][0].node), fi.fq, "values written %s, declared %s" % (total, NW),
                         "number of witness values written differs from the declared count", "wcount")

    # ------------------------------------------------------------------ circuit.r1cs
    cs = it.streams["circuit.r1cs"]
    if len(cs) < 5 and it.violations:
        return          # the layout depends on the data (reported above): nothing fixed to parse
    if len(cs) < 5:
        raise AnalysisError("circuit stream too short")
    if isinstance(cs[0].value, ast.Constant) and cs[0].value.value == "r1cs":
        r4.ok(fi.loc(cs[0].node), fi.fq, "magic 'r1cs'")
    else:
        r4.violation(fi.loc(cs[0].node), fi.fq, norm(cs[0].value), "wrong magic for .r1cs", "magic/r1cs")
    expect(cs[1], 4, None, "r1cs version", r4, literal=1)
    nsec = int_literal(cs[2].value)
    csecs = parse_sections(cs[3:], "r1cs", nsec)
    if cs[2].width == P.const(4) and nsec == len(csecs) == 3:
        r4.ok(fi.loc(cs[2].node), fi.fq, "r1cs: %d sections declared, %d written" % (nsec, len(csecs)))
    else:
        r4.violation(fi.loc(cs[2].node), fi.fq, "declared %s, written %d, format needs 3" % (nsec, len(csecs)),
                     "section count of .r1cs is wrong", "nsec/r1cs")
    for k, (idev, lenev, payload) in enumerate(csecs):
        expect(idev, 4, None, "r1cs section id %d" % (k + 1), r4, literal=k + 1)
        if lenev.width != P.const(8):
            r4.violation(fi.loc(lenev.node), fi.fq, "width %s" % lenev.width, "section length field must be 8 bytes",
                         "lenwidth/r1cs/%d" % (k + 1))
    index_map = None
    if len(csecs) == 3:
        h = csecs[0][2]
        names = [("r1cs field size", 4, P.const(fs)), ("r1cs prime", fs, P.sym(modname)), ("r1cs nWires", 4, NW),
                 ("r1cs nPubOut", 4, Pp), ("r1cs nPubIn", 4, P()), ("r1cs nPrvIn", 4, None), ("r1cs nLabels", 8, None),
                 ("r1cs nConstraints", 4, Kk)]
        if len(h) != len(names):
            r2.violation(fi.loc(csecs[0][0].node), fi.fq, "%d header fields" % len(h), "r1cs header must have 8 fields", "hdr/r1cs")
        else:
            for e, (nm, w, val) in zip(h, names):
                if val is None:
                    if e.width == P.const(w):
                        r2.ok(fi.loc(e.node), fi.fq, "%s: %d bytes (value %s not constrained by this rule)" % (nm, w, norm(e.value)))
                    else:
                        r2.violation(fi.loc(e.node), fi.fq, "%s width %s" % (nm, e.width), "%s has the wrong width" % nm,
                                     "field/" + nm.replace(" ", "-"))
                else:
                    expect(e, w, val, nm)
            canonical32(h[1], "r1cs prime")
        # constraints section
        body = csecs[1][2]
        if len(body) == 1 and body[0].loop == "constraints":
            cev = body[0]
            cvar = norm(cev.node.target)
            inner = cev.body
            ok_shape = len(inner) == 6
            lcs = []
            for idx in range(0, len(inner) - 1, 2):
                cnt, lp = inner[idx], inner[idx + 1]
                if lp.loop is None or cnt.loop is not None:
                    ok_shape = False
                    break
                want_iter = "%s[%d].lc" % (cvar, idx // 2)
                cpoly = pv(cnt)
                lpit = lp.loop[:-8] if lp.loop.endswith(".items()") else lp.loop
                good = cnt.width == P.const(4) and lpit == want_iter and cpoly == lp.count
                term = "constraint part %s: count field %s, loop over %s" % ("ABC"[idx // 2], norm(cnt.value), lp.loop)
                if good:
                    r2.ok(fi.loc(cnt.node), fi.fq, term)
                else:
                    r2.violation(fi.loc(cnt.node), fi.fq, term, "term count written differs from the terms written, or "
                                 "the A/B/C order is wrong", "lc/%d" % (idx // 2))
                fac = lp.body
                if len(fac) == 2 and fac[0].width == P.const(4) and fac[1].width == P.const(fs):
                    canonical32(fac[1], "coefficient")
                    lcs.append((lp, fac))
                else:
                    r2.violation(fi.loc(lp.node), fi.fq, norm(lp.node)[:100], "a term is not (4-byte wire id, %d-byte "
                                 "coefficient)" % fs, "term/%d" % (idx // 2))
            if not ok_shape:
                r2.violation(fi.loc(cev.node), fi.fq, "%d events per constraint" % len(inner), "constraint record is not "
                             "three (count, terms) pairs", "cshape")
            if lcs:
                def canon_im(lp_, node_):
                    """the wire-index expression with the loop's own key variable called `k` (per-part copies of one loop
                    have per-part variable names)"""
                    tg_ = getattr(lp_.node, "target", None)
                    kv_ = tg_.elts[0].id if isinstance(tg_, ast.Tuple) and tg_.elts and isinstance(tg_.elts[0], ast.Name) else (
                        tg_.id if isinstance(tg_, ast.Name) else None)
                    return _SubstNames({kv_: ast.Name(id="k", ctx=ast.Load())}).visit(clone(node_)) if kv_ else node_
                index_map = canon_im(lcs[0][0], lcs[0][1][0].value)
                if any(norm(canon_im(_lp, f[0].value)) != norm(index_map) for _lp, f in lcs):
                    r3.violation(fi.loc(cev.node), fi.fq, "index maps differ between A, B, C", "wire index computed "
                                 "differently in the three parts", "indexmap/abc")
        else:
            r2.violation(fi.loc(csecs[1][0].node), fi.fq, "section 2 events: %d" % len(body), "constraint section is not "
                         "one loop over the constraint list", "csec")
        # wire2label section
        body = csecs[2][2]
        tot = P()
        for e in body:
            tot = tot + (e.count if e.loop is not None else P.const(1))
            w = e.body[0].width if e.loop is not None and len(e.body) == 1 else e.width
            if w != P.const(8):
                r2.violation(fi.loc(e.node), fi.fq, "label width %s" % w, "wire-to-label entries must be 8 bytes", "label/width")
        if tot == NW:
            r2.ok(fi.loc(csecs[2][0].node), fi.fq, "r1cs: %s label entries == nWires" % tot)
        else:
            r2.violation(fi.loc(csecs[2][0].node), fi.fq, "entries %s, nWires %s" % (tot, NW), "wire-to-label map does not "
                         "have one entry per wire", "label/count")

    # ------------------------------------------------------------------ R-C10-3 numbering
    def alloc_key(fn_name, listname):
        """key polynomial (in k = 1-based creation index) of the LC returned by the allocator; locals are evaluated
        in statement order, `len(list)` meaning k after the append and k-1 before it"""
        f = m.functions.get(fn_name)
        if f is None:
            raise AnalysisError("%s not found" % fn_name)
        k_ = P.sym("k")
        appended = False
        env = {}
        stored = None
        result = None
        for st in f.node.body:
            lenv = dict(env)
            lenv["len(%s)" % listname] = k_ if appended else k_ - 1
            if isinstance(st, ast.Expr) and isinstance(st.value, ast.Call) and norm(st.value.func) == "%s.append" % listname:
                appended = True
                stored = norm(st.value.args[0]) if st.value.args else None
                continue
            val = None
            if isinstance(st, ast.Assign) and len(st.targets) == 1 and isinstance(st.targets[0], ast.Name):
                val = st.value
                name = st.targets[0].id
            elif isinstance(st, ast.Return):
                val = st.value
                name = None
            if val is None:
                continue
            if isinstance(val, ast.Name) and val.id in env and name is None:
                result = env[val.id]
                continue
            if isinstance(val, ast.Call) and val.args and isinstance(val.args[0], ast.Dict) and len(val.args[0].keys) == 1:
                key = poly_of(val.args[0].keys[0], lenv, strict=True)
                coef = int_literal(val.args[0].values[0])
                if name is None:
                    result = (key, coef)
                else:
                    env[name] = (key, coef)
                continue
            pv = poly_of(val, lenv, strict=True)
            if pv is not None and name is not None:
                env[name] = pv
        if isinstance(result, tuple) and result[0] is not None:
            return result, f, stored
        return None, f, stored
    k = P.sym("k")
    pub, fpub, spub = alloc_key("pubval", "pubvals")
    prv, fprv, sprv = alloc_key("privval", "privvals")
    for (res, f, stored, nm) in ((pub, fpub, spub, "public"), (prv, fprv, sprv, "private")):
        if stored != f.params[0]:
            r3.violation(f.loc(), f.fq, "stores `%s`" % stored, "the %s value recorded is not the value given" % nm, "store/" + nm)
    if pub is None or prv is None or index_map is None:
        r3.undecided(fi.loc(), fi.fq, "allocator/index map", "shape not interpretable")
    else:
        # index map  f(key)
        def fmap(key, negative):
            im = index_map
            if isinstance(im, ast.IfExp):
                t = norm(im.test)
                var = None
                mm = re.match(r"^(\w+) >= 0$", t)
                if mm:
                    var, pos_arm, neg_arm = mm.group(1), im.body, im.orelse
                mm = re.match(r"^(\w+) < 0$", t)
                if mm:
                    var, pos_arm, neg_arm = mm.group(1), im.orelse, im.body
                if var is None:
                    return None
                arm = neg_arm if negative else pos_arm
                env_ = dict(it.env)            # locals of prove() (npub = len(pubvals)) as polynomials in P, W
                env_.update({var: key, "len(pubvals)": Pp, "len(privvals)": Ww})
                return poly_of(arm, env_, strict=True)
            return None
        slot_pub = fmap(pub[0], False)
        slot_prv = fmap(prv[0], True)
        slot_one = fmap(P(), False)
        # witness order
        order = [(kind, name) for kind, name, _c in witness_slots]
        want_order = [("lit", "1"), ("loop", "pubvals"), ("loop", "privvals")]
        if order == want_order:
            r3.ok(fi.loc(), fi.fq, "witness order: constant one, public values in creation order, private values in creation order")
            w_pub, w_prv = k, Pp + k
        else:
            r3.violation(fi.loc(), fi.fq, str(order), "witness section is not [1, public values, private values]", "worder")
            w_pub = w_prv = None
        for nm, key, coef, slot, wslot in (("public", pub[0], pub[1], slot_pub, w_pub), ("private", prv[0], prv[1], slot_prv, w_prv)):
            term = "k-th %s value: key %s (coefficient %s) -> circuit wire %s, witness slot %s" % (nm, key, coef, slot, wslot)
            if slot is not None and wslot is not None and slot == wslot and coef == 1:
                r3.ok(fi.loc(), fi.fq, term)
            else:
                r3.violation(fi.loc(), fi.fq, term, "the wire index written for a %s variable is not the slot its value is "
                             "written to" % nm, "numbering/" + nm)
        if slot_one == P():
            r3.ok(fi.loc(), fi.fq, "key 0 -> wire 0 (constant one)")
        else:
            r3.violation(fi.loc(), fi.fq, "key 0 -> %s" % slot_one, "constant-one wire is not wire 0", "numbering/one")
        one = m.functions.get("one")
        if one is not None:
            rr = [x for x in ast.walk(one.node) if isinstance(x, ast.Return)]
            if rr and norm(rr[0].value).replace(" ", "") in ("LinearCombination({0:1})",):
                r3.ok(one.loc(), one.fq, norm(rr[0].value))
            else:
                r3.violation(one.loc(), one.fq, norm(rr[0].value) if rr else "", "one() is not 1 * wire 0", "one")
