"""C11 - zkinterface files encode the traced circuit; the verifier file has no witness.

R-C11-1  canonical encoding of every byte vector (value reduced mod the modulus / modulus-1, exactly BL
         bytes, reversed element and byte loops = little-endian for a back-to-front builder)
R-C11-2  variable ids: instance ids 1..P, witness ids P+1..P+W, free_variable_id = P+W+1, constraint
         writer's map agrees with the allocator
R-C11-3  message selection: circuit.zkif receives no witness message and depends on the private values
         only through their number; computation.zkif receives all three messages
R-C11-4  field switch: modulus/BL read at call time, no outside consumer reads backend.modulus directly
R-C11-5  schema agreement: stub functions exist; Message enum value matches the table put into the Root;
         messages are size-prefixed
"""
import ast
import re

from ..loader import norm, AnalysisError, parents
from ..poly import P, poly_of, local_env
from .c06 import get_interp

ZB = "pysnark.zkinterface.backend"


def _values_stored_canonical(m, fi):
    """the list a value-vector writer walks holds canonical elements: every call passes a module-level list all of whose appends
    store `E % modulus`, and the modulus cannot change once such a list is non-empty (every re-binding of `modulus` in a function
    is preceded by a refusal when the lists hold something)"""
    from .c10 import _stored_canonical
    if len(fi.params) < 2:
        return False
    lists = set()
    for g in m.functions.values():
        for c in ast.walk(g.node):
            if isinstance(c, ast.Call) and norm(c.func) == fi.name and len(c.args) >= 2:
                if not isinstance(c.args[1], ast.Name):
                    return False
                lists.add(c.args[1].id)
    if not lists or not all(_stored_canonical(m, l_, "modulus") for l_ in lists):
        return False
    for g in m.functions.values():
        if isinstance(g.node, ast.Lambda):
            continue
        for a in ast.walk(g.node):
            if isinstance(a, ast.Assign) and any(norm(t) == "modulus" for t in a.targets) and any(
                    isinstance(x, ast.Global) and "modulus" in x.names for x in ast.walk(g.node)):
                guards = [s for s in g.node.body if isinstance(s, ast.If) and s.body and isinstance(s.body[-1], ast.Raise) and not s.orelse
                          and all(l_ in {n.id for n in ast.walk(s.test) if isinstance(n, ast.Name)} for l_ in lists)
                          and isinstance(s.test, (ast.BoolOp, ast.Name)) and (not isinstance(s.test, ast.BoolOp) or isinstance(s.test.op, ast.Or))]
                if not guards or g.node.body.index(guards[0]) > next((i for i, s in enumerate(g.node.body) if any(a is x for x in ast.walk(s))), 10 ** 6):
                    return False
    return True


_MSG_WRITER = {"CircuitHeader": "write_circuit", "Witness": "write_witness", "ConstraintSystem": "write_constraints"}


def _message_of(pr, m, e, depth=0):
    """writer name (write_circuit / write_witness / write_constraints) of the message whose bytes the expression holds:
         bytes(B.Output()) / B.Output()   with   Root.RootAddMessageType(B, Message.Message.T)   in the same function
         a local bound once to such an expression, or to a call of a module function that returns one"""
    if depth > 4:
        return None
    if isinstance(e, ast.Name):
        defs = [a for a in ast.walk(pr.node) if isinstance(a, ast.Assign) and len(a.targets) == 1 and norm(a.targets[0]) == e.id]
        if len(defs) != 1:
            return None
        return _message_of(pr, m, defs[0].value, depth + 1)
    if isinstance(e, ast.Call) and norm(e.func) in ("bytes", "bytearray") and len(e.args) == 1:
        return _message_of(pr, m, e.args[0], depth + 1)
    if isinstance(e, ast.Call) and isinstance(e.func, ast.Attribute) and e.func.attr == "Output" and isinstance(e.func.value, ast.Name):
        b = e.func.value.id
        for scope in [pr] + [f for f in m.functions.values() if f is not pr]:
            if not any(x is e for x in ast.walk(scope.node)):
                continue
            ts = [c for c in ast.walk(scope.node) if isinstance(c, ast.Call) and norm(c.func).endswith("RootAddMessageType") and len(c.args) == 2
                  and norm(c.args[0]) == b]
            if len(ts) == 1:
                return _MSG_WRITER.get(norm(ts[0].args[1]).split(".")[-1])
        return None
    if isinstance(e, ast.Call) and isinstance(e.func, ast.Name) and not e.args and e.func.id in m.functions:
        h = m.functions[e.func.id]
        rets = [r for r in ast.walk(h.node) if isinstance(r, ast.Return) and r.value is not None
                and next((p_ for p_ in parents(r) if isinstance(p_, (ast.FunctionDef, ast.Lambda))), None) is h.node]
        kinds = {_message_of(h, m, r.value, depth + 1) for r in rets}
        return kinds.pop() if len(kinds) == 1 else None
    return None


def enclosing_fors(node):
    return [p for p in parents(node) if isinstance(p, ast.For)]


def rule_bytes(repo, rule):
    m = repo.module(ZB)
    n_inst = 0
    for fi in m.functions.values():
        if isinstance(fi.node, ast.Lambda):
            continue
        for c in ast.walk(fi.node):
            if not (isinstance(c, ast.Call) and norm(c.func).endswith(".PrependByte") and c.args):
                continue
            owner = [p for p in parents(c) if isinstance(p, (ast.FunctionDef, ast.Lambda))]
            if owner and owner[0] is not fi.node:
                continue
            from ..known_names import KNOWN
            if fi.name not in KNOWN and fi.parent is None:
                # a helper unknown to the rule tables: its body has been inlined at its call sites (sa/flatten.py);
                # it is judged there, unless some call site could not be inlined
                remaining = [x for g in m.functions.values() if g is not fi for x in ast.walk(g.node)
                             if isinstance(x, ast.Call) and norm(x.func).split(".")[-1] == fi.name]
                if not remaining:
                    continue
            n_inst += 1
            where = fi.loc(c)
            e = c.args[0]
            fors = enclosing_fors(c)
            problems = []
            # (V >> (j*8)) & 255, with V and the loops resolved to the sequences they stand for (sa/seqs.py): the loop
            # variables are replaced by the element of the base collection, however the iteration is written
            from ..seqs import resolve_at
            from ..flatten import resolve_locals as _rl11
            er, loops = resolve_at(fi.node, c, e)
            er = _rl11(fi.node, er)
            ok_shape = isinstance(er, ast.BinOp) and ((isinstance(er.op, ast.BitAnd) and norm(er.right) in ("255", "0xff"))
                                                      or (isinstance(er.op, ast.Mod) and norm(er.right) == "256")) \
                and isinstance(er.left, ast.BinOp) and isinstance(er.left.op, ast.RShift)
            j = None
            if ok_shape:
                mt = re.match(r"^(\w+) \* 8$|^8 \* (\w+)$|^(\w+) << 3$", norm(er.left.right))
                j = next((g for g in mt.groups() if g), None) if mt else None
            if not ok_shape or j is None:
                rule.violation(where, fi.fq, norm(e), "byte is not extracted as (v >> 8*j) & 255", "%s/extract" % fi.qual)
                continue
            V = er.left.left
            vtxt = norm(e.left.left) if isinstance(e, ast.BinOp) and isinstance(e.left, ast.BinOp) else norm(V)
            jloop = [f for f in fors if norm(f.target) == j]
            if not jloop or norm(jloop[0].iter) not in ("reversed(range(BL))", "range(BL - 1, -1, -1)"):
                problems.append("byte loop is `%s`, expected reversed(range(BL)) (back-to-front builder => little-endian, "
                                "exactly BL bytes)" % (norm(jloop[0].iter) if jloop else "?"))
            # value provenance
            vdef = norm(V)
            if not (vdef == "modulus - 1" or (isinstance(V, ast.BinOp) and isinstance(V.op, ast.Mod) and norm(V.right) == "modulus")):
                if not (vdef in ("__e0", "vals[__i0]") and _values_stored_canonical(m, fi)):
                    problems.append("value `%s` is not reduced modulo the field prime" % vdef)
            outer = [(f, s_) for f, s_ in loops if f not in jloop]
            if outer:
                f0, s0 = outer[0]
                if s0 is None or not s0.rev:
                    problems.append("element loop `%s` is not reversed(...) (back-to-front builder)" % norm(f0.iter))
            term = "PrependByte(%s) with %s = %s, loops %s" % (norm(e), vtxt, vdef, [norm(f.iter) for f in fors])
            if problems:
                rule.violation(where, fi.fq, term, "; ".join(problems), "%s/bytes/%s" % (fi.qual, vtxt))
            else:
                rule.ok(where, fi.fq, term)
    # vector sizes
    for fi in m.functions.values():
        for c in ast.walk(fi.node):
            if isinstance(c, ast.Call) and re.search(r"Start(Values|FieldMaximum)Vector$", norm(c.func)) and len(c.args) == 2:
                sz = norm(c.args[1])
                if sz == "BL" or re.match(r"^BL \* len\(\w+\)$", sz) or re.match(r"^len\(\w+\) \* BL$", sz):
                    rule.ok(fi.loc(c), fi.fq, "%s(builder, %s)" % (norm(c.func).split(".")[-1], sz))
                else:
                    rule.violation(fi.loc(c), fi.fq, norm(c), "byte vector is not sized BL per element", "%s/size" % fi.qual)
    return n_inst


def alloc_key(m, fn_name, listname):
    """Key under which the k-th allocated value (1-based) is referenced: the allocator body is evaluated statement by
    statement (len(list) is k-1 before the append and k after it; locals are substituted in order)."""
    f = m.functions.get(fn_name)
    if f is None:
        raise AnalysisError("%s not found in %s" % (fn_name, m.name))
    k = P.sym("k")
    env = {}
    appended = False
    for s_ in f.node.body:
        lenv = dict(env)
        lenv["len(%s)" % listname] = k if appended else k - 1
        if isinstance(s_, ast.Expr) and isinstance(s_.value, ast.Call) and norm(s_.value.func) == "%s.append" % listname:
            appended = True
        elif isinstance(s_, ast.Assign) and len(s_.targets) == 1 and isinstance(s_.targets[0], ast.Name):
            v = poly_of(s_.value, lenv, strict=True)
            if v is not None:
                env[s_.targets[0].id] = v
            elif isinstance(s_.value, ast.Call) and s_.value.args and isinstance(s_.value.args[0], ast.Dict) and len(s_.value.args[0].keys) == 1:
                kp = poly_of(s_.value.args[0].keys[0], lenv, strict=True)
                if kp is not None:
                    env["<key:%s>" % s_.targets[0].id] = kp
        elif isinstance(s_, ast.Return) and s_.value is not None:
            r = s_.value
            if isinstance(r, ast.Name) and "<key:%s>" % r.id in env:
                return env["<key:%s>" % r.id] if appended else None
            if isinstance(r, ast.Call) and r.args and isinstance(r.args[0], ast.Dict) and len(r.args[0].keys) == 1 and appended:
                return poly_of(r.args[0].keys[0], lenv, strict=True)
            return None
    return None


def index_map(expr, key, negative):
    """Apply `x if x >= 0 else len(pubvals) - x` to an abstract key."""
    if not isinstance(expr, ast.IfExp):
        return None
    t = expr.test
    if not (isinstance(t, ast.Compare) and len(t.ops) == 1 and norm(t.comparators[0]) == "0"):
        return None
    var = norm(t.left)
    if isinstance(t.ops[0], ast.Gt) and norm(expr.body) == var:
        # `x if x > 0 else P - x`: key 0 takes the other branch
        zero = poly_of(expr.orelse, {var: P(), "len(pubvals)": P.sym("P"), "len(privvals)": P.sym("W")}, strict=True)
        if key == P():
            return zero
        pos, neg = expr.body, expr.orelse
    elif isinstance(t.ops[0], ast.GtE):
        pos, neg = expr.body, expr.orelse
    elif isinstance(t.ops[0], ast.Lt):
        pos, neg = expr.orelse, expr.body
    else:
        return None
    return poly_of(neg if negative else pos, {var: key, "len(pubvals)": P.sym("P"), "len(privvals)": P.sym("W")}, strict=True)


def rule_ids(repo, rule):
    m = repo.module(ZB)
    Pp, Ww, k = P.sym("P"), P.sym("W"), P.sym("k")
    env = {"len(pubvals)": Pp, "len(privvals)": Ww}
    wv = repo.fn(ZB, "write_varlist")
    offp = wv.params[2] if len(wv.params) >= 3 else None
    ids = [c for c in ast.walk(wv.node) if isinstance(c, ast.Call) and norm(c.func).endswith(".PrependUint64")]
    idpoly = None
    if ids and offp:
        from ..seqs import resolve_at
        # the index of the element loop (however it is written) ranges over 0..len-1  => the k-th element (1-based) has index k-1
        idr, idloops = resolve_at(wv.node, ids[0], ids[0].args[0])
        idpoly = poly_of(idr, {"__i0": k - 1, offp: P.sym("off")}, strict=True) if idloops else None
        vloops = [resolve_at(wv.node, c_, c_.args[0])[1] for c_ in ast.walk(wv.node)
                  if isinstance(c_, ast.Call) and norm(c_.func).endswith(".PrependByte") and c_.args]
        if idloops and vloops and vloops[0] and idloops[0][1] is not None and vloops[0][0][1] is not None:
            a_, b_ = idloops[0][1], vloops[0][0][1]
            if a_.same_walk(b_):
                rule.ok(wv.loc(ids[0]), wv.fq, "ids and values are written over `%s` in the same order" % a_.base)
            else:
                rule.violation(wv.loc(ids[0]), wv.fq, "ids over %s%s, values over %s%s" % (a_.base, " reversed" if a_.rev else "", b_.base,
                               " reversed" if b_.rev else ""), "variable ids and their values are written in different orders",
                               "ids/order/%s" % wv.name)
    if idpoly is None:
        rule.undecided(wv.loc(), wv.fq, "variable id expression", "not interpretable")
        return
    calls = []
    for fi in m.functions.values():
        for c in ast.walk(fi.node):
            if isinstance(c, ast.Call) and norm(c.func) == "write_varlist" and len(c.args) == 3:
                calls.append((fi, c))
    want = {"pubvals": (k, "instance ids 1..P"), "privvals": (Pp + k, "witness ids P+1..P+W")}
    slot = {}
    for fi, c in calls:
        lst = norm(c.args[1])
        off = poly_of(c.args[2], local_env(fi.node, env), strict=True)
        got = idpoly.subst({"off": off}) if off is not None else None
        where = fi.loc(c)
        if lst in want:
            slot[lst] = got
            if got == want[lst][0]:
                rule.ok(where, fi.fq, "%s: k-th element gets id %s  (%s)" % (lst, got, want[lst][1]))
            else:
                rule.violation(where, fi.fq, "%s: k-th element gets id %s, expected %s" % (lst, got, want[lst][0]),
                               "variable ids are not %s" % want[lst][1], "ids/%s" % lst)
    for lst in want:
        if lst not in slot:
            rule.violation(wv.loc(), ZB, lst, "%s is never written through write_varlist" % lst, "ids/missing/%s" % lst)
    # free variable id
    fv = [c for fi in m.functions.values() for c in ast.walk(fi.node)
          if isinstance(c, ast.Call) and norm(c.func).endswith("AddFreeVariableId") and len(c.args) == 2]
    if fv:
        owner = [p_ for p_ in parents(fv[0]) if isinstance(p_, ast.FunctionDef)]
        got = poly_of(fv[0].args[1], local_env(owner[0], env) if owner else env, strict=True)
        if got == Pp + Ww + 1:
            rule.ok("%s:%s" % (m.relpath, fv[0].lineno), ZB, "free_variable_id = %s" % got)
        else:
            rule.violation("%s:%s" % (m.relpath, fv[0].lineno), ZB, "free_variable_id = %s" % got,
                           "first free variable id is not P+W+1", "ids/free")
    else:
        rule.violation("%s:1" % m.relpath, ZB, "no AddFreeVariableId", "header does not declare the first free variable id", "ids/nofree")
    # constraint writer's map vs allocator
    wc = repo.fn(ZB, "write_constraints")
    im = None
    im_at = None
    from ..flatten import helper_closure, resolve_locals as _rl11
    from ..seqs import resolve_at
    for f_ in helper_closure(repo, wc):
        for n in ast.walk(f_.node):
            if isinstance(n, ast.Call) and norm(n.func).endswith(".PrependUint64") and n.args and im is None:
                # the id written for one term of a linear combination, as a function of the term's key
                owners = [p_ for p_ in parents(n) if isinstance(p_, ast.FunctionDef)]
                own_ = owners[0] if owners else f_.node
                er, lps = resolve_at(own_, n, n.args[0])
                for g_ in owners:
                    er = _rl11(g_, er)
                if isinstance(er, ast.IfExp) and lps and lps[0][1] is not None:
                    im, im_at = er, n
                    vl = [resolve_at(own_, c_, c_.args[0])[1] for c_ in ast.walk(own_)
                          if isinstance(c_, ast.Call) and norm(c_.func).endswith(".PrependByte") and c_.args]
                    if vl and vl[0] and vl[0][0][1] is not None:
                        a_, b_ = lps[0][1], vl[0][0][1]
                        if a_.same_walk(b_):
                            rule.ok(f_.loc(n), f_.fq, "term ids and coefficients are written over `%s` in the same order" % a_.base)
                        else:
                            rule.violation(f_.loc(n), f_.fq, "ids over %s%s, coefficients over %s%s" % (
                                a_.base, " reversed" if a_.rev else "", b_.base, " reversed" if b_.rev else ""),
                                "the variable ids of a linear combination and its coefficients are written in different orders",
                                "ids/order/%s" % f_.name)
    kp = alloc_key(m, "pubval", "pubvals")
    kv = alloc_key(m, "privval", "privvals")
    if im is None or kp is None or kv is None:
        rule.undecided(wc.loc(), wc.fq, "index map / allocator keys", "not interpretable")
        return
    for nm, key, neg, lst in (("public", kp, False, "pubvals"), ("private", kv, True, "privvals")):
        got = index_map(im, key, neg)
        term = "k-th %s value: key %s -> constraint variable id %s; value written under id %s" % (nm, key, got, slot.get(lst))
        if got is not None and slot.get(lst) is not None and got == slot[lst]:
            rule.ok(wc.loc(im), wc.fq, term)
        else:
            rule.violation(wc.loc(im), wc.fq, term, "the id a constraint uses for a %s variable is not the id its value is "
                           "assigned under" % nm, "ids/map/%s" % nm)
    one = index_map(im, P(), False)
    if one == P():
        rule.ok(wc.loc(im), wc.fq, "key 0 (constant one) -> variable id 0")
    else:
        rule.violation(wc.loc(im), wc.fq, "key 0 -> %s" % one, "constant-one wire is not variable 0", "ids/one")


def never_none(m, name):
    """a module-level name every binding of which (at module level, or in a function declaring it global) is a list / dict /
    tuple display or a call: `name is None` is false whenever it is evaluated"""
    vals = []
    for n in ast.walk(m.tree):
        if isinstance(n, (ast.Assign, ast.AugAssign, ast.AnnAssign)):
            tgs = n.targets if isinstance(n, ast.Assign) else [n.target]
            for t in tgs:
                for x in ast.walk(t):
                    if isinstance(x, ast.Name) and x.id == name and not isinstance(x.ctx, ast.Load):
                        fn = [p for p in parents(n) if isinstance(p, (ast.FunctionDef, ast.Lambda))]
                        if fn and not any(isinstance(g, ast.Global) and name in g.names for g in ast.walk(fn[0])):
                            continue        # a local of that function
                        vals.append(n.value if not isinstance(n, ast.AugAssign) else ast.List(elts=[], ctx=ast.Load()))
        elif isinstance(n, (ast.For, ast.comprehension, ast.With, ast.NamedExpr, ast.Delete, ast.Import, ast.ImportFrom)):
            if any(isinstance(x, ast.Name) and x.id == name and not isinstance(x.ctx, ast.Load) for x in ast.walk(n)
                   if not isinstance(x, (ast.FunctionDef,))) and not any(isinstance(p, (ast.FunctionDef, ast.Lambda)) for p in parents(n)):
                return False
    return bool(vals) and all(isinstance(v, (ast.List, ast.Dict, ast.Tuple, ast.Set, ast.ListComp, ast.DictComp)) or (
        isinstance(v, ast.Constant) and v.value is not None) for v in vals)


def static_truth(test, m):
    """True / False when the test has the same outcome on every run, else None"""
    if isinstance(test, ast.UnaryOp) and isinstance(test.op, ast.Not):
        v = static_truth(test.operand, m)
        return None if v is None else not v
    if isinstance(test, ast.BoolOp):
        vs = [static_truth(v, m) for v in test.values]
        if isinstance(test.op, ast.And):
            return False if any(v is False for v in vs) else (True if all(v is True for v in vs) else None)
        return True if any(v is True for v in vs) else (False if all(v is False for v in vs) else None)
    if isinstance(test, ast.Constant):
        return bool(test.value)
    if isinstance(test, ast.Compare) and len(test.ops) == 1 and isinstance(test.ops[0], (ast.Is, ast.IsNot)):
        a, b = test.left, test.comparators[0]
        if isinstance(b, ast.Constant) and b.value is None:
            isnone = None
            if isinstance(a, ast.Constant):
                isnone = a.value is None
            elif isinstance(a, ast.Name) and never_none(m, a.id):
                isnone = False
            if isnone is not None:
                return isnone if isinstance(test.ops[0], ast.Is) else not isnone
    return None


def rule_messages(repo, rule):
    m = repo.module(ZB)
    pr = repo.fn(ZB, "prove")
    seq = {}
    conditional = []

    def collect(stmts, cur, conds):
        """cur: (file variable, file name) of the file being written"""
        for s in stmts:
            if isinstance(s, ast.Assign) and isinstance(s.value, ast.Call) and norm(s.value.func) == "open" and s.value.args \
                    and isinstance(s.value.args[0], ast.Constant):
                cur = (norm(s.targets[0]), s.value.args[0].value)
                seq.setdefault(cur[1], [])
            elif isinstance(s, ast.With) and len(s.items) == 1 and isinstance(s.items[0].context_expr, ast.Call) \
                    and norm(s.items[0].context_expr.func) == "open" and s.items[0].context_expr.args \
                    and isinstance(s.items[0].context_expr.args[0], ast.Constant) and s.items[0].optional_vars is not None:
                inner = (norm(s.items[0].optional_vars), s.items[0].context_expr.args[0].value)
                seq.setdefault(inner[1], [])
                collect(s.body, inner, conds)
            elif isinstance(s, ast.Expr) and isinstance(s.value, ast.Call):
                f = norm(s.value.func)
                if cur and f in ("write_circuit", "write_witness", "write_constraints") and s.value.args and norm(s.value.args[0]) == cur[0]:
                    seq[cur[1]].append(f)
                    if conds:
                        conditional.append((s, cur[1], f, " and ".join(conds)))
                elif cur and f == "%s.write" % cur[0] and len(s.value.args) == 1 and _message_of(pr, m, s.value.args[0]) is not None:
                    # f.write(<bytes of one message built beforehand>): which message it is follows from the builder it came from
                    mt = _message_of(pr, m, s.value.args[0])
                    seq[cur[1]].append(mt)
                    if conds:
                        conditional.append((s, cur[1], mt, " and ".join(conds)))
                elif cur and f == "%s.close" % cur[0]:
                    cur = None
            elif isinstance(s, ast.If):
                st = static_truth(s.test, m)
                if st is True:
                    cur = collect(s.body, cur, conds)
                elif st is False:
                    cur = collect(s.orelse, cur, conds)
                else:
                    collect(s.body, cur, conds + [norm(s.test)])
                    collect(s.orelse, cur, conds + ["not (%s)" % norm(s.test)])
            elif isinstance(s, (ast.Try, ast.For, ast.While)):
                rule.undecided(pr.loc(s), pr.fq, norm(s)[:80], "statement in prove() not interpretable")
        return cur
    collect(pr.node.body, None, [])
    for s_, fname, f, cond in conditional:
        rule.violation(pr.loc(s_), pr.fq, "%s <- %s only if %s" % (fname, f, cond), "a message of %s is written only under a condition: "
                       "when it does not hold the file lacks that message (e.g. no witness message for a program without private "
                       "values)" % fname, "msg/conditional/%s" % f)
    if "circuit.zkif" not in seq or "computation.zkif" not in seq:
        raise AnalysisError("prove() does not write circuit.zkif and computation.zkif (%s)" % sorted(seq))
    c = seq["circuit.zkif"]
    where = pr.loc()
    if "write_witness" in c:
        rule.violation(where, pr.fq, "circuit.zkif <- %s" % c, "the verifier's file receives a witness message", "msg/circuit-witness")
    elif sorted(c) == ["write_circuit", "write_constraints"] and c[0] == "write_circuit":
        rule.ok(where, pr.fq, "circuit.zkif <- %s" % c)
    else:
        rule.violation(where, pr.fq, "circuit.zkif <- %s" % c, "circuit file must hold the header then the constraints", "msg/circuit")
    w = seq["computation.zkif"]
    if sorted(w) == ["write_circuit", "write_constraints", "write_witness"] and w[0] == "write_circuit":
        rule.ok(where, pr.fq, "computation.zkif <- %s" % w)
    else:
        rule.violation(where, pr.fq, "computation.zkif <- %s" % w, "prover file must hold header, witness and constraints",
                       "msg/computation")
    # non-interference: privvals only through len() in what is written to circuit.zkif
    for fn in ("write_circuit", "write_constraints", "write_varlist"):
        fi = m.functions.get(fn)
        if fi is None:
            continue
        bad = []
        n_uses = 0
        for n in ast.walk(fi.node):
            if isinstance(n, ast.Name) and n.id == "privvals":
                n_uses += 1
                p = getattr(n, "_parent", None)
                if not (isinstance(p, ast.Call) and norm(p.func) == "len" and len(p.args) == 1):
                    bad.append(n)
        if bad:
            rule.violation(fi.loc(bad[0]), fi.fq, norm(getattr(bad[0], "_parent", bad[0]))[:100],
                           "a function that writes the verifier's file reads the private values themselves",
                           "msg/leak/%s" % fn)
        else:
            rule.ok(fi.loc(), fi.fq, "private values used only as len(privvals) (%d uses)" % n_uses)


def rule_field(repo, rule):
    m = repo.module(ZB)
    # no default-argument / closure capture of modulus or BL
    for fi in m.functions.values():
        if isinstance(fi.node, ast.Lambda):
            continue
        caps = [norm(d) for d in fi.node.args.defaults + [x for x in fi.node.args.kw_defaults if x is not None]
                if any(isinstance(x, ast.Name) and x.id in ("modulus", "BL") for x in ast.walk(d))]
        uses = [n for n in ast.walk(fi.node) if isinstance(n, ast.Name) and n.id in ("modulus", "BL") and isinstance(n.ctx, ast.Load)]
        if caps:
            rule.violation(fi.loc(), fi.fq, "defaults %s" % caps, "the modulus is captured at definition time: a later "
                           "set_modulus() is not seen", "field/capture/%s" % fi.qual)
        elif uses:
            rule.ok(fi.loc(), fi.fq, "%d reads of modulus/BL at call time" % len(uses))
    # module-level derived constants other than BL
    for n in m.tree.body:
        if isinstance(n, ast.Assign) and norm(n.targets[0]) not in ("modulus", "BL") and any(
                isinstance(x, ast.Name) and x.id in ("modulus", "BL") for x in ast.walk(n.value)):
            rule.violation("%s:%s" % (m.relpath, n.lineno), ZB, norm(n)[:80], "module-level constant derived from the modulus "
                           "is not updated by set_modulus", "field/derived/%s" % norm(n.targets[0]))
    # outside consumers
    it = get_interp(repo)
    for attr in ("modulus", "BL"):
        for (mod, fi, node) in it.backend_attrs.get(attr, []):
            rule.violation("%s:%s" % (mod.relpath, getattr(node, "lineno", "?")), mod.name, "backend.%s" % attr,
                           "consumer reads backend.%s directly: derived backends hold a stale star-imported copy; use "
                           "get_modulus()" % attr, "field/direct/%s/%s" % (mod.name, attr))
    n = len({(mod.name, getattr(node, "lineno", 0)) for (mod, fi, node) in it.backend_attrs.get("get_modulus", [])})
    rule.ok("package", "consumers", "%d uses of backend.get_modulus() outside the backends" % n)


def rule_schema(repo, rule):
    m = repo.module(ZB)
    # stub functions exist
    stubs = {k: b[1] for k, b in m.bindings.items() if b[0] == "module" and b[1].startswith("pysnark.zkinterface.")}
    missing = 0
    used = set()
    for fi in m.functions.values():
        for c in ast.walk(fi.node):
            if isinstance(c, ast.Call) and isinstance(c.func, ast.Attribute) and isinstance(c.func.value, ast.Name) \
                    and c.func.value.id in stubs:
                sm = repo.modules.get(stubs[c.func.value.id])
                used.add((c.func.value.id, c.func.attr))
                if sm is None or c.func.attr not in sm.bindings:
                    missing += 1
                    rule.violation(fi.loc(c), fi.fq, norm(c.func), "function does not exist in the generated schema module",
                                   "schema/missing/%s" % norm(c.func))
    rule.ok("%s:1" % m.relpath, ZB, "%d distinct schema functions used, all defined by the generated stubs" % len(used)) \
        if not missing else None
    msgmod = repo.modules.get("pysnark.zkinterface.Message")
    enum = msgmod.classes["Message"].attrs if msgmod and "Message" in msgmod.classes else {}
    for fn, table in (("write_circuit", "CircuitHeader"), ("write_witness", "Witness"), ("write_constraints", "ConstraintSystem")):
        fi = repo.fn(ZB, fn)
        if not any(isinstance(c, ast.Call) and norm(c.func).endswith("RootAddMessageType") for c in ast.walk(fi.node)):
            # the writer may delegate the building to a function that returns the message's bytes: f.write(build_x())
            # (one unconditional call without arguments: a builder called per chunk of the data, in a loop or with a slice, makes
            # several messages - which the message-sequence rule does not know how to read - and is not accepted here)
            for c in ast.walk(fi.node):
                if isinstance(c, ast.Call) and isinstance(c.func, ast.Name) and c.func.id in m.functions and not c.args and not c.keywords \
                        and not any(isinstance(p_, (ast.For, ast.While, ast.If, ast.ListComp, ast.GeneratorExp)) for p_ in parents(c)) and any(
                        isinstance(x, ast.Call) and norm(x.func).endswith("RootAddMessageType") for x in ast.walk(m.functions[c.func.id].node)):
                    fi = m.functions[c.func.id]
                    break
        mt = [c for c in ast.walk(fi.node) if isinstance(c, ast.Call) and norm(c.func).endswith("RootAddMessageType")]
        mm = [c for c in ast.walk(fi.node) if isinstance(c, ast.Call) and norm(c.func).endswith("RootAddMessage")]
        where = fi.loc()
        if len(mt) != 1 or len(mm) != 1:
            rule.violation(where, fi.fq, "%d type / %d message" % (len(mt), len(mm)), "Root must get one type and one message",
                           "schema/root/%s" % fn)
            continue
        typ = norm(mt[0].args[1]).split(".")[-1]
        var = norm(mm[0].args[1])
        src = None
        for a in ast.walk(fi.node):
            if isinstance(a, ast.Assign) and norm(a.targets[0]) == var and isinstance(a.value, ast.Call):
                src = norm(a.value.func).split(".")[-1]
        ok = typ == table and src == table + "End" and typ in enum
        term = "%s: message type %s, payload built by %s" % (fn, typ, src)
        if ok:
            rule.ok(fi.loc(mt[0]), fi.fq, term)
        else:
            rule.violation(fi.loc(mt[0]), fi.fq, term, "message type tag does not match the table stored in the Root (expected %s)"
                           % table, "schema/tag/%s" % fn)
        fin = [c for c in ast.walk(fi.node) if isinstance(c, ast.Call) and norm(c.func).endswith(".FinishSizePrefixed")]
        wr = [c for c in ast.walk(fi.node) if isinstance(c, ast.Call) and fi.params and norm(c.func) == "%s.write" % fi.params[0]]
        handed = [r for r in ast.walk(fi.node) if isinstance(r, ast.Return) and r.value is not None and ".Output()" in norm(r.value)]
        if fin and (wr or (not fi.params and handed)):
            rule.ok(fi.loc(fin[0]), fi.fq, "FinishSizePrefixed(root); %s" % ("%s.write(buf)" % fi.params[0] if wr else "the finished buffer is returned to the writer"))
        else:
            rule.violation(where, fi.fq, "finish=%d write=%d" % (len(fin), len(wr)), "message is not written size-prefixed",
                           "schema/prefix/%s" % fn)
    # header fields
    wcirc = repo.fn(ZB, "write_circuit")
    need = {"CircuitHeaderAddInstanceVariables", "CircuitHeaderAddFreeVariableId", "CircuitHeaderAddFieldMaximum"}
    have = {norm(c.func).split(".")[-1] for c in ast.walk(wcirc.node) if isinstance(c, ast.Call)}
    if need <= have:
        rule.ok(wcirc.loc(), wcirc.fq, "header declares instance variables, free variable id, field maximum")
    else:
        rule.violation(wcirc.loc(), wcirc.fq, "missing %s" % sorted(need - have), "circuit header lacks a required field", "schema/header")
    wcon = repo.fn(ZB, "write_constraints")
    # A/B/C: on the source as written (helpers not inlined): in the function that fills a BilinearConstraint, the values given
    # to AddLinearCombinationA/B/C are the results of ONE linear-combination writer applied to parts 0, 1, 2 of ONE constraint
    pristine = ast.parse(repo.module(ZB).src)
    # table-driven form: `for add, lc in zip((AddA, AddB, AddC), lcs): add(builder, lc)` is written out first (loops over
    # short literal tables are unrolled; nothing else is rewritten)
    from ..flatten import _unroll_for
    for n_ in ast.walk(pristine):
        for c_ in ast.iter_child_nodes(n_):
            c_._parent = n_
    for fn_ in [x for x in ast.walk(pristine) if isinstance(x, ast.FunctionDef)]:
        fn_._closure_parents = [p_ for p_ in parents(fn_) if isinstance(p_, ast.FunctionDef)]
        for hold_ in ast.walk(fn_):
            for fld_ in ("body", "orelse"):
                lst_ = getattr(hold_, fld_, None)
                if isinstance(lst_, list) and any(isinstance(s_, ast.For) for s_ in lst_):
                    new_ = []
                    for s_ in lst_:
                        rep_ = _unroll_for(s_, fn_) if isinstance(s_, ast.For) else None
                        new_.extend(rep_ if rep_ is not None else [s_])
                    lst_[:] = new_
    holder = None
    for fn_ in ast.walk(pristine):
        if isinstance(fn_, ast.FunctionDef):
            own = [c for c in ast.walk(fn_) if isinstance(c, ast.Call) and re.search(r"AddLinearCombination[ABC]$", norm(c.func))
                   and not any(isinstance(x, ast.FunctionDef) and x is not fn_ and c in list(ast.walk(x)) for x in ast.walk(fn_))]
            if len(own) >= 3:
                holder = (fn_, own)
    got, want = None, None
    if holder is not None:
        fn_, own = holder
        defs = {}
        for a_ in ast.walk(fn_):
            if isinstance(a_, ast.Assign) and len(a_.targets) == 1 and isinstance(a_.targets[0], ast.Name) and isinstance(a_.value, ast.Call):
                defs.setdefault(a_.targets[0].id, []).append(a_.value)
        compdefs = {}
        for a_ in ast.walk(fn_):
            if isinstance(a_, ast.Assign) and len(a_.targets) == 1 and isinstance(a_.targets[0], ast.Name) and isinstance(a_.value, ast.ListComp):
                compdefs.setdefault(a_.targets[0].id, []).append(a_.value)
        stores_ = {}
        for x_ in ast.walk(fn_):
            if isinstance(x_, ast.Name) and not isinstance(x_.ctx, ast.Load):
                stores_[x_.id] = stores_.get(x_.id, 0) + 1
        compdefs = {k_: v_ for k_, v_ in compdefs.items() if stores_.get(k_) == 1}
        got = []
        for c in own:
            letter = norm(c.func)[-1]
            v = c.args[1] if len(c.args) > 1 else None
            src = v
            if isinstance(v, ast.Name) and len(defs.get(v.id, [])) == 1:
                src = defs[v.id][0]
            part = None
            if isinstance(v, ast.Subscript) and isinstance(v.value, ast.Name) and isinstance(v.slice, ast.Constant) \
                    and len(compdefs.get(v.value.id, [])) == 1:
                # lcs[i] with lcs = [W(t) for t in S]  is  W(S[i])
                comp = compdefs[v.value.id][0]
                g_ = comp.generators[0]
                if len(comp.generators) == 1 and not g_.ifs and isinstance(g_.target, ast.Name) and isinstance(comp.elt, ast.Call) \
                        and [norm(a_) for a_ in comp.elt.args] == [g_.target.id] and not comp.elt.keywords:
                    part = (norm(comp.elt.func), norm(g_.iter), v.slice.value)
            if part is None and isinstance(src, ast.Call):
                subs = [a_ for a_ in src.args if isinstance(a_, ast.Subscript) and isinstance(a_.slice, ast.Constant)]
                if len(subs) == 1:
                    part = (norm(src.func), norm(subs[0].value), subs[0].slice.value)
            got.append((letter, part))
        got.sort()
        writers = {p_[0] for _l, p_ in got if p_}
        cvars = {p_[1] for _l, p_ in got if p_}
        okabc = len(got) == 3 and all(p_ for _l, p_ in got) and len(writers) == 1 and len(cvars) == 1 \
            and [(l_, p_[2]) for l_, p_ in got] == [("A", 0), ("B", 1), ("C", 2)]
    else:
        okabc = False
    if okabc:
        rule.ok(wcon.loc(), wcon.fq, "A, B, C <- %s(c[0]), %s(c[1]), %s(c[2])" % ((sorted(writers)[0],) * 3))
    else:
        rule.violation(wcon.loc(), wcon.fq, str(got), "linear combinations A/B/C are not taken from the constraint's three parts "
                       "in order", "schema/abc")


def check(repo, rep, tier):
    rep.explanation = ("Shape and arithmetic checks of the FlatBuffers builder code: byte extraction loops, affine "
                       "agreement of variable-id formulas (allocator, header, witness, constraint writer), the messages "
                       "each output file receives on the straight-line body of prove(), the name `privvals` occurring only "
                       "under len() in everything written to the verifier's file, call-time reads of the modulus, and "
                       "agreement of schema function names / message tags with the generated stubs.")
    rep.trusted = ["FlatBuffers builder semantics: vectors are filled back to front (Prepend*)", "zkinterface.fbs as "
                   "reflected by the generated python stubs"]
    rep.not_decided = ["FlatBuffers' own wire format (library absent in this sandbox)", "satisfaction of the decoded system (C01)"]
    r1 = rep.rule("R-C11-1", "canonical little-endian field elements of exactly BL bytes", floor=5)
    rule_bytes(repo, r1)
    r2 = rep.rule("R-C11-2", "variable ids agree between header, witness, constraints and allocator", floor=6)
    rule_ids(repo, r2)
    r3 = rep.rule("R-C11-3", "message selection; verifier file independent of private values", floor=5)
    rule_messages(repo, r3)
    r4 = rep.rule("R-C11-4", "field switch is seen by every reader of the modulus", floor=4)
    rule_field(repo, r4)
    r5 = rep.rule("R-C11-5", "schema agreement", floor=8)
    rule_schema(repo, r5)
    r7 = rep.rule("R-C11-7", "records shared through tables are keyed by the value itself, never by hash(value)", floor=1)
    from .hashkeys import rule_no_hash_keys
    rule_no_hash_keys(repo, r7, ("pysnark.zkinterface.backend",))
    r6 = rep.rule("R-C11-6", "the linear combinations written are the traced ones: backend algebra (shared with C13)", floor=4)
    from .c13 import algebra as _alg
    _alg(repo, r6, only=("pysnark.zkinterface.backend",))
