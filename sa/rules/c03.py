"""C03 - assertions and declared types are enforced in-circuit, with the same relation.

R-C03-1  check/gadget relational agreement of every relational assertion of LinComb
R-C03-2  width agreement: a width parameter consumed by the run-time check reaches the gadget
R-C03-3  delegation completeness of the LinCombBool / LinCombFxp wrappers
R-C03-4  booleanity on declaration
R-C03-5  suppression symmetry: the run-time check is suppressible, the gadget is not
"""
import ast

from ..cfg import CFG, calls_in, own_stmt_part
from ..loader import norm, AnalysisError, parents
from ..poly import P, poly_of
from ..relations import relations_when_false, gadget_relation, show, GADGET_REL

RT = "pysnark.runtime"


def assertion_methods(ci):
    return {n: f for n, f in ci.methods.items() if n.startswith("assert_")}


def value_env(fi):
    """self.value / self  ->  s ;  <param>.value / <param> -> symbol named after the parameter."""
    env = {}
    for i, p in enumerate(fi.params):
        sym = P.sym("self" if i == 0 else p)
        env[p] = sym
        env["%s.value" % p] = sym
    # locals holding a converted operand (`rhs = LinComb._ensurelc(other)`, whatever the local is called): wire and value of the
    # local are those of the operand it was made from
    for a in ast.walk(fi.node):
        if isinstance(a, ast.Assign) and len(a.targets) == 1 and isinstance(a.targets[0], ast.Name) and isinstance(a.value, ast.Call) \
                and norm(a.value.func).split(".")[-1] in ("_ensurelc", "_ensurebool", "_ensurefxp") and len(a.value.args) == 1 \
                and isinstance(a.value.args[0], ast.Name) and a.value.args[0].id in env and a.targets[0].id not in env:
            env[a.targets[0].id] = env[a.value.args[0].id]
            env["%s.value" % a.targets[0].id] = env[a.value.args[0].id]
    return env


def raise_tests(fi):
    """[(If node whose body raises, governing ignore_errors-test present?)]"""
    out = []
    for n in ast.walk(fi.node):
        if isinstance(n, ast.If) and n.body and isinstance(n.body[0], ast.Raise) and not n.orelse:
            out.append(n)
    return out


def strip_ignore(test):
    """`(not ignore_errors()) and X`  ->  X"""
    if isinstance(test, ast.BoolOp) and isinstance(test.op, ast.And):
        rest = [v for v in test.values if "ignore_errors()" not in norm(v)]
        if len(rest) == 1:
            return rest[0]
        if rest and len(rest) < len(test.values):
            return ast.BoolOp(op=ast.And(), values=rest)
    return test


def gadget_calls(fi):
    out = []
    for n in ast.walk(fi.node):
        if isinstance(n, ast.Call) and isinstance(n.func, ast.Attribute) and n.func.attr in GADGET_REL \
                and not any(isinstance(p, ast.Raise) for p in parents(n)):
            out.append(n)
    return out


def rule_agreement(repo, rule):
    ci = repo.cls(RT, "LinComb")
    for name, fi in sorted(assertion_methods(ci).items()):
        if name in ("assert_positive", "assert_zero", "assert_nonzero"):
            continue   # primitive gadgets: their own checks are instances of R-C03-2 / C02
        env = value_env(fi)
        tests = [t for t in raise_tests(fi) if ".value" in norm(t.test)]
        gad = gadget_calls(fi)
        where = fi.loc()
        if not tests or not gad:
            rule.undecided(where, fi.fq, "checks=%d gadgets=%d" % (len(tests), len(gad)), "assertion not in check-then-gadget shape")
            continue
        chk = []
        ok = True
        for t in tests:
            r = relations_when_false(strip_ignore(t.test), env)
            if r is None:
                ok = False
                break
            chk += r
        g = [gadget_relation(c, env) for c in gad]
        if not ok or any(x is None for x in g):
            rule.undecided(where, fi.fq, "; ".join(norm(t.test) for t in tests), "relation not expressible as an affine form")
            continue
        cs = sorted(set(chk), key=str)
        gs = sorted(set(g), key=str)
        for r in cs:
            term = "run-time check accepts  %s ;  gadgets enforce  %s" % (show(r), " and ".join(show(x) for x in gs))
            if r in gs:
                rule.ok(where, fi.fq, term)
            else:
                near = [x for x in gs if x[0] == r[0] and (x[1] - r[1]).is_const()]
                d = (" (circuit accepts %s more value%s than the check)" % (
                    abs(int((near[0][1] - r[1]).const_value())), "" if abs((near[0][1] - r[1]).const_value()) == 1 else "s")
                    if near else "")
                rule.violation(where, fi.fq, term, "the relation enforced in-circuit differs from the one the run-time check "
                               "applies%s" % d, "%s/%s" % (fi.qual, show(r).replace(" ", "")))
        for x in gs:
            if x not in cs:
                near = [r for r in cs if r[0] == x[0] and (x[1] - r[1]).is_const()]
                if not near:
                    rule.violation(where, fi.fq, "gadget %s has no counterpart among the run-time checks %s" % (
                        show(x), [show(r) for r in cs]), "in-circuit relation without a matching run-time check",
                        "%s/gadget/%s" % (fi.qual, show(x).replace(" ", "")))


WIDTH_PARAMS = ("bits",)


def _length_of(e, fnode, depth=0):
    """set of symbolic lengths (texts) an iterable expression can have, following locals; None if not derivable"""
    if depth > 4:
        return None
    if isinstance(e, ast.Call) and norm(e.func) == "range" and len(e.args) == 1:
        return {norm(e.args[0])}
    if isinstance(e, ast.Call) and norm(e.func) in ("list", "tuple", "reversed", "enumerate") and len(e.args) == 1:
        return _length_of(e.args[0], fnode, depth + 1)
    if isinstance(e, ast.Call) and isinstance(e.func, ast.Attribute) and e.func.attr == "to_bits" and len(e.args) == 1:
        return {norm(e.args[0])}
    if isinstance(e, (ast.ListComp, ast.GeneratorExp)) and len(e.generators) == 1 and not e.generators[0].ifs:
        return _length_of(e.generators[0].iter, fnode, depth + 1)
    if isinstance(e, ast.BinOp) and isinstance(e.op, ast.Mult):
        for lst, k in ((e.left, e.right), (e.right, e.left)):
            if isinstance(lst, ast.List) and len(lst.elts) == 1:
                return {norm(k)}
    if isinstance(e, ast.Name):
        defs = [a.value for a in ast.walk(fnode) if isinstance(a, ast.Assign) and len(a.targets) == 1 and norm(a.targets[0]) == e.id]
        if not defs:
            return None
        out = set()
        for d in defs:
            if isinstance(d, ast.Name) and d.id == e.id:
                continue
            ln = _length_of(d, fnode, depth + 1)
            if ln is None:
                return None
            out |= ln
        return out or None
    return None


def rule_width(repo, rule):
    ci = repo.cls(RT, "LinComb")
    # a *width* parameter is an optional int (default None); from_bits(bits) takes the list of bits, not a width
    width_methods = {n for n, f in ci.methods.items() if any(p in WIDTH_PARAMS and f.param_default(p) is not None for p in f.params)}
    for name in sorted(width_methods):
        fi = ci.methods[name]
        wp = [p for p in fi.params if p in WIDTH_PARAMS][0]
        # the effective width: the parameter itself, or a local that is the parameter with None replaced by the default
        #   w = D if wp is None else wp   /   w = wp if wp is not None else D
        W = {wp}
        for a in ast.walk(fi.node):
            if isinstance(a, ast.Assign) and len(a.targets) == 1 and isinstance(a.targets[0], ast.Name) and isinstance(a.value, ast.IfExp) \
                    and a.targets[0].id != wp:
                tt, bb, oo = norm(a.value.test), norm(a.value.body), norm(a.value.orelse)
                if (tt in ("%s is None" % wp, "%s == None" % wp) and oo == wp) or (tt in ("%s is not None" % wp, "%s != None" % wp) and bb == wp):
                    others = [x for x in ast.walk(fi.node) if isinstance(x, ast.Name) and x.id == a.targets[0].id
                              and isinstance(x.ctx, ast.Store) and x is not a.targets[0]]
                    if not others:
                        W.add(a.targets[0].id)
        # is the width consumed by a run-time check?
        consumed = [t for t in ast.walk(fi.node) if isinstance(t, ast.If) and any(
            isinstance(x, ast.Name) and x.id in W for x in ast.walk(t.test)) and ".value" in norm(t.test)]
        where = fi.loc()
        calls = [c for c in ast.walk(fi.node) if isinstance(c, ast.Call) and isinstance(c.func, ast.Attribute)
                 and c.func.attr in width_methods and not any(isinstance(p, ast.Raise) for p in parents(c))]
        for c in calls:
            callee = ci.methods[c.func.attr]
            cw = [p for p in callee.params if p in WIDTH_PARAMS][0]
            pos = callee.params.index(cw) - 1
            arg = None
            if len(c.args) > pos:
                arg = c.args[pos]
            for kw in c.keywords:
                if kw.arg == cw:
                    arg = kw.value
            term = "%s(%s=...) calls %s with %s=%s" % (name, wp, c.func.attr, cw, norm(arg) if arg is not None else "<default>")
            if arg is not None and any(isinstance(x, ast.Name) and x.id in W for x in ast.walk(arg)):
                rule.ok(fi.loc(c), fi.fq, term, "the width the check uses is the width the gadget enforces")
            elif consumed:
                rule.violation(fi.loc(c), fi.fq, term, "the run-time check uses `%s` but the gadget is built with the default "
                               "width: the width argument is not the width enforced in-circuit" % wp,
                               "%s/width/%s" % (fi.qual, c.func.attr))
            else:
                rule.note(fi.loc(c), fi.fq, term)
        # the width drives the number of bits built
        loops = [g for n in ast.walk(fi.node) if isinstance(n, (ast.ListComp, ast.GeneratorExp)) for g in n.generators
                 if "PrivValBool" in norm(n.elt)]
        if name.startswith("assert_") and consumed and not loops and not any(
                c.func.attr in width_methods and any(isinstance(x, ast.Name) and x.id in W for a_ in list(c.args) + [k.value for k in c.keywords]
                                                     for x in ast.walk(a_)) for c in calls):
            # the range is neither delegated to a width gadget nor enforced by a list of `width` bits: some other decomposition
            # (limbs of several bits, a lookup, ...).  Whether its pieces are range-bounded and cover exactly the width is not
            # established here - said so, rather than passing in silence
            rule.undecided(where, fi.fq, "%s: range of width `%s` enforced by a decomposition of its own" % (name, wp),
                           "neither a call of a width gadget with this width nor a list of that many bits: the pieces' ranges and "
                           "their coverage of the width are not decided by this analysis")
        for g in loops:
            ln = _length_of(g.iter, fi.node)
            if ln is not None and len(ln) == 1 and ln <= W:
                rule.ok(fi.loc(g.iter), fi.fq, "bits built: %s (length %s)" % (norm(g.iter), wp))
            elif ln is None:
                rule.undecided(fi.loc(g.iter), fi.fq, "bits built: %s" % norm(g.iter), "length of the iterated sequence not derivable")
            else:
                rule.violation(fi.loc(g.iter), fi.fq, "bits built: %s (length %s)" % (norm(g.iter), sorted(ln)), "number of bits "
                               "allocated is not the requested width `%s`" % wp, "%s/nbits" % fi.qual)
        # the width is replaced by the default only when it is None (a requested width of 0 is a width)
        for a in ast.walk(fi.node):
            if isinstance(a, ast.Assign) and len(a.targets) == 1 and norm(a.targets[0]) == wp and not isinstance(a.value, (ast.ListComp,)):
                gov = [p_ for p_ in parents(a) if isinstance(p_, ast.If)]
                ok_none = any(norm(g.test) in ("%s is None" % wp, "%s == None" % wp) and a in g.body for g in gov)
                ok_ifexp = isinstance(a.value, ast.IfExp) and norm(a.value.test) in ("%s is None" % wp, "%s is not None" % wp)
                if ok_none or ok_ifexp:
                    rule.ok(fi.loc(a), fi.fq, "default width only when `%s is None`: %s" % (wp, norm(a)))
                else:
                    rule.violation(fi.loc(a), fi.fq, norm(a), "the width argument is overridden by something other than the `is None` "
                                   "default: a requested width (e.g. 0) is not the width enforced", "%s/width-default" % fi.qual)
        # run-time test uses the width
        for t in consumed:
            txt = norm(t.test)
            if any("bit_length() %s %s" % (op_, w_) in txt for op_ in (">", "<=", ">=") for w_ in W):
                rule.ok(fi.loc(t), fi.fq, "run-time test: %s" % txt[:80])
    return width_methods


def _direct_bit_order(fi, name, ens):
    """None when the wrapper's run-time check and its constraint both state the order relation `name` between self and the
    converted operand as a relation on their difference; otherwise what is wrong."""
    from ..flatten import resolve_locals, _FoldConstIfExp
    from ..loader import clone
    s_, o_ = fi.params[0], fi.params[1]
    conv = [a for a in ast.walk(fi.node) if isinstance(a, ast.Assign) and len(a.targets) == 1 and isinstance(a.value, ast.Call)
            and norm(a.value.func).endswith(ens) and a.value.args and norm(a.value.args[0]) == o_]
    if not conv:
        return "the operand is not converted with %s" % ens
    oc = norm(conv[0].targets[0])
    S, O = P.sym("s"), P.sym("o")
    env = {"%s.lc" % s_: S, "%s.lc.value" % s_: S, "%s.lc" % oc: O, "%s.lc.value" % oc: O,
           "LinComb.ZERO": P(), "LinComb.ONE_SAFE": P.const(1)}
    diff = (O - S) if name in ("assert_lt", "assert_le") else (S - O)
    strict = name in ("assert_lt", "assert_gt")

    def poly(e):
        e = _FoldConstIfExp().visit(clone(resolve_locals(fi.node, e)))
        t_ = norm(e).replace(".value", "")
        return poly_of(ast.parse(t_, mode="eval").body, {k.replace(".value", ""): v for k, v in env.items()}, strict=True)
    # the run-time check: raises (with checks on) exactly when the relation fails
    tests = [t for t in raise_tests(fi)]
    okc = False
    for t in tests:
        te = _FoldConstIfExp().visit(clone(resolve_locals(fi.node, strip_ignore(t.test))))
        te = strip_ignore(te)
        cmps = te.values if isinstance(te, ast.BoolOp) and isinstance(te.op, ast.And) else [te]
        if not all(isinstance(c, ast.Compare) and len(c.ops) == 1 and isinstance(c.ops[0], ast.NotEq) for c in cmps):
            continue
        lefts = [poly(c.left) for c in cmps]
        consts = sorted(norm(c.comparators[0]) for c in cmps)
        if any(l is None or l != diff for l in lefts):
            continue
        if (strict and consts == ["1"]) or (not strict and consts == ["0", "1"]):
            okc = "ignore_errors()" in norm(t.test) or any(isinstance(p_, ast.If) and "ignore_errors()" in norm(p_.test) for p_ in parents(t))
    if not okc:
        return "the run-time check does not accept exactly the pairs of bits with %s %s (or is not suppressible)" % (
            "difference 1" if strict else "difference 0 or 1", "")
    # the constraint
    okg = False
    for c in ast.walk(fi.node):
        if not isinstance(c, ast.Call):
            continue
        if isinstance(c.func, ast.Attribute) and c.func.attr == "assert_zero" and strict:
            p = poly(c.func.value)
            okg = okg or (p is not None and (p == diff - 1 or p == 1 - diff))
        if norm(c.func).split(".")[-1] == "add_constraint" and len(c.args) >= 3:
            ps = [poly(x) for x in c.args[:3]]
            if None in ps:
                continue
            res = ps[0] * ps[1] - ps[2]
            if strict:
                okg = okg or False
            else:
                okg = okg or res == diff * (1 - diff) or res == -(diff * (1 - diff))
    if not okg:
        return "no constraint states %s on the difference of the two wires" % ("== 1" if strict else "in {0, 1}")
    return None


def rule_delegation(repo, rule):
    for mod, cn, ens in (("pysnark.boolean", "LinCombBool", "_ensurebool"), ("pysnark.fixedpoint", "LinCombFxp", "_ensurefxp")):
        ci = repo.cls(mod, cn)
        for name, fi in sorted(ci.methods.items()):
            if not (name.startswith("assert_") or name.startswith("check_")):
                continue
            calls = [c for c in ast.walk(fi.node) if isinstance(c, ast.Call) and isinstance(c.func, ast.Attribute)
                     and norm(c.func.value) == "self.lc"]
            where = fi.loc()
            if len(calls) != 1 and cn == "LinCombBool" and name in ("assert_lt", "assert_le", "assert_gt", "assert_ge") and not calls:
                # not delegated: an order assertion between two declared bits stated on their difference.  For bits s, o:
                #   s < o  iff  o - s == 1        s <= o  iff  o - s in {0, 1}        (and mirrored)
                # the run-time check and the constraint must both say exactly that about the converted operands
                verdict = _direct_bit_order(fi, name, ens)
                if verdict is None:
                    rule.ok(where, fi.fq, "%s: check and constraint both state the bit relation on %s" % (
                        name, "o - s" if name in ("assert_lt", "assert_le") else "s - o"))
                else:
                    rule.violation(where, fi.fq, norm(fi.node.body)[:100], verdict, "%s/direct" % fi.qual)
                continue
            if len(calls) != 1:
                rule.violation(where, fi.fq, norm(fi.node.body)[:100], "wrapper does not delegate to exactly one LinComb method",
                               "%s/count" % fi.qual)
                continue
            c = calls[0]
            problems = []
            if c.func.attr != name:
                problems.append("delegates to `%s`" % c.func.attr)
            others = [p for p in fi.params[1:] if p != "err" and p not in WIDTH_PARAMS]      # a width is a public integer, not an operand
            conv = {}
            for a in ast.walk(fi.node):
                if isinstance(a, ast.Assign) and isinstance(a.value, ast.Call) and norm(a.value.func).endswith(ens) and a.value.args:
                    conv[norm(a.targets[0])] = norm(a.value.args[0])
            for i, p in enumerate(others):
                if i >= len(c.args):
                    problems.append("operand `%s` not passed" % p)
                    continue
                at = norm(c.args[i])
                good = {"self.%s(%s).lc" % (ens, p), "%s.%s(%s).lc" % (cn, ens, p)}
                if at in good:
                    continue
                if at.endswith(".lc") and conv.get(at[:-3]) == p:
                    continue
                # by operand kind: on every path an operand of that class can take, the argument is ens(p).lc - or p.lc where
                # the converter hands that class back unchanged
                ensfi = ci.methods.get(ens)
                if ensfi is not None:
                    from ..bykind import expr_by_kind, identity_on
                    kinds = {"LinCombFxp": ("LinCombFxp",), "LinCombBool": ("LinCombBool",), "LinComb": ("LinComb",),
                             "int": ("int",), "float": ("float",)}
                    got = expr_by_kind(fi, c, c.args[i], p, kinds)
                    ep = [q for q in ensfi.params if q not in ("self", "cls")][0]
                    bad_kind = None
                    for k, exprs in got.items():
                        allowed = set(good)
                        if identity_on(ensfi, ep, kinds[k]):
                            allowed.add("%s.lc" % p)
                        # what the converter's result carries in .lc for this kind: `Cls(W, False)` wraps the wire W as it
                        # is, so W - and, W being ConstVal(E), the plain number E (the LinComb assertions convert constants
                        # themselves) - is the same operand at the same scale
                        from ..bykind import returns_by_kind
                        from ..flatten import _Subst
                        from ..loader import clone as _clone
                        for _r, e in returns_by_kind(ensfi, ep, {"k": kinds[k]}, rebind=True)["k"]:
                            if isinstance(e, ast.Call) and norm(e.func).split(".")[-1] in (cn, "cls") and len(e.args) == 2 \
                                    and norm(e.args[1]) == "False" and not e.keywords:
                                w_ = _Subst({ep: ast.Name(id=p, ctx=ast.Load())}).visit(_clone(e.args[0]))
                                allowed.add(norm(w_))
                                if isinstance(w_, ast.Call) and norm(w_.func).split(".")[-1] == "ConstVal" and len(w_.args) == 1:
                                    allowed.add(norm(w_.args[0]))
                                    allowed.add(norm(w_.args[0]).replace("cls.", "%s." % cn))
                        if not exprs or any(norm(e) not in allowed for e in exprs):
                            bad_kind = k
                            break
                    if bad_kind is None:
                        continue
                problems.append("operand `%s` passed as `%s`, not converted with %s" % (p, at, ens))
            term = "%s -> self.lc.%s(%s)" % (name, c.func.attr, ", ".join(norm(a) for a in c.args))
            if problems:
                rule.violation(where, fi.fq, term, "; ".join(problems), "%s/deleg" % fi.qual)
            else:
                rule.ok(where, fi.fq, term)


def _witness_helpers(repo):
    """names of one-argument helpers of the runtime module that hand back a fresh witness hinted with their argument
    (`w = PrivVal(val); <constraints on w>; return w`): like PrivVal itself, their argument is a hint, not part of the circuit"""
    out = []
    for fi in repo.module(RT).functions.values():
        if not isinstance(fi.node, ast.FunctionDef):
            continue
        ps = [p_ for p_ in fi.params if p_ not in ("self", "cls")]
        if len(ps) != 1:
            continue
        rets = [r for r in ast.walk(fi.node) if isinstance(r, ast.Return) and r.value is not None]
        if not rets or not all(isinstance(r.value, ast.Name) for r in rets):
            continue
        names = {r.value.id for r in rets}
        binds = [a for a in ast.walk(fi.node) if isinstance(a, ast.Assign) and len(a.targets) == 1 and isinstance(a.targets[0], ast.Name)
                 and a.targets[0].id in names]
        # the argument may reach the result only as the hint: no other use of the parameter in the body
        uses = [x for x in ast.walk(fi.node) if isinstance(x, ast.Name) and x.id == ps[0] and isinstance(x.ctx, ast.Load)]
        if binds and all(isinstance(a.value, ast.Call) and norm(a.value.func).split(".")[-1] in ("PrivVal", "PrivValBool") and len(a.value.args) == 1
                         and norm(a.value.args[0]) == ps[0] for a in binds) and len(uses) == len(binds):
            out.append(fi.name)
    return tuple(sorted(set(out)))


def rule_wires_only(repo, rule):
    """The relation an assertion enforces in-circuit is a relation between WIRES.  The trace-time value of an operand
    (`x.value`, or a local computed from one) may be used to decide whether to raise, in the error message and as the hint of a
    fresh witness - never inside the expression a gadget is applied to or a constraint is built from: that would freeze this
    run's value into the circuit as a constant, and the circuit would no longer state the declared relation about the operand."""
    ci = repo.cls(RT, "LinComb")
    gadget_attrs = {"assert_positive", "assert_zero", "assert_nonzero", "assert_lt", "assert_le", "assert_eq", "assert_ne", "assert_gt",
                    "assert_ge", "assert_range", "check_positive", "check_zero", "check_nonzero", "to_bits"}
    n = 0
    for name, fi in sorted(ci.methods.items()):
        if not (name.startswith("assert_") or name.startswith("check_")) or not isinstance(fi.node, ast.FunctionDef):
            continue
        # numbers derived from values (not wires): locals assigned from an expression reading .value, transitively
        tainted = set()
        changed = True
        alloc = ("PrivVal", "PrivValBool", "PubVal", "ConstVal", "PrivValFxp") + _witness_helpers(repo)

        def reads_value(e, skip_alloc=True):
            for x in ast.walk(e):
                if isinstance(x, ast.Attribute) and x.attr == "value" and isinstance(x.ctx, ast.Load):
                    return True
                if isinstance(x, ast.Name) and x.id in tainted and isinstance(x.ctx, ast.Load):
                    return True
            return False

        def strip_hints(e):
            """copy of e with the arguments of witness allocations removed (a hint may be any number)"""
            class _S(ast.NodeTransformer):
                def visit_Call(self_, c):
                    if norm(c.func).split(".")[-1] in alloc:
                        return ast.copy_location(ast.Name(id="__wire__", ctx=ast.Load()), c)
                    self_.generic_visit(c)
                    return c
            from ..loader import clone as _cl
            return _S().visit(_cl(e))
        while changed:
            changed = False
            for a in ast.walk(fi.node):
                if isinstance(a, ast.Assign) and len(a.targets) == 1 and isinstance(a.targets[0], ast.Name) and a.targets[0].id not in tainted:
                    sv_ = strip_hints(a.value)
                    if isinstance(sv_, (ast.ListComp, ast.GeneratorExp)) and isinstance(sv_.elt, ast.Name) and sv_.elt.id == "__wire__":
                        continue      # a list of fresh witnesses, one per element of a list of hints: wires
                    if reads_value(sv_) and not (isinstance(a.value, ast.Call) and norm(a.value.func).split(".")[-1] in alloc):
                        # a list of hints ([PrivValBool(f(v)) for ..]) is a list of wires
                        tainted.add(a.targets[0].id)
                        changed = True
        for c in ast.walk(fi.node):
            if not isinstance(c, ast.Call) or any(isinstance(p_, ast.Raise) for p_ in parents(c)):
                continue
            ops = []
            if isinstance(c.func, ast.Attribute) and c.func.attr in gadget_attrs:
                ops = [c.func.value] + [a for a in c.args]
            elif norm(c.func).split(".")[-1] in ("add_constraint", "add_constraint_unsafe") and not norm(c.func).startswith("backend."):
                ops = list(c.args[:3])
            if not ops:
                continue
            n += 1
            bad = [o for o in ops if reads_value(strip_hints(o)) and not (isinstance(o, ast.Name) and o.id in fi.params)]
            # width arguments (`bits`) are public numbers, not values
            bad = [o for o in bad if not (isinstance(o, ast.Name) and o.id in WIDTH_PARAMS)]
            term = "%s: %s" % (name, norm(c)[:90])
            if bad:
                rule.violation(fi.loc(c), fi.fq, term, "the operand `%s` of this gadget contains a trace-time value: the circuit gets this "
                               "run's number as a constant instead of the wire, so it does not enforce the declared relation for another "
                               "assignment of that wire" % norm(bad[0])[:60], "%s/value-in-gadget/%s" % (fi.qual, norm(bad[0])[:30]))
            else:
                rule.ok(fi.loc(c), fi.fq, term, "gadget operands are wire expressions")
    return n


def rule_booleanity(repo, rule):
    ci = repo.cls("pysnark.boolean", "LinCombBool")
    init = ci.methods["__init__"]
    lc = init.params[1]
    flag = init.params[2] if len(init.params) > 2 else None
    emits = [c for c in ast.walk(init.node) if isinstance(c, ast.Call) and norm(c.func).split(".")[-1] in ("add_constraint", "add_constraint_unsafe") and not norm(c.func).startswith("backend.") and len(c.args) >= 3]
    where = init.loc()
    if not emits:
        rule.violation(where, init.fq, "no add_constraint", "declaring a Boolean emits no booleanity constraint", "init/none")
    else:
        c = emits[0]
        x = P.sym("x")
        env = {lc: x, "LinComb.ZERO": P(), "LinComb.ONE": P.const(1)}
        v, w, y = (poly_of(a, env, strict=True) for a in c.args[:3])
        if v is not None and w is not None and y is not None and v * w - y in (x - x * x, x * x - x):
            gov = [p for p in parents(c) if isinstance(p, ast.If)]
            okgov = all(norm(g.test) == flag for g in gov)
            if okgov and any(kw.arg == "check" and norm(kw.value) == "False" for kw in c.keywords) is False:
                rule.ok(init.loc(c), init.fq, norm(c), "x*(1-x) = 0 on the default path")
            else:
                rule.violation(init.loc(c), init.fq, norm(c), "booleanity constraint is governed by something other than the "
                               "`%s` flag or emitted unchecked" % flag, "init/gov")
        else:
            rule.violation(init.loc(c), init.fq, norm(c), "constraint emitted on declaration is not x*(1-x) = 0", "init/poly")
        d = init.param_default(flag) if flag else None
        if d is not None and norm(d) == "True":
            rule.ok(where, init.fq, "%s defaults to True" % flag)
        else:
            rule.violation(where, init.fq, "default %s" % (norm(d) if d is not None else None), "constraining is not the default", "init/default")
    m = repo.module("pysnark.boolean")
    for fn in ("PubValBool", "PrivValBool"):
        fi = m.functions.get(fn)
        if fi is None:
            raise AnalysisError("%s not found" % fn)
        cons = [c for c in ast.walk(fi.node) if isinstance(c, ast.Call) and norm(c.func) == "LinCombBool"]
        bad = [c for c in cons if len(c.args) > 1 or c.keywords]
        if cons and not bad:
            rule.ok(fi.loc(), fi.fq, norm(cons[0]), "constraining constructor")
        else:
            rule.violation(fi.loc(), fi.fq, norm(cons[0]) if cons else "no constructor", "%s does not go through the constraining "
                           "constructor" % fn, "%s/unconstrained" % fn)
    eb = ci.methods["_ensurebool"]
    cons = [c for c in ast.walk(eb.node) if isinstance(c, ast.Call) and norm(c.func) == "LinCombBool"]
    bad = [c for c in cons if len(c.args) > 1 or c.keywords]
    if cons and not bad:
        rule.ok(eb.loc(), eb.fq, "; ".join(norm(c) for c in cons), "conversion to Boolean constrains")
    else:
        rule.violation(eb.loc(), eb.fq, "; ".join(norm(c) for c in cons), "_ensurebool converts without the booleanity constraint",
                       "_ensurebool/unconstrained")


def rule_symmetry(repo, rule):
    ci = repo.cls(RT, "LinComb")
    for name, fi in sorted(assertion_methods(ci).items()):
        gad = gadget_calls(fi) or [c for c in ast.walk(fi.node) if isinstance(c, ast.Call) and (
            norm(c.func).split(".")[-1] in ("add_constraint", "add_constraint_unsafe") or (isinstance(c.func, ast.Attribute) and c.func.attr == "to_bits"))]
        if not gad:
            rule.undecided(fi.loc(), fi.fq, name, "no gadget call found")
            continue
        cfg = CFG(fi.node)
        gn = {n for n in range(cfg.n) if cfg.stmt[n] is not None and any(
            c in gad for c in calls_in(own_stmt_part(cfg.stmt[n], cfg.kind[n])))}
        ok_all = True
        alternatives = 0
        none_at_all = cfg.exit in cfg.reach_avoiding(cfg.entry, set(gn))
        for g in sorted(gn):
            reach = cfg.reach_avoiding(cfg.entry, {g})
            if cfg.exit not in reach:
                continue
            # a completing path avoids this statement.  That is an alternative implementation when what decides between them is
            # public structure (operand kinds, constant bounds, whether a guard is installed) and the other side enforces
            # too; it is suppression when the deciding test is about error checking, the guard's value or a wire's value.
            # deciding tests: branch points that lie on a completing path avoiding g and from which g is still reachable
            def from_incl(a, avoid):
                return set() if a in avoid else ({a} | cfg.reach_avoiding(a, avoid))
            deciding = []
            for n in reach | {cfg.entry}:
                if cfg.kind[n] != "test":
                    continue
                succs = {b for b, lab in cfg.succ[n] if lab != "exc"}
                can_avoid = any(cfg.exit in from_incl(b, {g}) for b in succs)
                must_pass = any(g in from_incl(b, set()) and cfg.exit not in from_incl(b, {g}) for b in succs)
                if can_avoid and must_pass:
                    deciding.append(n)
            toks = ("ignore_errors()", "is_guard()", ".value")
            secret = [n for n in deciding if any(k in norm(cfg.stmt[n].test) for k in toks)]
            if none_at_all or secret:
                ok_all = False
                rule.violation(fi.loc(cfg.stmt[g]), fi.fq, cfg.describe(g), "a completing path skips this in-circuit enforcement "
                               "(e.g. it is suppressed together with the run-time check)", "%s/skip/%s" % (fi.qual, norm(cfg.stmt[g])[:40]))
            else:
                alternatives += 1
        if ok_all:
            rule.ok(fi.loc(), fi.fq, "%d enforcement statement(s); every completing path passes one%s" % (
                len(gn), " (%d are alternatives chosen by public structure)" % alternatives if alternatives else ""))
        # the run-time checks are suppressible
        for t in raise_tests(fi):
            if ".value" not in norm(t.test):
                continue
            sup = "ignore_errors()" in norm(t.test) or any(
                isinstance(p, ast.If) and "ignore_errors()" in norm(p.test) for p in parents(t))
            ladder = any(isinstance(p, ast.If) and "is_guard()" in norm(p.test) for p in parents(t))
            if sup or ladder:
                rule.ok(fi.loc(t), fi.fq, "check `%s` suppressed by ignore_errors()" % norm(t.test)[:60])
            else:
                rule.violation(fi.loc(t), fi.fq, norm(t.test), "run-time check is not suppressible", "%s/unsup" % fi.qual)


class _NoEval(Exception):
    pass


def _ceval(n, env):
    """Constant evaluation of a pure integer expression over the names bound in env (texts -> ints)."""
    t = norm(n)
    if t in env:
        return env[t]
    if isinstance(n, ast.Constant) and isinstance(n.value, (int, bool)):
        return n.value
    if isinstance(n, ast.BinOp):
        a, b = _ceval(n.left, env), _ceval(n.right, env)
        ops = {ast.Add: lambda: a + b, ast.Sub: lambda: a - b, ast.Mult: lambda: a * b, ast.BitAnd: lambda: a & b,
               ast.BitOr: lambda: a | b, ast.BitXor: lambda: a ^ b, ast.FloorDiv: lambda: a // b, ast.Mod: lambda: a % b}
        if type(n.op) in ops:
            try:
                return ops[type(n.op)]()
            except ZeroDivisionError:
                raise _NoEval("division by zero in %s" % t)
        if isinstance(n.op, ast.LShift) and 0 <= b <= 64:
            return a << b
        if isinstance(n.op, ast.RShift) and 0 <= b:
            return a >> b
        if isinstance(n.op, ast.Pow) and 0 <= b <= 64 and abs(a) <= 16:
            return a ** b
        raise _NoEval(t)
    if isinstance(n, ast.UnaryOp):
        a = _ceval(n.operand, env)
        if isinstance(n.op, ast.USub):
            return -a
        if isinstance(n.op, ast.Invert):
            return ~a
        if isinstance(n.op, ast.Not):
            return not a
        raise _NoEval(t)
    if isinstance(n, ast.BoolOp):
        vals = [_ceval(v, env) for v in n.values]
        return all(vals) if isinstance(n.op, ast.And) else any(vals)
    if isinstance(n, ast.Compare):
        items = [_ceval(x, env) for x in [n.left] + list(n.comparators)]
        cmp = {ast.Eq: lambda x, y: x == y, ast.NotEq: lambda x, y: x != y, ast.Lt: lambda x, y: x < y, ast.LtE: lambda x, y: x <= y,
               ast.Gt: lambda x, y: x > y, ast.GtE: lambda x, y: x >= y}
        for k, op in enumerate(n.ops):
            if type(op) not in cmp:
                raise _NoEval(t)
            if not cmp[type(op)](items[k], items[k + 1]):
                return False
        return True
    if isinstance(n, ast.Call) and isinstance(n.func, ast.Attribute) and n.func.attr == "bit_length" and not n.args:
        return int(_ceval(n.func.value, env)).bit_length()
    raise _NoEval(t)



def modulus_checks(un):
    """[(call, name)]: gadget calls in `un` that enforce  <name> < self.mod  for a local <name>, however spelled:
    name.assert_lt(self.mod), name.assert_le(self.mod - 1), (self.mod - 1 - name).assert_positive(w), ...  A width given to
    assert_positive must be the packer's own bitlen() (every value of [0, mod) fits, so nothing honest is refused)."""
    from ..relations import rel
    from ..flatten import resolve_locals as _rl
    out = []
    M = P.sym("__mod__")
    CMP = {"assert_lt": ast.Lt(), "assert_le": ast.LtE(), "assert_gt": ast.Gt(), "assert_ge": ast.GtE()}
    for x in ast.walk(un.node):
        if not (isinstance(x, ast.Call) and isinstance(x.func, ast.Attribute)):
            continue
        env = {"self.mod": M}
        r = None
        if x.func.attr in CMP and len(x.args) >= 1:
            a, b = poly_of(x.func.value, env, strict=True), poly_of(x.args[0], env, strict=True)
            if a is not None and b is not None:
                r = rel(CMP[x.func.attr], a, b)
        elif x.func.attr == "assert_positive":
            wd = x.args[0] if x.args else next((k.value for k in x.keywords if k.arg == "bits"), None)
            if wd is not None and norm(_rl(un.node, wd)) != "self.bitlen()":
                continue
            r = gadget_relation(x, env)
        if r is None or r[0] != ">=0":
            continue
        names = [s for s in r[1].symbols() if s != "__mod__"]
        if len(names) == 1 and r[1] == M - P.sym(names[0]) - 1:
            out.append((x, names[0]))
    return out


def rule_pack_unpack(repo, r6):
    """secret bounded integers are range-checked on unpack (also used by C16)"""
    pk = repo.cls("pysnark.pack", "PackIntMod")
    un = pk.methods["unpack"]
    mc = modulus_checks(un)
    c = [x for x, _nm in mc]
    if c:
        rets = [n for n in ast.walk(un.node) if isinstance(n, ast.Return)]
        recv = mc[0][1]
        if any(norm(r.value) == recv for r in rets):
            r6.ok(un.loc(c[0]), un.fq, norm(c[0]), "the value returned is the value range-checked against the modulus")
        else:
            r6.violation(un.loc(c[0]), un.fq, norm(c[0]), "range check is applied to a value other than the one returned", "pack/recv")
        # the check may be skipped only for moduli whose every bitlen()-bit pattern is in range (mod == 2^bitlen):
        # tests governing it (other than the operand-kind dispatch) are evaluated over all small moduli
        gov = []
        for g in parents(c[0]):
            if g is un.node:
                break
            if isinstance(g, ast.If) and "isinstance" not in norm(g.test):
                inbody = any(c[0] is x for st in g.body for x in ast.walk(st))
                gov.append((g.test, inbody))
            elif isinstance(g, (ast.For, ast.While, ast.Try, ast.With, ast.IfExp)):
                gov.append((None, True))
        # early returns ahead of the check skip it just as well
        from ..loader import precedes
        from ..flatten import resolve_locals as _rl
        for g in ast.walk(un.node):
            if isinstance(g, ast.If) and "isinstance" not in norm(g.test) and not any(c[0] is x for x in ast.walk(g)) \
                    and not g.orelse and g.body and isinstance(g.body[-1], ast.Return) and precedes(un.node, g, c[0]):
                gov.append((g.test, False))
        gov = [(_rl(un.node, t) if t is not None else None, pol) for t, pol in gov]
        if gov:
            bl = pk.methods.get("bitlen")
            blret = [n.value for n in ast.walk(bl.node) if isinstance(n, ast.Return)] if bl is not None else []
            verdict = None
            witness = None
            for mod in range(1, 1100):
                try:
                    envv = {"self.mod": mod}
                    if blret:
                        envv["self.bitlen()"] = _ceval(blret[0], envv)
                    run = all(t is not None and bool(_ceval(t, envv)) == pol for t, pol in gov)
                except _NoEval as e:
                    verdict = "undecided: %s" % e
                    break
                need = mod != (1 << (mod - 1).bit_length())
                if need and not run:
                    witness = mod
                    break
            term = " and ".join(("" if pol else "not ") + (norm(t) if t is not None else "<loop/try>") for t, pol in gov)
            if witness is not None:
                r6.violation(un.loc(c[0]), un.fq, "assert_lt(self.mod) only if %s" % term, "the range check is skipped for mod = %d "
                             "although %d-bit patterns >= %d exist: such a value is accepted and emits no comparison" % (
                                 witness, (witness - 1).bit_length(), witness), "pack/skipped")
            elif verdict:
                r6.undecided(un.loc(c[0]), un.fq, "assert_lt(self.mod) only if %s" % term, verdict)
            else:
                r6.ok(un.loc(c[0]), un.fq, "assert_lt(self.mod) only if %s" % term, "evaluated for mod = 1..1099: skipped only when mod == 2^bitlen")
    else:
        r6.violation(un.loc(), un.fq, norm(un.node.body)[:120], "secret value unpacked without a range check against self.mod "
                     "(`assert_lt(self.mod)` or an equivalent comparison gadget)", "pack/none")


def check(repo, rep, tier):
    rep.explanation = ("Each assertion method contains both sides of the comparison the property is about: the run-time "
                       "check `if A op B: raise` is negated and normalised to a canonical affine relation over the symbols "
                       "<self>, <other>, ... and compared with the relation the gadget call enforces (E >= 0, E == 0, E != 0). "
                       "Width parameters are followed from the check into the gadget call; wrappers are checked for "
                       "name-for-name delegation with both operands converted; the booleanity constraint is recognised as "
                       "the polynomial x(1-x).")
    rep.trusted = ["integer semantics of <, <=, ==", "assert_positive enforces E >= 0 (at its width), assert_zero E == 0, "
                   "assert_nonzero E != 0 (soundness of the gadgets is C02)"]
    rep.not_decided = ["soundness of the primitive gadgets themselves (C02)"]
    r1 = rep.rule("R-C03-1", "run-time check and gadget state the same relation", floor=7)
    rule_agreement(repo, r1)
    r2 = rep.rule("R-C03-2", "width argument reaches the gadget", floor=4)
    rule_width(repo, r2)
    r3 = rep.rule("R-C03-3", "Boolean / fixed-point wrappers delegate name-for-name with converted operands", floor=18)
    rule_delegation(repo, r3)
    r4 = rep.rule("R-C03-4", "booleanity is constrained on declaration", floor=5)
    rule_booleanity(repo, r4)
    r5 = rep.rule("R-C03-5", "checks are suppressible, gadgets are not", floor=14)
    rule_symmetry(repo, r5)
    # packing: range check on unpack of secret values
    r7 = rep.rule("R-C03-7", "declarations and assertions are enforced at every call: no 'already constrained' state skips them", floor=4)
    from .memoryless import rule_memoryless
    rule_memoryless(repo, r7)
    r8 = rep.rule("R-C03-8", "the enforced relation is stated over wires: no trace-time value of an operand is folded into a gadget operand", floor=10)
    rule_wires_only(repo, r8)
    r6 = rep.rule("R-C03-6", "packing: secret bounded integers are range-checked on unpack", floor=1)
    rule_pack_unpack(repo, r6)
