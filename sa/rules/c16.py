"""C16 - bit decomposition and packing at the requested width.

R-C16-1  width forwarding: the width parameter governs run-time test, number of bits built and the gadget call
R-C16-2  decomposition obligations: constrained Boolean bits, recomposition equality on every path, weights 2^i
         paired with bit i
R-C16-3  packer length algebra: len(pack(v)) == bitlen(), unpack consumes bitlen() positions from `pos`
R-C16-4  range checks: plain values rejected outside [0, mod) on pack, secret values range-checked on unpack
"""
import ast

from ..cfg import CFG, calls_in, own_stmt_part
from ..loader import norm, AnalysisError, parents, precedes as _precedes
from ..poly import P, poly_of
from ..relations import relations_when_false, show
from .c03 import rule_width

RT = "pysnark.runtime"
PK = "pysnark.pack"


def zero_asserted(n):
    """the expression a call forces to zero, or None:  D.assert_zero()  |  add_constraint[_unsafe](0, x, D) / (x, 0, D)
    |  a.assert_eq(b)  (D = a - b)"""
    if isinstance(n.func, ast.Attribute) and n.func.attr == "assert_zero":
        return n.func.value
    if isinstance(n.func, ast.Attribute) and n.func.attr == "assert_eq" and len(n.args) >= 1:
        return ast.BinOp(left=n.func.value, op=ast.Sub(), right=n.args[0])
    if norm(n.func).split(".")[-1] in ("add_constraint", "add_constraint_unsafe") and len(n.args) >= 3 \
            and not norm(n.func).startswith("backend.") and any(
            norm(a) in ("LinComb.ZERO", "0", "runtime.LinComb.ZERO") for a in n.args[:2]):
        return n.args[2]
    return None


def rule_decomposition(repo, rule):
    tb = repo.fn(RT, "LinComb.to_bits")
    fb = repo.fn(RT, "LinComb.from_bits")
    comps = [n for n in ast.walk(tb.node) if isinstance(n, ast.ListComp)]
    built = [c for c in comps if isinstance(c.elt, ast.Call)]
    if not built:
        rule.violation(tb.loc(), tb.fq, "no bit construction", "to_bits builds no bits", "to_bits/none")
        return
    c = built[0]
    ctor = norm(c.elt.func)
    if ctor.split(".")[-1] == "PrivValBool":
        rule.ok(tb.loc(c), tb.fq, norm(c)[:100], "every bit is allocated through the constraining Boolean constructor")
    else:
        rule.violation(tb.loc(c), tb.fq, norm(c)[:100], "bits are not built by the constraining Boolean constructor "
                       "(a prover could use non-Boolean 'bits')", "to_bits/ctor")
    # the bit expression is bit ix of self.value
    g = c.generators[0]
    ix = norm(g.target)
    arg = norm(c.elt.args[0]) if c.elt.args else ""
    s_ = tb.params[0]
    forms = {"(%s.value & 1 << %s) >> %s" % (s_, ix, ix), "%s.value >> %s & 1" % (s_, ix), "(%s.value >> %s) & 1" % (s_, ix)}
    if arg in forms and not g.ifs:
        rule.ok(tb.loc(c), tb.fq, "bit %s hint: %s" % (ix, arg))
    else:
        rule.violation(tb.loc(c), tb.fq, "bit hint: %s" % arg, "bit i is not hinted with bit i of the value", "to_bits/hint")
    # values outside 0 <= v < 2^n are rejected: on every honest path (errors not ignored) the checks that dominate the bit
    # construction imply the bound (interval reasoning of sa/hints.py over the dominating comparisons)
    from ..hints import Valuer, paths_to, pre_assume, replay, Refuted, Undecidable, NeedCase, Contradiction
    from ..poly import P as _P
    verdict = []
    for path in paths_to(tb.node, c):
        if any(norm(t) == "ignore_errors()" and pol for t, pol in path.conds):
            continue
        from ..hints import all_cases

        def assumptions(path=path):
            v = Valuer({p_: _P.sym("self" if p_ == s_ else p_) for p_ in tb.params})
            v.assume(ast.parse("ignore_errors()", mode="eval").body, False)
            pre_assume(v, path)
            return v

        def build(v, path=path):
            replay(v, path)
            lb = v.bits_idiom(c)
            if lb is None:
                raise Undecidable("bit construction not recognised")
            return _P()
        for _desc, res, _v in all_cases(build, assumptions):
            if isinstance(res, str):
                verdict.append("no: " + res[len("refuted: "):] if res.startswith("refuted") else "unknown")
            else:
                verdict.append("yes")
    bad_ = [x for x in verdict if x.startswith("no")]
    if bad_:
        rule.violation(tb.loc(c), tb.fq, norm(c)[:100], "a value outside 0 <= v < 2^n reaches the bit decomposition when errors are "
                       "not ignored: " + bad_[0][4:], "to_bits/range")
    elif verdict and all(x == "yes" for x in verdict):
        rule.ok(tb.loc(c), tb.fq, "the dominating run-time test implies 0 <= value < 2^n on %d path(s)" % len(verdict))
    else:
        rule.undecided(tb.loc(c), tb.fq, norm(c)[:100], "range of the decomposed value not derivable from the dominating tests")
    # recomposition equality on every path to return
    target = None
    bitsvar = norm(built[0]._parent.targets[0]) if isinstance(getattr(built[0], "_parent", None), ast.Assign) else None
    from ..flatten import resolve_locals as _rl16

    for n in ast.walk(tb.node):
        if isinstance(n, ast.Call):
            e = zero_asserted(n)
            if e is None:
                continue
            e = _rl16(tb.node, e, copies_only=True)
            if isinstance(e, ast.BinOp) and isinstance(e.op, ast.Sub):
                sides = {norm(e.left), norm(e.right)}
                if s_ in sides and any(x.endswith("from_bits(%s)" % bitsvar) for x in sides):
                    target = n
    if target is None:
        rule.violation(tb.loc(), tb.fq, "no (self - from_bits(bits)).assert_zero()", "the bits are not tied to the value by a "
                       "recomposition equality", "to_bits/recompose")
    else:
        cfg = CFG(tb.node)
        tn = {n for n in range(cfg.n) if cfg.stmt[n] is not None and target in calls_in(own_stmt_part(cfg.stmt[n], cfg.kind[n]))}
        reach = cfg.reach_avoiding(cfg.entry, tn)
        if cfg.exit in reach:
            rule.violation(tb.loc(target), tb.fq, norm(target), "a completing path skips the recomposition equality", "to_bits/skip")
        else:
            rule.ok(tb.loc(target), tb.fq, norm(target), "on every completing path")
        rets = [n for n in ast.walk(tb.node) if isinstance(n, ast.Return)]
        if all(norm(r.value) == bitsvar for r in rets):
            rule.ok(tb.loc(rets[0]), tb.fq, "returns the constrained bits")
        else:
            rule.violation(tb.loc(rets[0]), tb.fq, norm(rets[0]), "returns something other than the constrained bits", "to_bits/ret")
    # from_bits: sum(bit_i * 2^i) with i from enumerate
    rets = [n for n in ast.walk(fb.node) if isinstance(n, ast.Return)]
    ok = False
    if rets and isinstance(rets[0].value, ast.Call) and norm(rets[0].value.func) == "sum" and rets[0].value.args:
        comp = rets[0].value.args[0]
        if isinstance(comp, (ast.ListComp, ast.GeneratorExp)) and len(comp.generators) == 1 and not comp.generators[0].ifs:
            g = comp.generators[0]
            if norm(g.iter) == "enumerate(%s)" % fb.params[-1] and isinstance(g.target, ast.Tuple) and len(g.target.elts) == 2:
                i, b = norm(g.target.elts[0]), norm(g.target.elts[1])
                if norm(comp.elt) in ("%s * (1 << %s)" % (b, i), "(1 << %s) * %s" % (i, b), "%s * 2 ** %s" % (b, i), "%s << %s" % (b, i),
                                      "2 ** %s * %s" % (i, b)):
                    ok = True
    if not ok:
        ok = _accumulator_weights(fb)
    if ok:
        rule.ok(fb.loc(), fb.fq, norm(rets[0].value), "bit i weighted by 2^i (same index from enumerate)")
    else:
        rule.violation(fb.loc(), fb.fq, norm(rets[0].value) if rets else "", "recomposition does not weight bit i by 2^i", "from_bits/weights")


def _accumulator_weights(fb):
    """from_bits written as a loop with running totals: in one iteration over (i, bit) of enumerate(bits), on every path
    through the body, whatever is added to a running total on account of the bit is  bit * 2^i  - nothing else mentions the
    bit (terms without the bit, e.g. a constant carried over, are not this rule's business).  The totals are what is returned."""
    from ..seqs import seq_of
    from ..hints import Valuer, paths_to, all_cases, pre_assume, replay, Undecidable
    from ..poly import P as _P
    from ..loader import clone
    bitsp = fb.params[-1]
    loops = [s for s in fb.node.body if isinstance(s, ast.For)]
    if len(loops) != 1:
        return False
    lp = loops[0]
    sq = seq_of(lp.iter, lp, 0)
    if sq is None or sq.base != bitsp or sq.rev or norm(sq.elt) != "(__i0, __e0)" or not isinstance(lp.target, ast.Tuple) \
            or len(lp.target.elts) != 2 or not all(isinstance(t, ast.Name) for t in lp.target.elts):
        return False
    iv, bv = lp.target.elts[0].id, lp.target.elts[1].id
    body = [clone(s) for s in lp.body]

    class _C(ast.NodeTransformer):
        def visit_Continue(self, n):
            return ast.copy_location(ast.Return(value=None), n)

        def visit_For(self, n):
            return n

        def visit_While(self, n):
            return n
    body = [_C().visit(s) for s in body] + [ast.Return(value=None)]
    fn = ast.FunctionDef(name="_iteration", args=ast.arguments(posonlyargs=[], args=[], kwonlyargs=[], kw_defaults=[], defaults=[]),
                         body=body, decorator_list=[])
    ast.fix_missing_locations(fn)
    for n in ast.walk(fn):
        for c in ast.iter_child_nodes(n):
            c._parent = n
    assigned = {x.id for s in lp.body for x in ast.walk(s) if isinstance(x, ast.Name) and not isinstance(x.ctx, ast.Load)} - {bv}
    rets = [n for n in ast.walk(fb.node) if isinstance(n, ast.Return) and n.value is not None]
    returned = {x.id for r in rets for x in ast.walk(r.value) if isinstance(x, ast.Name)}
    totals = assigned & returned
    if not totals:
        return False
    seen = 0
    for r in [n for n in ast.walk(fn) if isinstance(n, ast.Return)]:
        for path in paths_to(fn, r):
            def assumptions(path=path):
                env = {t: _P.sym("pre_" + t) for t in assigned}
                env[bv] = _P.sym("bit")
                env[iv] = _P.sym("i")
                v = Valuer(env)
                pre_assume(v, path)
                return v

            def build(v, path=path):
                replay(v, path)
                bad = _P()
                for t in sorted(totals):
                    cur = v.env.get(t)
                    if not isinstance(cur, _P):
                        raise Undecidable("total %s" % t)
                    d = cur - _P.sym("pre_" + t)
                    # the part of the update that mentions the bit must be bit * 2^i exactly (or absent)
                    part = _P({m: c for m, c in d.t.items() if any(s == "bit" or "bit" in s.split("(")[-1] for s, _e in m)})
                    if not part.is_zero() and part != _P.sym("bit") * _P.sym("pow2(i)"):
                        bad = bad + part + _P.sym("wrong_weight_in_%s" % t)
                return bad
            for _d, res, _v in all_cases(build, assumptions):
                seen += 1
                if isinstance(res, str) or not res.is_zero():
                    return False
    return seen > 0


def method(ci, name):
    f = ci.methods.get(name)
    if f is None:
        raise AnalysisError("%s.%s not found" % (ci.name, name))
    return f


def ret_exprs(fi):
    """returned expressions, with single-assignment locals substituted (`lengths = [...]; return sum(lengths)`)"""
    from ..flatten import resolve_locals, _Subst
    from ..hints import paths_to
    from ..loader import clone
    out, seen = [], set()
    for n in ast.walk(fi.node):
        if not (isinstance(n, ast.Return) and n.value is not None) or any(
                isinstance(p, (ast.FunctionDef, ast.Lambda)) and p is not fi.node for p in parents(n)):
            continue
        e0 = resolve_locals(fi.node, n.value)
        cands = [e0]
        nassign = {}
        for a_ in ast.walk(fi.node):
            if isinstance(a_, ast.Assign) and len(a_.targets) == 1 and isinstance(a_.targets[0], ast.Name):
                nassign[a_.targets[0].id] = nassign.get(a_.targets[0].id, 0) + 1
        if isinstance(e0, ast.Name) and nassign.get(e0.id, 0) >= 2:
            # a local bound on several paths (`if c: r = A else: r = B; return r`): the value on each path
            for path in paths_to(fi.node, n):
                env = {}
                for st in path.steps:
                    if st[0] == "assign" and st[1] not in fi.params:
                        env[st[1]] = _Subst(env).visit(clone(st[2])) if env else st[2]
                if env:
                    cands.append(_Subst(env).visit(clone(n.value)))
            if len(cands) > 1:
                cands = cands[1:]
        for e in cands:
            if norm(e) not in seen:
                seen.add(norm(e))
                out.append(e)
    return out


def prefix_sum_generator(m, name):
    """True when module function `name(seq, start[=0])` yields, for the elements x of seq in order, the running offsets
    start, start + x0.bitlen(), start + x0.bitlen() + x1.bitlen(), ...   (for x in seq: yield start; start += x.bitlen())"""
    f = m.functions.get(name)
    if f is None or not isinstance(f.node, ast.FunctionDef) or len(f.params) != 2:
        return False
    seqp, startp = f.params
    body = [s for s in f.node.body if not (isinstance(s, ast.Expr) and isinstance(s.value, ast.Constant))]
    if len(body) != 1 or not isinstance(body[0], ast.For) or norm(body[0].iter) != seqp or not isinstance(body[0].target, ast.Name) \
            or body[0].orelse or len(body[0].body) != 2:
        return False
    x = body[0].target.id
    y, adv = body[0].body
    return isinstance(y, ast.Expr) and isinstance(y.value, ast.Yield) and y.value.value is not None and norm(y.value.value) == startp \
        and isinstance(adv, ast.AugAssign) and isinstance(adv.op, ast.Add) and norm(adv.target) == startp and norm(adv.value) == "%s.bitlen()" % x


def zipped_layout(m, fi, comp, bitsp):
    """(sequence text, start text) for  [c.unpack(bits, st) for c, st in zip(S, G(S, start))]  with G a prefix-sum generator:
    element k of S is unpacked at start + the bit lengths of the elements before it"""
    from ..flatten import resolve_locals as _rlz
    if not (isinstance(comp, ast.ListComp) and len(comp.generators) == 1 and not comp.generators[0].ifs):
        return None
    g = comp.generators[0]
    if not (isinstance(g.target, ast.Tuple) and len(g.target.elts) == 2 and all(isinstance(t, ast.Name) for t in g.target.elts)):
        return None
    c_, st_ = g.target.elts[0].id, g.target.elts[1].id
    it = g.iter
    if not (isinstance(it, ast.Call) and norm(it.func) == "zip" and len(it.args) == 2 and isinstance(it.args[1], ast.Call)
            and isinstance(it.args[1].func, ast.Name) and len(it.args[1].args) == 2 and not it.args[1].keywords):
        return None
    S, S2, start = it.args[0], it.args[1].args[0], it.args[1].args[1]
    if norm(_rlz(fi.node, S)) != norm(_rlz(fi.node, S2)) or not prefix_sum_generator(m, it.args[1].func.id):
        return None
    e = comp.elt
    if not (isinstance(e, ast.Call) and norm(e.func) == "%s.unpack" % c_ and [norm(a) for a in e.args] == [bitsp, st_] and not e.keywords):
        return None
    return norm(_rlz(fi.node, S)), norm(start)


def rule_packers(repo, rule, rule4):
    m = repo.module(PK)
    # ---- PackBool
    pb = repo.cls(PK, "PackBool")
    bl = ret_exprs(method(pb, "bitlen"))
    pk = ret_exprs(method(pb, "pack"))
    un = ret_exprs(method(pb, "unpack"))
    ok = bl and norm(bl[0]) == "1"
    lens = []
    for e in pk:
        for arm in ([e.body, e.orelse] if isinstance(e, ast.IfExp) else [e]):
            lens.append(len(arm.elts) if isinstance(arm, ast.List) else None)
    upar = method(pb, "unpack").params
    if ok and all(x == 1 for x in lens) and un and norm(un[0]) == "%s[%s]" % (upar[1], upar[2]):
        rule.ok("%s:%s" % (m.relpath, pb.node.lineno), pb.fq, "bitlen 1; pack -> 1 element; unpack reads bits[pos]")
    else:
        rule.violation("%s:%s" % (m.relpath, pb.node.lineno), pb.fq, "bitlen %s pack lens %s unpack %s" % (
            norm(bl[0]) if bl else None, lens, norm(un[0]) if un else None), "PackBool does not pack to / unpack from exactly one "
            "position", "PackBool/len")
    # ---- PackIntMod
    pi = repo.cls(PK, "PackIntMod")
    blf, pkf, unf = method(pi, "bitlen"), method(pi, "pack"), method(pi, "unpack")
    env = {"self.mod": P.sym("mod")}
    calls = {"bit_length": None}

    def width(e):
        """polynomial-ish canonical text of a width expression: (X).bit_length() -> 'BL(<poly of X>)'"""
        if isinstance(e, ast.Call) and isinstance(e.func, ast.Attribute) and e.func.attr == "bit_length" and not e.args:
            inner = poly_of(e.func.value, env, strict=True)
            return "BL(%s)" % inner if inner is not None else None
        if isinstance(e, ast.Call) and norm(e.func) == "self.bitlen" and not e.args:
            return B
        if isinstance(e, ast.Name):
            # single-assignment local
            for f_ in (pkf, unf):
                for a in ast.walk(f_.node):
                    if isinstance(a, ast.Assign) and norm(a.targets[0]) == e.id:
                        return width(a.value)
        return None
    B = None
    b0 = ret_exprs(blf)
    B = width(b0[0]) if b0 else None
    where = blf.loc()
    if B != "BL(-1 + mod)":
        rule.violation(where, blf.fq, "bitlen = %s" % (norm(b0[0]) if b0 else None), "bit length of a value in [0, mod) must be "
                       "(mod-1).bit_length()", "PackIntMod/bitlen")
    else:
        rule.ok(where, blf.fq, "bitlen = (mod-1).bit_length()")
    widths = []
    for n in ast.walk(pkf.node):
        if isinstance(n, ast.Call) and isinstance(n.func, ast.Attribute) and n.func.attr == "to_bits":
            widths.append(("secret arm to_bits", width(n.args[0]) if n.args else "default", n))
        if isinstance(n, ast.ListComp) and isinstance(n.generators[0].iter, ast.Call) and norm(n.generators[0].iter.func) == "range":
            widths.append(("plain arm range", width(n.generators[0].iter.args[0]), n))
    for label, w, n in widths:
        if w == B and B is not None:
            rule.ok(pkf.loc(n), pkf.fq, "pack %s: width %s == bitlen()" % (label, w))
        else:
            rule.violation(pkf.loc(n), pkf.fq, "pack %s: width %s, bitlen() %s" % (label, w, B), "pack produces a number of bits "
                           "different from bitlen()", "PackIntMod/pack/%s" % label.split()[0])
    if len(widths) < 2:
        rule.violation(pkf.loc(), pkf.fq, "%d width sites" % len(widths), "pack does not cover secret and plain inputs", "PackIntMod/pack/arms")
    bitsp, posp = unf.params[1], unf.params[2]
    slices = [n for n in ast.walk(unf.node) if isinstance(n, ast.Subscript) and norm(n.value) == bitsp and isinstance(n.slice, ast.Slice)]
    for sl in slices:
        lo, hi = sl.slice.lower, sl.slice.upper
        okk = lo is not None and hi is not None and norm(lo) == posp and isinstance(hi, ast.BinOp) and isinstance(hi.op, ast.Add) \
            and norm(hi.left) == posp and width(hi.right) == B
        if okk:
            rule.ok(unf.loc(sl), unf.fq, "unpack reads %s == bits[pos:pos+bitlen()]" % norm(sl))
        else:
            rule.violation(unf.loc(sl), unf.fq, "unpack reads %s" % norm(sl), "unpack does not consume exactly bitlen() positions "
                           "starting at pos", "PackIntMod/unpack/slice")
    # every value returned is computed from such a slice (secret and plain arm alike)
    from ..flatten import resolve_locals as _rl
    urets = [r for r in ast.walk(unf.node) if isinstance(r, ast.Return) and r.value is not None]
    slice_txt = {norm(sl) for sl in slices} | {norm(_rl(unf.node, sl)) for sl in slices}
    unsliced = [r for r in urets if not any(t in norm(_rl(unf.node, r.value)) for t in slice_txt)]
    # `if <bitlen() is 0>: return 0` - the empty slice recomposes to 0: evaluated over the small moduli
    from .c03 import _ceval, _NoEval
    for r in list(unsliced):
        g = getattr(r, "_parent", None)
        if isinstance(r.value, ast.Constant) and r.value.value == 0 and isinstance(g, ast.If) and r in g.body and not g.orelse and b0:
            try:
                ok0 = True
                for mod in range(1, 1100):
                    envv = {"self.mod": mod}
                    envv["self.bitlen()"] = _ceval(b0[0], envv)
                    if bool(_ceval(_rl(unf.node, g.test), envv)) and envv["self.bitlen()"] != 0:
                        ok0 = False
                        break
                if ok0:
                    unsliced.remove(r)
            except _NoEval:
                pass
    if not slices or not urets:
        rule.violation(unf.loc(), unf.fq, "%d slices, %d returns" % (len(slices), len(urets)), "unpack does not read a slice of the "
                       "bit list", "PackIntMod/unpack/arms")
    elif unsliced:
        rule.violation(unf.loc(unsliced[0]), unf.fq, "returns %s" % norm(unsliced[0].value)[:80], "unpack returns a value that is not "
                       "computed from bits[pos:pos+bitlen()]", "PackIntMod/unpack/arms")
    else:
        rule.ok(unf.loc(), unf.fq, "%d return(s), each computed from bits[pos:pos+bitlen()]" % len(urets))
    # plain recomposition weights
    for n in ast.walk(unf.node):
        if isinstance(n, (ast.ListComp, ast.GeneratorExp)) and norm(n.generators[0].iter).startswith("enumerate("):
            t = n.generators[0].target
            i, b = norm(t.elts[0]), norm(t.elts[1])
            if norm(n.elt) in ("(1 << %s) * %s" % (i, b), "%s * (1 << %s)" % (b, i), "%s << %s" % (b, i),
                               "2 ** %s * %s" % (i, b), "%s * 2 ** %s" % (b, i)):
                rule.ok(unf.loc(n), unf.fq, "plain unpack: bit i weighted 2^i")
            else:
                rule.violation(unf.loc(n), unf.fq, norm(n.elt), "plain recomposition does not weight bit i by 2^i", "PackIntMod/unpack/weights")
    # R-C16-4 range check on pack of plain values
    vp = pkf.params[1]
    tests = [n for n in ast.walk(pkf.node) if isinstance(n, ast.If) and n.body and isinstance(n.body[0], ast.Raise)]
    good = False
    for t in tests:
        r = relations_when_false(t.test, {vp: P.sym("v"), "self.mod": P.sym("mod")})
        if r is not None and sorted(map(str, r)) == sorted(map(str, [(">=0", P.sym("v")), (">=0", P.sym("mod") - P.sym("v") - 1)])):
            good = True
            sup = "ignore_errors" in norm(t.test) or any(isinstance(p, ast.If) and "ignore_errors" in norm(p.test) for p in parents(t))
            if sup:
                rule4.violation(pkf.loc(t), pkf.fq, norm(t.test), "range check of a plain value is suppressible", "PackIntMod/pack/sup")
            else:
                rule4.ok(pkf.loc(t), pkf.fq, "accepts exactly %s" % " and ".join(show(x) for x in r))
    if not good:
        rule4.violation(pkf.loc(), pkf.fq, "; ".join(norm(t.test) for t in tests), "plain values outside [0, mod) are not rejected on "
                        "pack", "PackIntMod/pack/range")
    from .c03 import modulus_checks
    c = [x for x, _nm in modulus_checks(unf)]
    if c:
        rule4.ok(unf.loc(c[0]), unf.fq, norm(c[0]), "secret values range-checked on unpack")
    else:
        rule4.violation(unf.loc(), unf.fq, "no assert_lt(self.mod)", "secret values are not range-checked on unpack", "PackIntMod/unpack/range")
    # ---- PackList
    pl = repo.cls(PK, "PackList")
    blf, pkf, unf = method(pl, "bitlen"), method(pl, "pack"), method(pl, "unpack")
    b0 = ret_exprs(blf)
    def _sum_of_children(e):
        if isinstance(e, ast.Call) and norm(e.func) == "sum" and e.args and isinstance(e.args[0], (ast.ListComp, ast.GeneratorExp)):
            c_ = e.args[0]
            g_ = c_.generators[0]
            return len(c_.generators) == 1 and not g_.ifs and norm(g_.iter) == "self.lst" and isinstance(g_.target, ast.Name) \
                and norm(c_.elt) == "%s.bitlen()" % g_.target.id
        return False
    if b0 and _sum_of_children(b0[0]):
        rule.ok(blf.loc(), blf.fq, "bitlen = sum of children's bitlen()")
    else:
        rule.violation(blf.loc(), blf.fq, norm(b0[0]) if b0 else "", "PackList.bitlen is not the sum of its children's lengths", "PackList/bitlen")
    p0 = ret_exprs(pkf)
    t = norm(_rl(pkf.node, p0[0])) if p0 else ""
    if "zip(self.lst, %s)" % pkf.params[1] in t and ".pack(" in t and ("reduce" in t or "sum(" in t or "chain" in t):
        rule.ok(pkf.loc(), pkf.fq, "pack = concatenation of child.pack(v) over zip(self.lst, val)")
    else:
        rule.violation(pkf.loc(), pkf.fq, t[:100], "PackList.pack is not the concatenation of its children's packs in order", "PackList/pack")
    inner = list(unf.children.values())
    okk = False
    bitsp_, posp_ = unf.params[1], unf.params[2]

    def _step_ok(scope_nodes, child):
        adv = [n for n in scope_nodes if isinstance(n, ast.AugAssign) and norm(n.target) == posp_]
        call = [n for n in scope_nodes if isinstance(n, ast.Call) and norm(n.func) == "%s.unpack" % child]
        return bool(adv) and norm(adv[0].value) == "%s.bitlen()" % child and isinstance(adv[0].op, ast.Add) and bool(call) \
            and [norm(a) for a in call[0].args] == [bitsp_, posp_] and not _precedes(unf.node, adv[0], call[0])
    if inner:
        f = inner[0]
        child = f.params[0]
        okk = _step_ok(list(ast.walk(f.node)), child) and any(isinstance(n, ast.Nonlocal) and posp_ in n.names for n in ast.walk(f.node))
        r0 = ret_exprs(unf)
        okk = okk and bool(r0) and "map(%s, self.lst)" % f.name in norm(r0[0])
    else:
        loops_ = [n for n in unf.node.body if isinstance(n, ast.For) and norm(n.iter) == "self.lst" and isinstance(n.target, ast.Name)]
        if loops_:
            lp = loops_[0]
            child = lp.target.id
            app = [n for n in ast.walk(lp) if isinstance(n, ast.Call) and norm(n.func).endswith(".append")]
            okk = _step_ok(list(ast.walk(lp)), child) and bool(app)
            r0 = ret_exprs(unf)
            okk = okk and bool(r0) and app and norm(r0[0]) == norm(app[0].func.value)
    if not okk:
        r0 = [n.value for n in ast.walk(unf.node) if isinstance(n, ast.Return) and n.value is not None]
        zl = zipped_layout(m, unf, r0[0], bitsp_) if len(r0) == 1 else None
        okk = zl == ("self.lst", posp_)
    if okk:
        rule.ok(unf.loc(), unf.fq, "each child unpacks at pos, then pos += child.bitlen(), children in order")
    else:
        rule.violation(unf.loc(), unf.fq, norm(unf.node.body)[:140], "PackList.unpack does not advance the position by each child's "
                       "bitlen()", "PackList/unpack")
    # ---- PackRepeat
    pr = repo.cls(PK, "PackRepeat")
    blf, pkf, unf = method(pr, "bitlen"), method(pr, "pack"), method(pr, "unpack")
    b0 = ret_exprs(blf)
    e = {"self.packer.bitlen()": P.sym("c"), "self.times": P.sym("n")}
    if b0 and poly_of(b0[0], e, strict=True) == P.sym("c") * P.sym("n"):
        rule.ok(blf.loc(), blf.fq, "bitlen = child bitlen * times")
    else:
        rule.violation(blf.loc(), blf.fq, norm(b0[0]) if b0 else "", "PackRepeat.bitlen is not times * child length", "PackRepeat/bitlen")
    p0 = ret_exprs(pkf)
    t = norm(_rl(pkf.node, p0[0])) if p0 else ""
    if "self.packer.pack" in t and pkf.params[1] in t and ("reduce" in t or "sum(" in t or "chain" in t):
        rule.ok(pkf.loc(), pkf.fq, "pack = concatenation of child.pack over the values")
    else:
        rule.violation(pkf.loc(), pkf.fq, t[:100], "PackRepeat.pack is not the concatenation of child packs", "PackRepeat/pack")
    r0 = ret_exprs(unf)
    okk = False
    if r0 and isinstance(r0[0], ast.ListComp):
        comp = r0[0]
        g = comp.generators[0]
        i = norm(g.target)
        le = dict(e)
        for a in ast.walk(unf.node):
            if isinstance(a, ast.Assign) and isinstance(a.targets[0], ast.Name):
                v = poly_of(a.value, e, strict=True)
                if v is not None:
                    le[a.targets[0].id] = v
        le[i] = P.sym("i")
        le[unf.params[2]] = P.sym("pos")
        if isinstance(comp.elt, ast.Call) and norm(comp.elt.func) == "self.packer.unpack" and len(comp.elt.args) == 2 \
                and norm(comp.elt.args[0]) == unf.params[1] and not g.ifs:
            off = poly_of(comp.elt.args[1], le, strict=True)
            cnt = poly_of(g.iter.args[0], le, strict=True) if isinstance(g.iter, ast.Call) and norm(g.iter.func) == "range" and len(g.iter.args) == 1 else None
            okk = off == P.sym("pos") + P.sym("i") * P.sym("c") and cnt == P.sym("n")
            if not okk and isinstance(g.iter, ast.Call) and norm(g.iter.func) == "range" and len(g.iter.args) == 3 and not g.iter.keywords:
                # a strided range(a, b, s): iteration j has i = a + j*s; there are n of them when b - a = n*s (s = child length > 0)
                le0 = dict(le)
                del le0[i]
                a_, b_, s_ = [poly_of(x, le0, strict=True) for x in g.iter.args]
                if a_ is not None and b_ is not None and s_ is not None:
                    le2 = dict(le)
                    le2[i] = a_ + P.sym("i") * s_
                    off2 = poly_of(comp.elt.args[1], le2, strict=True)
                    okk = off2 == P.sym("pos") + P.sym("i") * P.sym("c") and b_ - a_ == P.sym("n") * s_
    if not okk:
        r1_ = [n.value for n in ast.walk(unf.node) if isinstance(n, ast.Return) and n.value is not None]
        zl = zipped_layout(m, unf, r1_[0], unf.params[1]) if len(r1_) == 1 else None
        okk = zl is not None and zl[0].replace(" ", "") in ("[self.packer]*self.times", "self.times*[self.packer]") and zl[1] == unf.params[2]
    if okk:
        rule.ok(unf.loc(), unf.fq, "element i unpacked at pos + i*child.bitlen(), i < times")
    else:
        rule.violation(unf.loc(), unf.fq, norm(r0[0])[:120] if r0 else "", "PackRepeat.unpack stride/count is not child.bitlen() / times",
                       "PackRepeat/unpack")


def check(repo, rep, tier):
    rep.explanation = ("Width dataflow (parameter -> run-time test, number of bits, gadget call), must-pass-through of the "
                       "recomposition equality in to_bits, and an abstract interpretation of list lengths / offsets in the "
                       "four packer classes (symbolic widths compared as canonical terms).")
    rep.trusted = ["(mod-1).bit_length() bits represent [0, mod)"]
    rep.not_decided = ["the round-trip equality itself over all values (value semantics)"]
    r1 = rep.rule("R-C16-1", "the width argument is the width enforced", floor=4)
    rule_width(repo, r1)
    r2 = rep.rule("R-C16-2", "decomposition obligations of to_bits / from_bits", floor=5)
    rule_decomposition(repo, r2)
    r5 = rep.rule("R-C16-5", "the global bitlength is read at call time (widths independent of import-time state)", floor=1)
    from .c14 import config_read_at_call_time
    config_read_at_call_time(repo, r5, RT, "bitlength", "default width")
    r3 = rep.rule("R-C16-3", "packer length algebra", floor=10)
    r4 = rep.rule("R-C16-4", "packer range checks", floor=2)
    rule_packers(repo, r3, r4)
    from .c03 import rule_pack_unpack
    rule_pack_unpack(repo, r4)
