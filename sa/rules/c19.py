"""C19 - the backend in use is the one the configuration names.

R-C19-1  registry sanity (literal table, unique names/modules, modules exist, nobackend last)
R-C19-2  three-stage structure: sys.modules scan, environment (guarded by `backend is None`), auto-detect
         (guarded); name and module always assigned from the same registry row; first match wins
R-C19-3  loud failure for a named-but-unloadable backend; unknown name reported before falling back
R-C19-4  the reported name identifies the backend in effect: no later registry row's module imports an
         earlier row's module (pre-importing it would make stage 1 report the earlier name)
R-C19-5  every selectable backend module binds the complete backend interface
"""
import ast

from ..loader import norm, AnalysisError, parents
from .c06 import get_interp

RT = "pysnark.runtime"


def find_registry(m):
    for n in m.tree.body:
        if isinstance(n, ast.Assign) and len(n.targets) == 1 and isinstance(n.targets[0], ast.Name) \
                and isinstance(n.value, (ast.List, ast.Tuple)) and n.value.elts and all(
                    isinstance(e, (ast.List, ast.Tuple)) and len(e.elts) == 2 and all(
                        isinstance(x, ast.Constant) and isinstance(x.value, str) for x in e.elts) for e in n.value.elts):
            return n.targets[0].id, n, [(e.elts[0].value, e.elts[1].value) for e in n.value.elts]
    raise AnalysisError("backend registry (literal list of [name, module] pairs) not found in pysnark.runtime")


def mentions(node, txt):
    return txt in norm(node)


def import_closure(repo, modname, seen=None):
    """Modules of the package statically imported (transitively) by `modname`."""
    seen = seen if seen is not None else set()
    m = repo.modules.get(modname)
    if m is None or modname in seen:
        return seen
    seen.add(modname)
    for n in ast.walk(m.tree):
        tgt = []
        if isinstance(n, ast.Import):
            for a in n.names:
                parts = a.name.split(".")
                for i in range(1, len(parts) + 1):
                    tgt.append(".".join(parts[:i]))
        elif isinstance(n, ast.ImportFrom):
            from ..loader import _resolve_relative
            src = _resolve_relative(m.name, m.is_pkg, n.level, n.module or "")
            tgt.append(src)
            for a in n.names:
                tgt.append(src + "." + a.name)
        for t in tgt:
            if t in repo.modules and t not in seen:
                # imports inside functions only run when called: count module-level and class-level ones
                if not any(isinstance(p, (ast.FunctionDef, ast.Lambda)) for p in parents(n)):
                    import_closure(repo, t, seen)
    return seen


def check(repo, rep, tier):
    rep.explanation = ("The selection code is module-level control flow over a constant table: the table is evaluated "
                       "from the ast, the three stages are located by role (scan of sys.modules / test of os.environ / "
                       "auto-detect loop) and their ordering, guards, pairing of name and module, loudness and the "
                       "static import graph between registry modules are checked; the backend interface is the set of "
                       "attributes the package accesses on the backend object.")
    rep.trusted = ["Python import semantics: importing a module imports (and registers in sys.modules) every module it "
                   "imports at module level"]
    rep.not_decided = ["whether a backend's own dependencies are installed (environment)"]
    m = repo.module(RT)
    regname, regnode, rows = find_registry(m)

    # ---------------- R-C19-1
    r1 = rep.rule("R-C19-1", "registry sanity", floor=8)
    names = [r[0] for r in rows]
    mods = [r[1] for r in rows]
    for i, (nm, md) in enumerate(rows):
        where = "%s:%s" % (m.relpath, regnode.value.elts[i].lineno)
        probs = []
        if names.count(nm) > 1:
            probs.append("duplicate name")
        if mods.count(md) > 1:
            probs.append("duplicate module")
        if md not in repo.modules:
            probs.append("module not found in the tree")
        if probs:
            r1.violation(where, RT, "%s -> %s" % (nm, md), "; ".join(probs), "row/%s" % nm)
        else:
            r1.ok(where, RT, "%s -> %s" % (nm, md))
    if rows and rows[-1][0] != "nobackend":
        r1.violation("%s:%s" % (m.relpath, regnode.lineno), RT, str(names),
                     "the always-loadable fall-back `nobackend` must be the last row (auto-detection takes the first "
                     "loadable row)", "nobackend-last")

    # ---------------- locate stages
    body = m.tree.body
    stage1 = stage2 = stage3 = None
    for i, n in enumerate(body):
        if isinstance(n, ast.For) and norm(n.iter) == regname and mentions(n, "sys.modules") and stage1 is None:
            stage1 = (i, n)
        elif isinstance(n, ast.If) and stage2 is None and mentions(n, "os.environ") and mentions(n, "import_module"):
            stage2 = (i, n)
        elif isinstance(n, ast.If) and stage2 is not None and stage3 is None and mentions(n.test, "backend") \
                and not mentions(n, "os.environ") and any(isinstance(x, ast.For) for x in ast.walk(n)):
            stage3 = (i, n)
    if not (stage1 and stage2 and stage3):
        raise AnalysisError("selection stages not found at module level of pysnark.runtime (stage1=%s stage2=%s stage3=%s)"
                            % (bool(stage1), bool(stage2), bool(stage3)))

    def governing(stage_node, inner):
        """Conjuncts of every `if` test between the stage statement and `inner` (true arms only)."""
        out = []
        chain = [p for p in parents(inner) if isinstance(p, ast.If)]
        for p in chain + ([stage_node] if stage_node not in chain else []):
            if p is stage_node or any(q is stage_node for q in parents(p)):
                t = p.test
                out += t.values if isinstance(t, ast.BoolOp) and isinstance(t.op, ast.And) else [t]
        return out
    r2 = rep.rule("R-C19-2", "stage order, guards, paired assignment, first match wins", floor=8)
    loc = lambda n: "%s:%s" % (m.relpath, n.lineno)  # noqa: E731
    if stage1[0] < stage2[0] < stage3[0]:
        r2.ok(loc(stage1[1]), RT, "stage order: sys.modules scan < environment < auto-detect")
    else:
        r2.violation(loc(stage1[1]), RT, "positions %d,%d,%d" % (stage1[0], stage2[0], stage3[0]),
                     "selection stages are not in the order pre-import, environment, auto-detect", "order")
    for label, st in (("environment", stage2), ("auto-detect", stage3)):
        t = st[1].test
        loops_ = [x for x in ast.walk(st[1]) if isinstance(x, ast.For) and norm(x.iter) == regname]
        conj = governing(st[1], loops_[0]) if loops_ else (t.values if isinstance(t, ast.BoolOp) and isinstance(t.op, ast.And) else [t])
        if any(norm(c) in ("backend is None", "backend == None", "not backend") for c in conj):
            r2.ok(loc(st[1]), RT, "%s stage guarded by `backend is None`" % label)
        else:
            r2.violation(loc(st[1]), RT, norm(t), "%s stage is not guarded by `backend is None`: it would override an "
                         "earlier selection" % label, "guard/%s" % label)
    # nothing between the stages assigns backend
    for i in range(stage1[0] + 1, stage3[0]):
        n = body[i]
        if n is stage2[1]:
            continue
        for x in ast.walk(n):
            if isinstance(x, ast.Assign) and any(norm(t) in ("backend", "backend_name") for t in x.targets):
                r2.violation(loc(x), RT, norm(x), "backend reassigned between the selection stages", "between")
    # paired assignments
    pairs = 0
    for st_label, st in (("pre-import", stage1), ("environment", stage2), ("auto-detect", stage3)):
        for blk in _blocks(st[1]):
            nm = [s for s in blk if isinstance(s, ast.Assign) and norm(s.targets[0]) == "backend_name"]
            bk = [s for s in blk if isinstance(s, ast.Assign) and norm(s.targets[0]) == "backend"]
            if not nm and not bk:
                continue
            pairs += 1
            where = loc((nm or bk)[0])
            if len(nm) != 1 or len(bk) != 1:
                r2.violation(where, RT, norm(blk)[:200], "backend and backend_name are not assigned together in the %s "
                             "stage" % st_label, "pair/%s/%d" % (st_label, pairs))
                continue
            nv, bv = nm[0].value, bk[0].value
            ok = False
            if isinstance(nv, ast.Subscript) and norm(nv.slice) == "0":
                row = norm(nv.value)
                btxt = norm(bv)
                ok = btxt in ("sys.modules[%s[1]]" % row, "importlib.import_module(%s[1])" % row,
                              "import_module(%s[1])" % row)
                desc = "backend_name = %s[0]; backend = %s" % (row, btxt)
            elif isinstance(nv, ast.Constant):
                want = dict(rows).get(nv.value)
                ok = want is not None and norm(bv) == want
                desc = "backend_name = %r; backend = %s" % (nv.value, norm(bv))
            else:
                desc = "%s; %s" % (norm(nm[0]), norm(bk[0]))
            if ok:
                r2.ok(where, RT, desc, st_label)
            else:
                r2.violation(where, RT, desc, "name and module are not taken from the same registry row (%s stage)" % st_label,
                             "pair/%s" % st_label)
    # first match wins
    s1if = [x for x in stage1[1].body if isinstance(x, ast.If)]
    if s1if and any(isinstance(x, ast.Break) for x in s1if[0].body) and not isinstance(stage1[1].iter, ast.Call):
        r2.ok(loc(stage1[1]), RT, "pre-import scan in registry order, break on first hit")
    else:
        r2.violation(loc(stage1[1]), RT, norm(stage1[1])[:160], "pre-import scan does not stop at the first registry row "
                     "found in sys.modules", "first/pre-import")
    loops3 = [x for x in ast.walk(stage3[1]) if isinstance(x, ast.For)]
    ok3 = False
    for lp in loops3:
        if norm(lp.iter) == regname:
            for t in ast.walk(lp):
                if isinstance(t, ast.Try):
                    imp = [i for i, s in enumerate(t.body) if "import_module" in norm(s)]
                    brk = [i for i, s in enumerate(t.body) if isinstance(s, ast.Break)]
                    if imp and brk and brk[0] > imp[0] and t.handlers:
                        ok3 = True
    if ok3:
        r2.ok(loc(stage3[1]), RT, "auto-detect iterates the registry in order and breaks after the first successful import")
    else:
        r2.violation(loc(stage3[1]), RT, norm(stage3[1])[:200], "auto-detection does not take the first loadable backend in "
                     "registry order", "first/auto")
    # environment comparison
    cmp_ok = False
    for x in ast.walk(stage2[1]):
        if isinstance(x, ast.Compare) and len(x.ops) == 1 and isinstance(x.ops[0], ast.Eq):
            sides = {norm(x.left), norm(x.comparators[0])}
            if any("os.environ" in s for s in sides) and any(s.endswith("[0]") for s in sides):
                cmp_ok = True
    if cmp_ok:
        r2.ok(loc(stage2[1]), RT, "environment value compared for equality with the row's name")
    else:
        r2.violation(loc(stage2[1]), RT, norm(stage2[1])[:200], "environment value is not matched exactly against registry "
                     "names", "envcmp")

    # ---------------- R-C19-3
    r3 = rep.rule("R-C19-3", "named backend fails loudly; unknown name reported before fall-back", floor=2)
    imps = [x for x in ast.walk(stage2[1]) if isinstance(x, ast.Call) and "import_module" in norm(x.func)]
    if not imps:
        r3.violation(loc(stage2[1]), RT, norm(stage2[1])[:160], "environment stage never imports the named backend", "env/noimport")
    for c in imps:
        in_try = any(isinstance(p, ast.Try) for p in parents(c) if p is not m.tree)
        if in_try:
            r3.violation(loc(c), RT, norm(c), "import of the explicitly named backend is wrapped in try: a known but "
                         "unloadable backend would be skipped silently", "env/try")
        else:
            r3.ok(loc(c), RT, norm(c), "exceptions propagate")
    unk = None
    env_body = stage2[1].body
    for x in ast.walk(stage2[1]):
        if isinstance(x, ast.If) and any(isinstance(y, ast.For) and norm(y.iter) == regname for y in x.body):
            env_body = x.body
    for s in env_body:
        if isinstance(s, ast.If) and norm(s.test) in ("backend is None", "backend == None", "not backend"):
            if any(isinstance(x, ast.Call) and norm(x.func) in ("print", "warnings.warn", "sys.stderr.write")
                   for b in s.body for x in ast.walk(b)) or any(isinstance(b, ast.Raise) for b in s.body):
                unk = s
    lastloop = max([i for i, s in enumerate(env_body) if isinstance(s, ast.For)] or [-1])
    if unk is not None and env_body.index(unk) > lastloop:
        r3.ok(loc(unk), RT, "unknown name reported under `backend is None` after the environment loop")
    else:
        r3.violation(loc(stage2[1]), RT, norm(stage2[1])[:200], "an unknown PYSNARK_BACKEND value is not reported before "
                     "falling back to auto-detection", "env/unknown")

    # ---------------- R-C19-4
    r4 = rep.rule("R-C19-4", "reported name identifies the backend in effect (import graph)", floor=8)
    for j, (nj, mj) in enumerate(rows):
        clo = import_closure(repo, mj) if mj in repo.modules else set()
        hit = [(ni, mi) for (ni, mi) in rows[:j] if mi in clo and mi != mj]
        where = "%s:%s" % (m.relpath, regnode.value.elts[j].lineno)
        if hit:
            ni, mi = hit[0]
            r4.violation(where, RT, "%s (%s) imports %s (%s)" % (nj, mj, ni, mi),
                         "after `import %s` the pre-import scan finds %s first and reports backend_name == %r for the "
                         "%s backend" % (mj, mi, ni, nj), "shadow/%s" % nj)
        else:
            r4.ok(where, RT, "%s: no earlier registry module in its import closure" % nj)

    # ---------------- R-C19-5
    r5 = rep.rule("R-C19-5", "every registry module binds the complete backend interface", floor=8)
    it = get_interp(repo)
    required, optional = {}, {}
    for attr, sites in it.backend_attrs.items():
        for (mod, fi, node) in sites:
            if mod.name.startswith("pysnark.") and getattr(mod, "is_client", False):
                continue
            defensive = isinstance(node, ast.Call)  # getattr(backend, "x", default)
            if not defensive:
                for p in parents(node):
                    if isinstance(p, (ast.If, ast.IfExp)) and any(
                            isinstance(c, ast.Call) and norm(c.func) in ("hasattr", "getattr") and len(c.args) >= 2
                            and isinstance(c.args[1], ast.Constant) and c.args[1].value == attr
                            for c in ast.walk(p.test)):
                        defensive = True
            (optional if defensive else required).setdefault(attr, []).append("%s:%s" % (mod.relpath, getattr(node, "lineno", "?")))
    iface = sorted(required)
    rep.extra["backend_interface"] = {"required": iface, "optional": sorted(set(optional) - set(required))}
    if len(iface) < 6:
        raise AnalysisError("backend interface could not be recovered (%s)" % iface)
    for nm, md in rows:
        mm = repo.modules.get(md)
        if mm is None:
            continue
        missing = [a for a in iface if a not in mm.bindings]
        where = "%s:1" % mm.relpath
        if missing:
            for a in missing:
                r5.violation(where, md, "interface %s; missing %s (used at %s)" % (iface, a, required[a][0]),
                             "backend `%s` does not define `%s`, which the package accesses unconditionally at %s" % (
                                 nm, a, required[a][0]), "iface/%s/%s" % (nm, a))
        else:
            r5.ok(where, md, "binds " + ", ".join(iface))
    # R-C19-7: the field in effect is the one the reported name stands for (shared with R-C13-3)
    r7 = rep.rule("R-C19-7", "derived backends install their field in the module that does the work (shared with C13)", floor=2)
    from .c13 import moduli
    from ..report import Rule
    tmp = Rule("R-C19-7", "")
    moduli(repo, tmp)
    for i in tmp.instances:
        if any(x in i.construct or x in i.term for x in ("backendbellman", "backendbulletproofs", "zkifbellman", "zkifbulletproofs", "set_modulus")):
            r7.instances.append(i)
    for nm, md in rows:
        mm = repo.modules.get(md)
        if mm is None or not mm.star_imports:
            continue
        local = [n for n in mm.tree.body if isinstance(n, ast.Assign) and any(norm(t) in ("modulus", "BL") for t in n.targets)]
        for n in local:
            r7.violation("%s:%s" % (mm.relpath, n.lineno), md, norm(n)[:80],
                         "a derived backend binds `%s` in its own namespace: the star-imported functions (get_modulus, fieldinverse, "
                         "prove) keep reading the base module's value, so `%s` is reported while the base field is in effect" % (
                             norm(n.targets[0]), nm), "localfield/%s/%s" % (nm, norm(n.targets[0])))
    # R-C19-6 (informational)
    r6 = rep.rule("R-C19-6", "derived backends act on the base module's state (informational)", floor=0)
    for nm, md in rows:
        mm = repo.modules.get(md)
        if mm is not None and mm.star_imports:
            r6.note("%s:1" % mm.relpath, md, "star-imports %s" % ", ".join(mm.star_imports),
                    "functions keep the base module's globals: the module receiving constraints is the base module")


def _blocks(node):
    """All statement lists inside a compound statement."""
    out = []
    for n in ast.walk(node):
        for fld in ("body", "orelse", "finalbody"):
            b = getattr(n, fld, None)
            if isinstance(b, list) and b and isinstance(b[0], ast.stmt):
                out.append(b)
        if isinstance(n, ast.Try):
            for h in n.handlers:
                out.append(h.body)
    return out
