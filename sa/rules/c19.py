"""C19 - the backend in use is the one the configuration names.

R-C19-1  registry sanity (literal table, unique names/modules, modules exist, nobackend last)
R-C19-2  three-stage structure: sys.modules scan, environment (guarded by `backend is None`), auto-detect
         (guarded); name and module always assigned from the same registry row; first match wins
R-C19-3  loud failure for a named-but-unloadable backend; unknown name reported before falling back
R-C19-4  the reported name identifies the backend in effect: no later registry row's module imports an
         earlier row's module (pre-importing it would make stage 1 report the earlier name)
R-C19-5  every selectable backend module binds the complete backend interface
"""
import ast

from ..loader import norm, AnalysisError, parents
from .c06 import get_interp

RT = "pysnark.runtime"


def find_registry(m):
    for n in m.tree.body:
        if isinstance(n, ast.Assign) and len(n.targets) == 1 and isinstance(n.targets[0], ast.Name) \
                and isinstance(n.value, (ast.List, ast.Tuple)) and n.value.elts and all(
                    isinstance(e, (ast.List, ast.Tuple)) and len(e.elts) == 2 and all(
                        isinstance(x, ast.Constant) and isinstance(x.value, str) for x in e.elts) for e in n.value.elts):
            return n.targets[0].id, n, [(e.elts[0].value, e.elts[1].value) for e in n.value.elts]
    raise AnalysisError("backend registry (literal list of [name, module] pairs) not found in pysnark.runtime")


def mentions(node, txt):
    return txt in norm(node)


def import_closure(repo, modname, seen=None):
    """Modules of the package statically imported (transitively) by `modname`."""
    seen = seen if seen is not None else set()
    m = repo.modules.get(modname)
    if m is None or modname in seen:
        return seen
    seen.add(modname)
    for n in ast.walk(m.tree):
        tgt = []
        if isinstance(n, ast.Import):
            for a in n.names:
                parts = a.name.split(".")
                for i in range(1, len(parts) + 1):
                    tgt.append(".".join(parts[:i]))
        elif isinstance(n, ast.ImportFrom):
            from ..loader import _resolve_relative
            src = _resolve_relative(m.name, m.is_pkg, n.level, n.module or "")
            tgt.append(src)
            for a in n.names:
                tgt.append(src + "." + a.name)
        for t in tgt:
            if t in repo.modules and t not in seen:
                # imports inside functions only run when called: count module-level and class-level ones
                if not any(isinstance(p, (ast.FunctionDef, ast.Lambda)) for p in parents(n)):
                    import_closure(repo, t, seen)
    return seen


def check(repo, rep, tier):
    rep.explanation = ("The selection code is module-level control flow over a constant table: the table is evaluated "
                       "from the ast, the three stages are located by role (scan of sys.modules / test of os.environ / "
                       "auto-detect loop) and their ordering, guards, pairing of name and module, loudness and the "
                       "static import graph between registry modules are checked; the backend interface is the set of "
                       "attributes the package accesses on the backend object.")
    rep.trusted = ["Python import semantics: importing a module imports (and registers in sys.modules) every module it "
                   "imports at module level"]
    rep.not_decided = ["whether a backend's own dependencies are installed (environment)"]
    m = repo.module(RT)
    regname, regnode, rows = find_registry(m)

    # ---------------- R-C19-1
    r1 = rep.rule("R-C19-1", "registry sanity", floor=8)
    names = [r[0] for r in rows]
    mods = [r[1] for r in rows]
    for i, (nm, md) in enumerate(rows):
        where = "%s:%s" % (m.relpath, regnode.value.elts[i].lineno)
        probs = []
        if names.count(nm) > 1:
            probs.append("duplicate name")
        if mods.count(md) > 1:
            probs.append("duplicate module")
        if md not in repo.modules:
            probs.append("module not found in the tree")
        if probs:
            r1.violation(where, RT, "%s -> %s" % (nm, md), "; ".join(probs), "row/%s" % nm)
        else:
            r1.ok(where, RT, "%s -> %s" % (nm, md))
    if rows and rows[-1][0] != "nobackend":
        r1.violation("%s:%s" % (m.relpath, regnode.lineno), RT, str(names),
                     "the always-loadable fall-back `nobackend` must be the last row (auto-detection takes the first "
                     "loadable row)", "nobackend-last")

    # ---------------- symbolic execution of the selection code (sa/selection.py)
    from ..selection import run_selection
    sel, outs, stmts = run_selection(repo, m, regname, regnode, rows)
    loc = lambda n: "%s:%s" % (m.relpath, getattr(n, "lineno", "?"))  # noqa: E731
    first_stmt = stmts[0]

    def kinds(s):
        """decision kinds in the order they were first taken on this path"""
        out = []
        matched = set()
        for a, t in s.conds:
            k = a[0]
            if k == "env_eq" and t:
                matched.add((a[1], a[2]))
            if k == "import_ok":
                k = "named-import" if (a[1], a[2]) in matched else "auto-import"
            if k not in out:
                out.append(k)
        return out

    def show_path(s):
        return " ".join("%s%s" % ("" if t else "not ", "/".join(str(x) for x in a)) for a, t in s.conds)[:220]
    r2 = rep.rule("R-C19-2", "stage order, guards, paired assignment, first match wins (all symbolic outcomes)", floor=8)
    # (1) pairing: the reported name and the module in effect come from the same registry row
    rowmap = dict(rows)
    bad_pairs = {}
    n_ok = 0
    for s, status, _p in outs:
        if status != "normal":
            continue
        nm, bk = s.env.get("backend_name", ("none",)), s.env.get("backend", ("none",))
        ok = False
        if bk[0] == "none":
            ok = True
        elif bk[0] in ("preloaded", "imported"):
            ok = nm[0] == "rowname" and nm[1:] == bk[1:]
        elif bk[0] == "modobj":
            ok = nm[0] == "const" and rowmap.get(nm[1]) == bk[1]
        if ok:
            n_ok += 1
        else:
            ev_ = [e for e in s.events if e[0] in ("set_backend", "set_name")]
            node = ev_[-1][2] if ev_ else first_stmt
            bad_pairs.setdefault((loc(node), str(nm), str(bk)), (node, s))
    for (w, nm, bk), (node, s) in sorted(bad_pairs.items())[:4]:
        r2.violation(w, RT, "backend_name = %s, backend = %s on the path {%s}" % (nm, bk, show_path(s)),
                     "name and module are not taken from the same registry row: the reported backend_name does not identify "
                     "the module in effect", "pair/%s" % w.split(":")[-1])
    if not bad_pairs:
        r2.ok(loc(first_stmt), RT, "%d symbolic outcomes: (backend_name, backend) always name and module of one registry row, or "
              "('nobackend', pysnark.nobackend), or backend None" % n_ok)
    # (2) no selection is overridden: later stages are guarded, scans stop at the first hit
    over = {}
    for s, status, _p in outs:
        for e in s.events:
            if e[0] == "set_backend" and e[1][1]:
                over.setdefault(loc(e[2]), (e, s))
    for w, (e, s) in sorted(over.items())[:4]:
        in_loop_same = sum(1 for x in s.events if x[0] == "set_backend" and x[2] is e[2]) > 1
        r2.violation(w, RT, "backend assigned %s although already selected, on the path {%s}" % (e[1][0], show_path(s)),
                     ("the scan does not stop at the first registry row that matches (a later row overrides it)" if in_loop_same else
                      "a later stage is not guarded by `backend is None`: it overrides the earlier selection"),
                     "override/%s" % ("first" if in_loop_same else "guard"))
    if not over:
        r2.ok(loc(first_stmt), RT, "no path assigns `backend` twice", "later stages run only while backend is None; scans stop at the first hit")
    # (2b) a scan stops importing once a backend has loaded (importing a backend module has side effects: e.g. backendgg
    # switches the shared libsnark module to Groth16)
    eager = None
    for s, status, _p in outs:
        done_in = {}
        for e in s.events:
            if e[0] == "import" and e[1][0] == "import_ok":
                if e[1][1] in done_in:
                    eager = eager or (e, s)
                done_in.setdefault(e[1][1], e)
            elif e[0] == "import-failed" and e[1][0] == "import_ok" and e[1][1] in done_in:
                eager = eager or (e, s)
    if eager:
        e, s = eager
        r2.violation(loc(e[2]), RT, "import attempted after a backend of the same scan had loaded, on the path {%s}" % show_path(s),
                     "the scan does not stop at the first loadable backend: later registry modules are imported as well (their "
                     "import-time side effects change the backend in effect)", "first/eager-import")
    else:
        r2.ok(loc(first_stmt), RT, "no scan imports another backend after one has loaded")
    # (3) precedence: pre-imported module, then environment, then auto-detection
    order_bad = None
    seen_kinds = set()
    for s, status, _p in outs:
        ks = kinds(s)
        seen_kinds.update(ks)
        for a, b in (("in_sysmodules", "env_set"), ("env_set", "ipython"), ("env_set", "auto-import"), ("in_sysmodules", "ipython"),
                     ("in_sysmodules", "auto-import")):
            if a in ks and b in ks and ks.index(a) > ks.index(b):
                order_bad = order_bad or (a, b, s)
    need = {"in_sysmodules", "env_set", "env_eq", "auto-import"}
    if order_bad:
        a, b, s = order_bad
        r2.violation(loc(first_stmt), RT, "decisions on a path: %s" % " < ".join(kinds(s)), "selection stages are not in the order "
                     "pre-import, environment, auto-detect (`%s` is decided after `%s`)" % (a, b), "order")
    elif not need <= seen_kinds:
        r2.violation(loc(first_stmt), RT, "decisions found: %s" % sorted(seen_kinds), "a selection stage is missing (%s)" % ", ".join(
            sorted(need - seen_kinds)), "order/missing")
    else:
        r2.ok(loc(first_stmt), RT, "every path decides: sys.modules scan < PYSNARK_BACKEND < auto-detection")
    # (3b) the environment decides only after the WHOLE table has been looked up in sys.modules: a pre-imported backend
    # wins wherever it stands in the table
    early = None
    scans = {a[1] for s, _st, _p in outs for ev in s.events if ev[0] == "decide" for a in [ev[1][0]] if a[0] == "in_sysmodules"}
    for s, status, _p in outs:
        done = False
        for ev in s.events:
            if ev[0] == "exhausted" and ev[1] in scans:
                done = True
            elif ev[0] == "decide" and ev[1][0][0] in ("env_eq", "env_eq_const") and not done:
                early = early or (ev, s)
    if early:
        ev, s = early
        r2.violation(loc(ev[2]), RT, "PYSNARK_BACKEND matched against a row on the path {%s}" % show_path(s),
                     "the environment variable is consulted before the whole registry has been looked up in sys.modules: a "
                     "pre-imported backend further down the table loses to PYSNARK_BACKEND", "order/env-before-scan")
    elif scans:
        r2.ok(loc(first_stmt), RT, "PYSNARK_BACKEND is matched only after a complete scan of the table for pre-imported modules")
    for k, what in (("in_sysmodules", "stage 1 scans sys.modules for the registry modules"),
                    ("env_set", "stage 2 consults os.environ['PYSNARK_BACKEND']"),
                    ("ipython", "stage 3 selects nobackend inside IPython"),
                    ("auto-import", "stage 3 imports registry modules in order until one loads")):
        if k in seen_kinds:
            r2.ok(loc(first_stmt), RT, what)
    # registry order
    reordered = [e for s, _st, _p in outs for e in s.events if e[0] == "reordered"]
    if reordered:
        r2.violation(loc(reordered[0][2]), RT, norm(reordered[0][2].iter), "the registry is not scanned in full and in its own order: "
                     "'first match' no longer means the first registry row", "first/order")
    else:
        r2.ok(loc(first_stmt), RT, "every loop scans the registry in table order")
    # (4) the environment value is matched exactly against registry names
    env_unknown = [t for t, _n in sel.unknown_tests if "environ" in t]
    if "env_eq" in seen_kinds and not env_unknown:
        r2.ok(loc(first_stmt), RT, "environment value compared for equality with the row's name")
    else:
        r2.violation(loc(first_stmt), RT, "; ".join(env_unknown)[:160] or "no equality test", "environment value is not matched "
                     "exactly against registry names", "envcmp")
    other_unknown = sorted({t for t, _n in sel.unknown_tests if "environ" not in t})
    for t in other_unknown[:3]:
        r2.note(loc(first_stmt), RT, t, "test outside the model: both outcomes explored")

    # ---------------- R-C19-3
    r3 = rep.rule("R-C19-3", "named backend fails loudly; unknown name reported before fall-back", floor=2)
    named_fail = []
    for s, status, _p in outs:
        matched = {(a[1], a[2]) for a, t in s.conds if a[0] == "env_eq" and t}
        failed = {(a[1], a[2]) for a, t in s.conds if a[0] == "import_ok" and not t}
        if matched & failed:
            named_fail.append((s, status))
    if not named_fail:
        r3.violation(loc(first_stmt), RT, "no path imports the module of the row named by PYSNARK_BACKEND",
                     "environment stage never imports the named backend", "env/noimport")
    else:
        quiet = [(s, st_) for s, st_ in named_fail if st_ != "raise"]
        if quiet:
            s = quiet[0][0]
            c = [e for e in s.events if e[0] == "import-failed"]
            r3.violation(loc(c[0][2]) if c else loc(first_stmt), RT, "path {%s} continues with backend_name=%s backend=%s" % (
                show_path(s), s.env.get("backend_name"), s.env.get("backend")),
                "the import error of the explicitly named backend is swallowed: a known but unloadable backend is skipped silently",
                "env/try")
        else:
            r3.ok(loc(first_stmt), RT, "%d path(s) where the named backend fails to import: the exception propagates" % len(named_fail))
    # a KNOWN name: whenever the selection completes, the backend in effect is the module of the row that was named (whatever the
    # code consulted on the way - package look-ups, tables of requirements); anything else is a silent substitution
    named_done = 0
    for s, status, _p in outs:
        matched = {(a[1], a[2]) for a, t in s.conds if a[0] == "env_eq" and t}
        if not matched or status == "raise":
            continue
        b = s.env.get("backend")
        if b is not None and b[0] in ("imported", "preloaded") and (b[1], b[2]) in matched:
            named_done += 1
            continue
        if matched & {(a[1], a[2]) for a, t in s.conds if a[0] == "import_ok" and not t}:
            continue          # swallowed import error: reported above
        c = [e for e in s.events if e[0] == "decide" and e[1][0][0] == "env_eq" and e[1][1]]
        r3.violation(loc(c[0][2]) if c else loc(first_stmt), RT, "path {%s} ends with backend_name=%s backend=%s" % (
            show_path(s), s.env.get("backend_name"), s.env.get("backend")),
            "PYSNARK_BACKEND names a registered backend, the selection completes without an exception, and the backend in effect is "
            "not that backend's module: the named backend is skipped silently", "env/named-not-used")
        break
    else:
        if named_done:
            r3.ok(loc(first_stmt), RT, "%d completed path(s) with a registered name in PYSNARK_BACKEND: the backend in effect is the named row's module" % named_done)
    unknown_paths = []
    for s, status, _p in outs:
        eqs = [(a, t) for a, t in s.conds if a[0] == "env_eq"]
        if any(a[0] == "env_set" and t for a, t in s.conds) and eqs and not any(t for _a, t in eqs) \
                and any(e[0] == "exhausted" for e in s.events):
            unknown_paths.append((s, status))
    silent = []
    for s, status in unknown_paths:
        # timeline: a report (print / warn / raise) must come before the first decision of the auto-detect stage
        idx_report = [i for i, e in enumerate(s.events) if e[0] == "report"]
        idx_auto = [i for i, e in enumerate(s.events) if e[0] == "decide" and e[1][0][0] in ("ipython", "import_ok")]
        if not idx_report or (idx_auto and idx_report[0] > idx_auto[0]):
            silent.append(s)
    if not unknown_paths:
        r3.undecided(loc(first_stmt), RT, "no path with PYSNARK_BACKEND set and no row matching", "unknown-name case not reached")
    elif silent:
        hid = [e for e in silent[0].events if e[0] == "hidden-report"]
        r3.violation(loc(hid[0][2]) if hid else loc(first_stmt), RT, "path {%s}" % show_path(silent[0]),
                     ("an unknown PYSNARK_BACKEND value is reported only through %s, which Python's default filters do not show: the "
                      "fall-back to auto-detection is silent" % hid[0][1]) if hid else
                     "an unknown PYSNARK_BACKEND value is not reported before falling back to auto-detection", "env/unknown")
    else:
        r3.ok(loc(first_stmt), RT, "%d path(s) with an unknown PYSNARK_BACKEND value: reported before auto-detection starts" % len(unknown_paths))

    # ---------------- R-C19-4
    r4 = rep.rule("R-C19-4", "reported name identifies the backend in effect (import graph)", floor=8)
    for j, (nj, mj) in enumerate(rows):
        clo = import_closure(repo, mj) if mj in repo.modules else set()
        hit = [(ni, mi) for (ni, mi) in rows[:j] if mi in clo and mi != mj]
        where = "%s:%s" % (m.relpath, regnode.value.elts[j].lineno)
        if hit:
            ni, mi = hit[0]
            r4.violation(where, RT, "%s (%s) imports %s (%s)" % (nj, mj, ni, mi),
                         "after `import %s` the pre-import scan finds %s first and reports backend_name == %r for the "
                         "%s backend" % (mj, mi, ni, nj), "shadow/%s" % nj)
        else:
            r4.ok(where, RT, "%s: no earlier registry module in its import closure" % nj)

    # ---------------- R-C19-9  rows skipped because the row they are derived from failed
    skips = {e[1] for s_, _st, _p in outs for e in s_.events if e[0] == "derived-skip"}
    if skips:
        r9 = rep.rule("R-C19-9", "a backend is skipped without an import attempt only if it imports a backend that just failed", floor=1)
        rowmap9 = dict(rows)
        order9 = [n_ for n_, _m in rows]
        for dn in sorted(skips):
            tbl = [n_ for n_ in m.tree.body if isinstance(n_, ast.Assign) and len(n_.targets) == 1 and norm(n_.targets[0]) == dn
                   and isinstance(n_.value, ast.Dict)]
            rebound = [x for x in ast.walk(m.tree) if isinstance(x, (ast.Name, ast.Attribute, ast.Subscript)) and not isinstance(x.ctx, ast.Load)
                       and norm(x).split("[")[0] == dn]
            if len(tbl) != 1 or len(rebound) != 1:
                r9.violation("%s:1" % m.relpath, RT, dn, "the table of derived backends is not a module-level dict literal bound once",
                             "derived/%s/table" % dn)
                continue
            for k_, v_ in zip(tbl[0].value.keys, tbl[0].value.values):
                where = "%s:%s" % (m.relpath, k_.lineno)
                if not (isinstance(k_, ast.Constant) and isinstance(v_, ast.Constant) and k_.value in rowmap9 and v_.value in rowmap9):
                    r9.violation(where, RT, "%s: %s" % (norm(k_), norm(v_)), "entry does not name two registry rows", "derived/%s/%s" % (dn, norm(k_)))
                    continue
                dm, bm = rowmap9[k_.value], rowmap9[v_.value]
                clo = import_closure(repo, dm) if dm in repo.modules else set()
                if bm in clo and order9.index(v_.value) < order9.index(k_.value):
                    r9.ok(where, RT, "%s -> %s" % (k_.value, v_.value), "%s imports %s (listed earlier): when that import has just failed, "
                          "importing %s fails the same way, so skipping it selects the same backend" % (dm, bm, dm))
                else:
                    r9.violation(where, RT, "%s -> %s" % (k_.value, v_.value), "%s is skipped whenever %s failed to load, but %s" % (
                        k_.value, v_.value, "it does not import %s: it could have loaded" % bm if bm not in clo else
                        "%s is listed after it, so its failure is never known in time" % v_.value), "derived/%s/%s" % (dn, k_.value))
    # ---------------- R-C19-5
    r5 = rep.rule("R-C19-5", "every registry module binds the complete backend interface", floor=8)
    it = get_interp(repo)
    required, optional = {}, {}
    for attr, sites in it.backend_attrs.items():
        for (mod, fi, node) in sites:
            if mod.name.startswith("pysnark.") and getattr(mod, "is_client", False):
                continue
            defensive = isinstance(node, ast.Call)  # getattr(backend, "x", default)
            if not defensive:
                for p in parents(node):
                    if isinstance(p, (ast.If, ast.IfExp)) and any(
                            isinstance(c, ast.Call) and norm(c.func) in ("hasattr", "getattr") and len(c.args) >= 2
                            and isinstance(c.args[1], ast.Constant) and c.args[1].value == attr
                            for c in ast.walk(p.test)):
                        defensive = True
            (optional if defensive else required).setdefault(attr, []).append("%s:%s" % (mod.relpath, getattr(node, "lineno", "?")))
    iface = sorted(required)
    rep.extra["backend_interface"] = {"required": iface, "optional": sorted(set(optional) - set(required))}
    if len(iface) < 6:
        raise AnalysisError("backend interface could not be recovered (%s)" % iface)
    for nm, md in rows:
        mm = repo.modules.get(md)
        if mm is None:
            continue
        missing = [a for a in iface if a not in mm.bindings]
        where = "%s:1" % mm.relpath
        if missing:
            for a in missing:
                r5.violation(where, md, "interface %s; missing %s (used at %s)" % (iface, a, required[a][0]),
                             "backend `%s` does not define `%s`, which the package accesses unconditionally at %s" % (
                                 nm, a, required[a][0]), "iface/%s/%s" % (nm, a))
        else:
            r5.ok(where, md, "binds " + ", ".join(iface))
    # R-C19-7: the field in effect is the one the reported name stands for (shared with R-C13-3)
    r7 = rep.rule("R-C19-7", "derived backends install their field in the module that does the work (shared with C13)", floor=2)
    from .c13 import moduli
    from ..report import Rule
    tmp = Rule("R-C19-7", "")
    moduli(repo, tmp)
    for i in tmp.instances:
        if any(x in i.construct or x in i.term for x in ("backendbellman", "backendbulletproofs", "zkifbellman", "zkifbulletproofs", "set_modulus")):
            r7.instances.append(i)
    for nm, md in rows:
        mm = repo.modules.get(md)
        if mm is None or not mm.star_imports:
            continue
        local = [n for n in mm.tree.body if isinstance(n, ast.Assign) and any(norm(t) in ("modulus", "BL") for t in n.targets)]
        for n in local:
            r7.violation("%s:%s" % (mm.relpath, n.lineno), md, norm(n)[:80],
                         "a derived backend binds `%s` in its own namespace: the star-imported functions (get_modulus, fieldinverse, "
                         "prove) keep reading the base module's value, so `%s` is reported while the base field is in effect" % (
                             norm(n.targets[0]), nm), "localfield/%s/%s" % (nm, norm(n.targets[0])))
    # R-C19-6 (informational)
    r6 = rep.rule("R-C19-6", "derived backends act on the base module's state (informational)", floor=0)
    for nm, md in rows:
        mm = repo.modules.get(md)
        if mm is not None and mm.star_imports:
            r6.note("%s:1" % mm.relpath, md, "star-imports %s" % ", ".join(mm.star_imports),
                    "functions keep the base module's globals: the module receiving constraints is the base module")


def _blocks(node):
    """All statement lists inside a compound statement."""
    out = []
    for n in ast.walk(node):
        for fld in ("body", "orelse", "finalbody"):
            b = getattr(n, fld, None)
            if isinstance(b, list) and b and isinstance(b[0], ast.stmt):
                out.append(b)
        if isinstance(n, ast.Try):
            for h in n.handlers:
                out.append(h.body)
    return out
