"""C13 - backend linear combinations: faithful immutable algebra over the right prime.

R-C13-1  operand immutability of every linear-combination operator (effect analysis + package census)
R-C13-2  algebra: merge key-coverage of __add__, scaling of every coefficient in __mul__, __neg__ = * -1,
         __sub__ = + (-other)   (decided when the shape is interpretable, else undecided)
R-C13-3  the modulus literal of each proof-producing backend is the scalar-field order of its curve (and prime)
R-C13-4  fieldinverse inverts modulo the very modulus get_modulus() reports; pure-Python fallback is pow(x, m-2, m)
"""
import ast

from ..loader import norm, AnalysisError, parents
from ..poly import P, poly_of

def _normalising_ctor(ci, fld, mods):
    """the constructor of a term-list class that keeps its terms in normal form: pairs (c, v) are accumulated into a dict
       self.F[v] = (self.F.get(v, 0) + c) % M, an entry that becomes 0 is removed.  Then the operators may hand it unreduced,
       unmerged pair lists: reduction and cancellation happen here, for every object, whatever built it."""
    init = ci.methods.get("__init__")
    if init is None or len(init.params) != 2:
        return False
    par = init.params[1]
    body = [s for s in init.node.body if not (isinstance(s, ast.Expr) and isinstance(s.value, ast.Constant))]
    if len(body) != 2 or norm(body[0]).replace(" ", "") not in ("self.%s=dict()" % fld, "self.%s={}" % fld):
        return False
    lp = body[1]
    if not (isinstance(lp, ast.For) and not lp.orelse and norm(lp.iter) == par and isinstance(lp.target, ast.Tuple) and len(lp.target.elts) == 2
            and all(isinstance(e, ast.Name) for e in lp.target.elts) and len(lp.body) == 2):
        return False
    c, v = lp.target.elts[0].id, lp.target.elts[1].id
    acc, st = lp.body
    ok_acc = False
    if isinstance(acc, ast.Assign) and len(acc.targets) == 1 and isinstance(acc.targets[0], ast.Name) and isinstance(acc.value, ast.BinOp) \
            and isinstance(acc.value.op, ast.Mod) and norm(acc.value.right) in mods:
        nm = acc.targets[0].id
        if norm(acc.value.left).replace(" ", "") in ("self.%s.get(%s,0)+%s" % (fld, v, c), "%s+self.%s.get(%s,0)" % (c, fld, v)):
            ok_acc = True
    if not ok_acc:
        return False
    if not (isinstance(st, ast.If) and len(st.body) == 1 and len(st.orelse) == 1):
        return False
    t = norm(st.test).replace(" ", "")
    keep, drop = (st.body[0], st.orelse[0]) if t in ("%s!=0" % nm, nm) else ((st.orelse[0], st.body[0]) if t in ("%s==0" % nm, "not%s" % nm) else (None, None))
    if keep is None:
        return False
    return norm(keep).replace(" ", "") == "self.%s[%s]=%s" % (fld, v, nm) and norm(drop).replace(" ", "") in (
        "self.%s.pop(%s,None)" % (fld, v), "delself.%s[%s]" % (fld, v))


def _pairs_of(ci, fld, fn, e, depth=0):
    """the object whose complete list of (coefficient, variable) pairs the expression denotes, or None:
       X.F.items() read as (v, c) and re-paired, a method of the class that returns exactly that for self, a local bound to one"""
    from ..flatten import resolve_locals
    e = resolve_locals(fn, e)
    if isinstance(e, ast.Call) and isinstance(e.func, ast.Attribute) and not e.args and isinstance(e.func.value, ast.Name) and depth < 2:
        m = ci.methods.get(e.func.attr)
        if m is not None and len(m.params) == 1:
            rets = [r for r in ast.walk(m.node) if isinstance(r, ast.Return) and r.value is not None]
            if len(rets) == 1 and _pairs_of(ci, fld, m.node, rets[0].value, depth + 1) == m.params[0]:
                return e.func.value.id
    if isinstance(e, ast.ListComp) and len(e.generators) == 1 and not e.generators[0].ifs and isinstance(e.generators[0].target, ast.Tuple) \
            and len(e.generators[0].target.elts) == 2 and isinstance(e.elt, ast.Tuple) and len(e.elt.elts) == 2:
        g = e.generators[0]
        vv, cc = norm(g.target.elts[0]), norm(g.target.elts[1])
        it = g.iter
        if isinstance(it, ast.Call) and isinstance(it.func, ast.Attribute) and it.func.attr == "items" and not it.args \
                and isinstance(it.func.value, ast.Attribute) and it.func.value.attr == fld and isinstance(it.func.value.value, ast.Name) \
                and norm(e.elt.elts[0]) == cc and norm(e.elt.elts[1]) == vv:
            return it.func.value.value.id
    return None


def _mapped_pairs(ci, fld, fn, e):
    """(object, coefficient expression, coefficient variable) for `[(F(c), v) for (c, v) in <pairs of object>]`"""
    from ..flatten import resolve_locals
    e = resolve_locals(fn, e)
    if isinstance(e, ast.ListComp) and len(e.generators) == 1 and not e.generators[0].ifs and isinstance(e.generators[0].target, ast.Tuple) \
            and len(e.generators[0].target.elts) == 2 and isinstance(e.elt, ast.Tuple) and len(e.elt.elts) == 2:
        g = e.generators[0]
        src = _pairs_of(ci, fld, fn, g.iter)
        cv, vv = norm(g.target.elts[0]), norm(g.target.elts[1])
        if src is not None and norm(e.elt.elts[1]) == vv:
            return src, e.elt.elts[0], cv
        # directly over the dict: for v, c in X.F.items()
        it = g.iter
        if isinstance(it, ast.Call) and isinstance(it.func, ast.Attribute) and it.func.attr == "items" and isinstance(it.func.value, ast.Attribute) \
                and it.func.value.attr == fld and isinstance(it.func.value.value, ast.Name) and norm(e.elt.elts[1]) == cv:
            return it.func.value.value.id, e.elt.elts[0], vv
    return None


LC_CLASSES = [
    ("pysnark.snarkjsbackend", "LinearCombination", "lc", "dict"),
    ("pysnark.zkinterface.backend", "LinearCombination", "lc", "dict"),
    ("pysnark.qaptools.backend", "Sig", "sig", "list"),
]
MUTATORS = {"update", "append", "extend", "pop", "clear", "setdefault", "sort", "insert", "remove", "popitem",
            "reverse", "__setitem__", "__delitem__", "add", "discard"}

BN254_R = 21888242871839275222246405745257275088548364400416034343698204186575808495617
BLS12_381_R = 52435875175126190479447740508185965837690552500527637822603658699938581184513
ED25519_L = 2 ** 252 + 27742317777372353535851937790883648493
CURVE_OF_BACKEND = {  # registry name -> (curve, scalar-field order)     trusted base: curve specifications
    "snarkjs": ("BN254 / alt_bn128", BN254_R),
    "zkinterface": ("BN254 / alt_bn128", BN254_R),
    "qaptools": ("BN254 / alt_bn128", BN254_R),
    "zkifbellman": ("BLS12-381", BLS12_381_R),
    "zkifbulletproofs": ("Curve25519 / ristretto", ED25519_L),
}


def is_prime(n):
    """Deterministic Miller-Rabin for n < 3.3e24 with the first 13 primes as bases; for larger n the same
    bases plus the first 40 primes (error probability negligible; the literals are also compared with the table)."""
    if n < 2:
        return False
    small = [2, 3, 5, 7, 11, 13, 17, 19, 23, 29, 31, 37, 41, 43, 47, 53, 59, 61, 67, 71, 73, 79, 83, 89, 97, 101,
             103, 107, 109, 113, 127, 131, 137, 139, 149, 151, 157, 163, 167, 173]
    for p in small:
        if n % p == 0:
            return n == p
    d, r = n - 1, 0
    while d % 2 == 0:
        d //= 2
        r += 1
    for a in small:
        x = pow(a, d, n)
        if x in (1, n - 1):
            continue
        for _ in range(r - 1):
            x = x * x % n
            if x == n - 1:
                break
        else:
            return False
    return True


def int_literal(node):
    if isinstance(node, ast.Constant) and isinstance(node.value, int) and not isinstance(node.value, bool):
        return node.value
    if isinstance(node, ast.BinOp):
        l, r = int_literal(node.left), int_literal(node.right)
        if l is None or r is None:
            return None
        try:
            if isinstance(node.op, ast.Add):
                return l + r
            if isinstance(node.op, ast.Sub):
                return l - r
            if isinstance(node.op, ast.Mult):
                return l * r
            if isinstance(node.op, ast.Pow) and 0 <= r < 2048:
                return l ** r
            if isinstance(node.op, ast.LShift) and 0 <= r < 2048:
                return l << r
        except Exception:
            return None
    return None


# --------------------------------------------------------------------------------------------- R-C13-1
def _roots(expr):
    """Base name of an attribute/subscript chain."""
    while isinstance(expr, (ast.Attribute, ast.Subscript)):
        expr = expr.value
    return expr.id if isinstance(expr, ast.Name) else None


_DUNDER = {ast.Add: "__add__", ast.Sub: "__sub__", ast.Mult: "__mul__", ast.USub: "__neg__"}


def _op_dunder(e):
    """the operator method an expression over linear combinations calls (on its left / only operand), or None"""
    if isinstance(e, ast.BinOp) and type(e.op) in _DUNDER:
        return _DUNDER[type(e.op)]
    if isinstance(e, ast.UnaryOp) and type(e.op) in _DUNDER:
        return _DUNDER[type(e.op)]
    if isinstance(e, ast.Call) and isinstance(e.func, ast.Attribute) and e.func.attr in _DUNDER.values():
        return e.func.attr
    return None


def _may_return_operand(ci):
    """operators of the class that can hand back one of their operands (the very object): `return self`, or the result of
    another such operator applied to an operand"""
    may = set()
    changed = True
    while changed:
        changed = False
        for mn, fi in ci.methods.items():
            if mn in may or mn not in _DUNDER.values() and not (mn.startswith("__r") and mn[3:] in [d[2:] for d in _DUNDER.values()]):
                continue
            for r in ast.walk(fi.node):
                if isinstance(r, ast.Return) and r.value is not None:
                    v = r.value
                    if (isinstance(v, ast.Name) and v.id in fi.params) or (_op_dunder(v) in may and any(
                            isinstance(x, ast.Name) and x.id in fi.params for x in ast.walk(v))):
                        may.add(mn)
                        changed = True
                        break
    return may


def immutability(repo, rule):
    for mod, cn, fld, _shape in LC_CLASSES:
        ci = repo.cls(mod, cn)
        may_alias = _may_return_operand(ci)
        for mn, fi in sorted(ci.methods.items()):
            if not (mn.startswith("__") and mn.endswith("__")) or mn in ("__init__", "__str__", "__repr__"):
                continue
            operands = set(fi.params)
            aliases = {}
            problems = []
            for n in ast.walk(fi.node):
                if isinstance(n, ast.Assign) and len(n.targets) == 1 and isinstance(n.targets[0], ast.Name):
                    v = n.value
                    if isinstance(v, ast.Attribute) and _roots(v) in operands:
                        aliases[n.targets[0].id] = norm(v)
                    elif isinstance(v, ast.Name) and v.id in aliases:
                        aliases[n.targets[0].id] = aliases[v.id]
                    elif _op_dunder(v) in may_alias and any(isinstance(x, ast.Name) and x.id in operands for x in ast.walk(v)):
                        # ret = -other, where negation / scaling may hand back `other` itself (a shortcut `return self`):
                        # ret can BE the operand
                        aliases[n.targets[0].id] = "%s (operator %s may return its operand)" % (norm(v), _op_dunder(v))
                    elif isinstance(v, ast.Attribute) and _roots(v) in aliases:
                        aliases[n.targets[0].id] = aliases[_roots(v)]
            shared = operands | set(aliases)
            for n in ast.walk(fi.node):
                tg = []
                if isinstance(n, ast.Assign):
                    tg = n.targets
                elif isinstance(n, (ast.AugAssign, ast.AnnAssign)):
                    tg = [n.target]
                elif isinstance(n, ast.Delete):
                    tg = n.targets
                for t in tg:
                    for e in (t.elts if isinstance(t, (ast.Tuple, ast.List)) else [t]):
                        if isinstance(e, (ast.Attribute, ast.Subscript)) and _roots(e) in shared:
                            problems.append((n, "stores into `%s`" % norm(e)))
                        if isinstance(n, ast.AugAssign) and isinstance(e, ast.Name) and e.id in aliases:
                            problems.append((n, "augmented assignment on `%s`, an alias of `%s`" % (e.id, aliases[e.id])))
                if isinstance(n, ast.Call) and isinstance(n.func, ast.Attribute) and n.func.attr in MUTATORS \
                        and _roots(n.func.value) in shared and isinstance(n.func.value, (ast.Attribute, ast.Name)):
                    if isinstance(n.func.value, ast.Name) and n.func.value.id in operands and n.func.value.id not in aliases:
                        continue   # method call on the operand object itself, e.g. other.append? not a container
                    problems.append((n, "calls mutating method `%s` on `%s`" % (n.func.attr, norm(n.func.value))))
            where = fi.loc()
            if problems:
                for n, why in problems:
                    rule.violation(fi.loc(n), fi.fq, norm(n)[:160], "operator %s its operand: %s" % ("alters", why),
                                   "%s/%s" % (fi.fq, why.split("`")[0].strip()))
            else:
                rule.ok(where, fi.fq, "no store / mutating call reaches self, other or an alias of their containers")
            for n in ast.walk(fi.node):
                if isinstance(n, ast.Return) and n.value is not None:
                    t = norm(n.value)
                    if t in operands or t in aliases:
                        rule.note(fi.loc(n), fi.fq, "return " + t, "result aliases an operand (harmless while no operator mutates)")
    # fresh objects from one()/zero()
    for mod, cn, fld, _shape in LC_CLASSES:
        m = repo.module(mod)
        for fn in ("one", "zero"):
            fi = m.functions.get(fn)
            if fi is None:
                continue
            rets = [n for n in ast.walk(fi.node) if isinstance(n, ast.Return)]
            ok = all(isinstance(r.value, ast.Call) and norm(r.value.func) == cn and r.value.args and
                     isinstance(r.value.args[0], (ast.Dict, ast.List, ast.ListComp, ast.DictComp)) for r in rets) and rets
            if ok:
                rule.ok(fi.loc(), fi.fq, norm(rets[0]), "fresh object around a fresh container on every call")
            else:
                rule.violation(fi.loc(), fi.fq, norm(rets)[:120], "%s() hands out a shared object/container" % fn,
                               "%s/shared" % fi.fq)
    # package census: nobody mutates a backend container through .lc.lc / .lc.sig
    n_sites = 0
    for m in repo.modules.values():
        for n in ast.walk(m.tree):
            chain = None
            if isinstance(n, (ast.Assign, ast.AugAssign)):
                for t in (n.targets if isinstance(n, ast.Assign) else [n.target]):
                    if isinstance(t, ast.Subscript) or isinstance(t, ast.Attribute):
                        txt = norm(t)
                        if ".lc.lc" in txt or ".lc.sig" in txt:
                            chain = txt
            if isinstance(n, ast.Call) and isinstance(n.func, ast.Attribute) and n.func.attr in MUTATORS:
                txt = norm(n.func.value)
                if txt.endswith(".lc.lc") or txt.endswith(".lc.sig"):
                    chain = txt
            if chain:
                n_sites += 1
                rule.violation("%s:%s" % (m.relpath, n.lineno), m.name, norm(n)[:120],
                               "mutates a backend linear combination's container in place", "census/%s/%s" % (m.name, chain))
    rule.ok("package", "census", "%d in-place mutations of .lc.lc / .lc.sig in %d modules" % (n_sites, len(repo.modules)))


# --------------------------------------------------------------------------------------------- R-C13-2
class Undecided(Exception):
    pass


def merge_add(fi, fld, mode="add"):
    """Abstractly execute a dict-merging __add__ for the three key classes; returns {class: P}."""
    S, O = P.sym("S"), P.sym("O")
    self_n, other_n = fi.params[0], fi.params[1]
    res_name = None
    result = {}
    # key classes; "both-cancel": present in both operands with coefficients that sum to exactly 0
    classes = ("both", "both-cancel", "self-only", "other-only")
    locs = {}

    def member(k, which):   # is abstract key of class k in operand `which`?
        return k in ("both", "both-cancel") or (k == "self-only" and which == "self") or (k == "other-only" and which == "other")

    def is_zero(p, k):
        """is the coefficient polynomial zero for keys of class k?  (symbols are generic non-zero coefficients)"""
        if k == "both-cancel":
            p = p.subst({"O": -S if mode == "add" else S})
        return p.is_zero()

    def operand_of(expr):
        t = norm(expr)
        for nm, which in ((self_n, "self"), (other_n, "other")):
            if t in ("%s.%s" % (nm, fld), "%s.%s.keys()" % (nm, fld), "%s.%s.items()" % (nm, fld)):
                return which, t.endswith(".items()")
        return None, False

    def value(expr, k, keyvar, valvar):
        env = {}
        for nm, which, sym in ((self_n, "self", S), (other_n, "other", O)):
            present = member(k, which)
            env["%s.%s[%s]" % (nm, fld, keyvar)] = sym if present else None
            env["%s.%s.get(%s, 0)" % (nm, fld, keyvar)] = sym if present else P.const(0)
        if valvar:
            env[valvar[0]] = S if valvar[1] == "self" else O
        for ln, lv in locs.items():
            env[ln] = lv
        if res_name:
            cur = result.get(k)
            env["%s[%s]" % (res_name, keyvar)] = cur
            env["%s.get(%s, 0)" % (res_name, keyvar)] = cur if cur is not None else P.const(0)
        subs = {norm(x) for x in ast.walk(expr) if isinstance(x, (ast.Subscript, ast.Call))}
        for t, v in env.items():
            if v is None and t in subs:
                raise Undecided("reads `%s` for a key that is absent (KeyError)" % t)
        p = poly_of(expr, {t: v for t, v in env.items() if v is not None}, strict=True)
        if p is None:
            raise Undecided("value expression `%s` not interpretable" % norm(expr))
        return p

    def test(expr, k, keyvar):
        if isinstance(expr, ast.UnaryOp) and isinstance(expr.op, ast.Not):
            return not test(expr.operand, k, keyvar)
        if isinstance(expr, ast.Compare) and len(expr.ops) == 1 and norm(expr.left) == keyvar:
            which, _ = operand_of(expr.comparators[0])
            if which is None and res_name and norm(expr.comparators[0]) == res_name:
                r = k in result
            elif which is None:
                raise Undecided("test `%s`" % norm(expr))
            else:
                r = member(k, which)
            if isinstance(expr.ops[0], ast.In):
                return r
            if isinstance(expr.ops[0], ast.NotIn):
                return not r
        # zero tests on coefficient expressions:  c != 0 / c == 0 / c
        if isinstance(expr, ast.Compare) and len(expr.ops) == 1 and isinstance(expr.ops[0], (ast.Eq, ast.NotEq)):
            sides = [expr.left, expr.comparators[0]]
            zero = [x for x in sides if isinstance(x, ast.Constant) and x.value == 0]
            rest = [x for x in sides if not (isinstance(x, ast.Constant) and x.value == 0)]
            if len(zero) == 1 and len(rest) == 1:
                z = is_zero(value(rest[0], k, keyvar, cur_valvar[0]), k)
                return z if isinstance(expr.ops[0], ast.Eq) else not z
        if isinstance(expr, (ast.Name, ast.Subscript, ast.BinOp, ast.Call)):
            return not is_zero(value(expr, k, keyvar, cur_valvar[0]), k)
        raise Undecided("test `%s` not interpretable" % norm(expr))

    cur_valvar = [None]

    def run(stmts, k, keyvar, valvar):
        cur_valvar[0] = valvar
        for s in stmts:
            if isinstance(s, ast.Assign) and len(s.targets) == 1 and isinstance(s.targets[0], ast.Name) \
                    and s.targets[0].id not in (res_name, keyvar):
                locs[s.targets[0].id] = value(s.value, k, keyvar, valvar)      # loop-local coefficient
                continue
            if isinstance(s, ast.Delete) and len(s.targets) == 1 and isinstance(s.targets[0], ast.Subscript) \
                    and norm(s.targets[0].value) == res_name and norm(s.targets[0].slice) == keyvar:
                if k not in result:
                    raise Undecided("deletes a missing key (KeyError)")
                del result[k]
                continue
            if isinstance(s, ast.Expr) and isinstance(s.value, ast.Call) and norm(s.value.func) == "%s.pop" % res_name \
                    and s.value.args and norm(s.value.args[0]) == keyvar:
                if k not in result and len(s.value.args) < 2:
                    raise Undecided("pops a missing key (KeyError)")
                result.pop(k, None)
                continue
            if isinstance(s, ast.If):
                run(s.body if test(s.test, k, keyvar) else s.orelse, k, keyvar, valvar)
            elif isinstance(s, ast.Assign) and isinstance(s.targets[0], ast.Subscript) \
                    and norm(s.targets[0].value) == res_name and norm(s.targets[0].slice) == keyvar:
                result[k] = value(s.value, k, keyvar, valvar)
            elif isinstance(s, ast.AugAssign) and isinstance(s.target, ast.Subscript) \
                    and norm(s.target.value) == res_name and isinstance(s.op, ast.Add):
                if k not in result:
                    raise Undecided("augmented store to a missing key")
                result[k] = result[k] + value(s.value, k, keyvar, valvar)
            elif isinstance(s, ast.Pass):
                pass
            else:
                raise Undecided("statement `%s`" % norm(s)[:60])

    ret = None
    for s in fi.node.body:
        if isinstance(s, ast.Expr) and isinstance(s.value, ast.Constant):
            continue
        if isinstance(s, ast.Assign) and isinstance(s.targets[0], ast.Name) and res_name is None:
            t = norm(s.value)
            res_name = s.targets[0].id
            if t in ("dict()", "{}"):
                pass
            elif t in ("dict(%s.%s)" % (self_n, fld), "%s.%s.copy()" % (self_n, fld)):
                result["both"], result["both-cancel"], result["self-only"] = S, S, S
            elif t in ("dict(%s.%s)" % (other_n, fld), "%s.%s.copy()" % (other_n, fld)):
                result["both"], result["both-cancel"], result["other-only"] = O, O, O
            else:
                raise Undecided("initialisation `%s`" % t)
        elif isinstance(s, ast.For):
            which, items = operand_of(s.iter)
            if which is None or s.orelse:
                raise Undecided("loop over `%s`" % norm(s.iter))
            if items:
                if not (isinstance(s.target, ast.Tuple) and len(s.target.elts) == 2):
                    raise Undecided("items() target")
                keyvar, valvar = norm(s.target.elts[0]), (norm(s.target.elts[1]), which)
            else:
                keyvar, valvar = norm(s.target), None
            for k in classes:
                if member(k, which):
                    locs.clear()
                    run(s.body, k, keyvar, valvar)
        elif isinstance(s, ast.Return):
            ret = s
        else:
            raise Undecided("statement `%s`" % norm(s)[:60])
    if ret is None or not (isinstance(ret.value, ast.Call) and ret.value.args and norm(ret.value.args[0]) == res_name):
        raise Undecided("result is not constructed from the merged container")
    # a cancelled key may be dropped or kept with coefficient 0: normalise to "its coefficient is zero"
    g = result.get("both-cancel")
    result["both-cancel"] = P() if (g is None or is_zero(g, "both-cancel")) else g
    if mode == "sub":
        return result, {"both": S - O, "both-cancel": P(), "self-only": S, "other-only": -O}
    return result, {"both": S + O, "both-cancel": P(), "self-only": S, "other-only": O}


def algebra(repo, rule, only=None):
    for mod, cn, fld, shape in LC_CLASSES:
        if only is not None and mod not in only:
            continue
        ci = repo.cls(mod, cn)
        modulus_names = {"vc_p"} if shape == "list" else set()
        add = ci.methods.get("__add__")
        mul = ci.methods.get("__mul__")
        neg = ci.methods.get("__neg__")
        sub = ci.methods.get("__sub__")
        for need, fi in (("__add__", add), ("__mul__", mul), ("__neg__", neg), ("__sub__", sub)):
            if fi is None:
                raise AnalysisError("%s:%s.%s not found" % (mod, cn, need))
        # ---- the container handed to the constructor is a real container, never a one-shot iterator
        gens = {n_ for n_, f_ in ci.methods.items() if any(isinstance(x, (ast.Yield, ast.YieldFrom)) for x in ast.walk(f_.node))}
        gens |= {n_ for n_, f_ in repo.module(mod).functions.items() if "." not in n_ and any(
            isinstance(x, (ast.Yield, ast.YieldFrom)) for x in ast.walk(f_.node))}
        for mn_, f_ in sorted(ci.methods.items()):
            if not (mn_.startswith("__") and mn_.endswith("__")) or mn_ in ("__init__", "__str__", "__repr__"):
                continue
            for c_ in ast.walk(f_.node):
                if isinstance(c_, ast.Call) and norm(c_.func) == cn and len(c_.args) == 1:
                    from ..flatten import resolve_locals as _rlc
                    a_ = _rlc(f_.node, c_.args[0])
                    lazy = isinstance(a_, ast.GeneratorExp) or (isinstance(a_, ast.Call) and norm(a_.func).split(".")[-1] in gens | {
                        "map", "filter", "zip", "iter", "reversed"})
                    if lazy:
                        rule.violation(f_.loc(c_), f_.fq, norm(c_)[:100], "the %s is built over a one-shot iterator (%s): the first use "
                                       "consumes it, every later use of the same object sees an empty linear combination" % (
                                           cn, norm(a_)[:40]), "%s/lazy-container" % f_.fq)
        # ---- __add__
        if shape == "dict":
            try:
                got, want = merge_add(add, fld)
                for k in ("both", "both-cancel", "self-only", "other-only"):
                    g = got.get(k)
                    term = "key in %s: result coefficient %s (expected %s)" % (k, g, want[k])
                    if g is not None and g == want[k]:
                        rule.ok(add.loc(), add.fq, term)
                    else:
                        rule.violation(add.loc(), add.fq, term,
                                       "merged coefficient for a key present in %s is %s" % (
                                           {"both": "both operands", "both-cancel": "both operands with coefficients that cancel to 0",
                                            "self-only": "self only", "other-only": "other only"}[k],
                                           "missing" if g is None else "wrong"), "%s/%s" % (add.fq, k))
            except Undecided as e:
                rule.undecided(add.loc(), add.fq, norm(add.node.body)[:160], "merge shape not interpretable: %s" % e)
        else:
            rets = [n for n in ast.walk(add.node) if isinstance(n, ast.Return)]
            s_, o_ = add.params
            t = norm(rets[0].value) if rets else ""
            normctor = _normalising_ctor(ci, fld, modulus_names)
            cat = None
            if normctor and rets and isinstance(rets[0].value, ast.Call) and norm(rets[0].value.func) == cn and len(rets[0].value.args) == 1:
                from ..flatten import resolve_locals as _rla
                a0 = _rla(add.node, rets[0].value.args[0])
                if isinstance(a0, ast.BinOp) and isinstance(a0.op, ast.Add):
                    cat = {_pairs_of(ci, fld, add.node, a0.left), _pairs_of(ci, fld, add.node, a0.right)}
            if t in ("%s(%s.%s + %s.%s)" % (cn, s_, fld, o_, fld), "%s(%s.%s + %s.%s)" % (cn, o_, fld, s_, fld)):
                rule.ok(add.loc(), add.fq, t, "term lists concatenated (no merge, no cancellation)")
            elif cat == {s_, o_}:
                rule.ok(add.loc(), add.fq, t[:120], "all pairs of both operands handed to the normalising constructor (merged, reduced mod p, "
                                                    "cancelled terms dropped there)")
            else:
                rule.undecided(add.loc(), add.fq, t, "term-list addition not in the concatenation form")
        # ---- __mul__
        rets = [n for n in ast.walk(mul.node) if isinstance(n, ast.Return)]
        s_, o_ = mul.params[0], mul.params[1]
        done = False
        if len(rets) == 1 and isinstance(rets[0].value, ast.Call) and rets[0].value.args:
            comp = rets[0].value.args[0]
            if isinstance(comp, (ast.DictComp, ast.ListComp)) and len(comp.generators) == 1:
                g = comp.generators[0]
                if g.ifs:
                    rule.violation(mul.loc(), mul.fq, norm(comp), "scaling drops terms conditionally", mul.fq + "/filter")
                    done = True
                elif isinstance(g.target, ast.Tuple) and len(g.target.elts) == 2 and \
                        norm(g.iter) in ("%s.%s.items()" % (s_, fld), "%s.%s" % (s_, fld)):
                    a, b = norm(g.target.elts[0]), norm(g.target.elts[1])
                    if shape == "dict":
                        keyv, coefv, keye, coefe = a, b, comp.key, comp.value
                    else:
                        coefv, keyv = a, b
                        elt = comp.elt
                        if not (isinstance(elt, ast.Tuple) and len(elt.elts) == 2):
                            elt = None
                        coefe, keye = (elt.elts[0], elt.elts[1]) if elt is not None else (None, None)
                    if keye is not None:
                        expr = coefe
                        reduced = False
                        if isinstance(expr, ast.BinOp) and isinstance(expr.op, ast.Mod):
                            reduced = norm(expr.right)
                            expr = expr.left
                        p = poly_of(expr, {coefv: P.sym("c"), o_: P.sym("k")}, strict=True)
                        ok = norm(keye) == keyv and p == P.sym("c") * P.sym("k")
                        if shape == "list":
                            ok = ok and reduced in modulus_names
                        term = "every term: key %s, coefficient %s%s" % (norm(keye), p, " mod " + reduced if reduced else "")
                        if ok:
                            rule.ok(mul.loc(), mul.fq, term)
                        else:
                            rule.violation(mul.loc(), mul.fq, term, "scalar multiplication does not map every coefficient c "
                                           "to c*k on the same variable" + (" reduced mod the field prime" if shape == "list" else ""),
                                           mul.fq + "/scale")
                        done = True
        if not done and shape == "list" and _normalising_ctor(ci, fld, modulus_names) and len(rets) == 1 and isinstance(rets[0].value, ast.Call) \
                and norm(rets[0].value.func) == cn and len(rets[0].value.args) == 1:
            mp = _mapped_pairs(ci, fld, mul.node, rets[0].value.args[0])
            if mp is not None and mp[0] == s_:
                e_ = mp[1]
                if isinstance(e_, ast.BinOp) and isinstance(e_.op, ast.Mod) and norm(e_.right) in modulus_names:
                    e_ = e_.left
                pm = poly_of(e_, {mp[2]: P.sym("c"), o_: P.sym("k")}, strict=True)
                term = "every term: same variable, coefficient %s (reduced by the normalising constructor)" % pm
                if pm == P.sym("c") * P.sym("k"):
                    rule.ok(mul.loc(), mul.fq, term)
                else:
                    rule.violation(mul.loc(), mul.fq, term, "scalar multiplication does not map every coefficient c to c*k on the same variable",
                                   mul.fq + "/scale")
                done = True
        if not done:
            rule.undecided(mul.loc(), mul.fq, norm(mul.node.body)[:160], "scaling shape not interpretable")
        # ---- __neg__
        rets = [n for n in ast.walk(neg.node) if isinstance(n, ast.Return)]
        t = norm(rets[0].value) if rets else ""
        sn = neg.params[0]
        if t in ("%s * -1" % sn, "-1 * %s" % sn, "%s.__mul__(-1)" % sn):
            rule.ok(neg.loc(), neg.fq, t)
        elif shape == "list" and rets and isinstance(rets[0].value, ast.Call) and rets[0].value.args and \
                isinstance(rets[0].value.args[0], ast.ListComp):
            comp = rets[0].value.args[0]
            elt = comp.elt
            g = comp.generators[0]
            okk = False
            if isinstance(elt, ast.Tuple) and len(elt.elts) == 2 and isinstance(g.target, ast.Tuple) and not g.ifs \
                    and norm(g.iter) == "%s.%s" % (sn, fld):
                cv, vv = norm(g.target.elts[0]), norm(g.target.elts[1])
                e = elt.elts[0]
                red = None
                if isinstance(e, ast.BinOp) and isinstance(e.op, ast.Mod):
                    red = norm(e.right)
                    e = e.left
                p = poly_of(e, {cv: P.sym("c")}, strict=True)
                okk = p == -P.sym("c") and norm(elt.elts[1]) == vv and red in modulus_names
            if not okk and _normalising_ctor(ci, fld, modulus_names):
                mp = _mapped_pairs(ci, fld, neg.node, comp)
                if mp is not None and mp[0] == sn:
                    e_ = mp[1]
                    if isinstance(e_, ast.BinOp) and isinstance(e_.op, ast.Mod) and norm(e_.right) in modulus_names:
                        e_ = e_.left
                    okk = poly_of(e_, {mp[2]: P.sym("c")}, strict=True) == -P.sym("c")
            if okk:
                rule.ok(neg.loc(), neg.fq, t, "every coefficient negated mod p on the same variable")
            else:
                rule.violation(neg.loc(), neg.fq, t, "negation does not map every coefficient c to -c mod p", neg.fq + "/neg")
        else:
            rule.undecided(neg.loc(), neg.fq, t, "negation shape not interpretable")
        # ---- __sub__
        rets = [n for n in ast.walk(sub.node) if isinstance(n, ast.Return)]
        t = norm(rets[0].value) if rets else ""
        a, b = sub.params
        if t in ("%s + -%s" % (a, b), "%s + (-%s)" % (a, b), "-%s + %s" % (b, a), "%s.__add__(-%s)" % (a, b)):
            rule.ok(sub.loc(), sub.fq, t)
        elif t in ("%s + %s" % (a, b), "%s - %s" % (b, a), "-%s + %s" % (a, b), "%s + -%s" % (b, a)):
            rule.violation(sub.loc(), sub.fq, t, "subtraction is not self + (-other)", sub.fq + "/sub")
        elif shape == "dict":
            # a subtraction that merges the coefficient maps itself: executed on the key classes like __add__
            try:
                got, want = merge_add(sub, fld, mode="sub")
                for k in ("both", "both-cancel", "self-only", "other-only"):
                    g = got.get(k)
                    term = "subtraction, key in %s: result coefficient %s (expected %s)" % (k, g, want[k])
                    if g is not None and g == want[k]:
                        rule.ok(sub.loc(), sub.fq, term)
                    else:
                        rule.violation(sub.loc(), sub.fq, term, "the difference has the wrong coefficient for a variable present in %s" % (
                            {"both": "both operands", "both-cancel": "both operands with equal coefficients",
                             "self-only": "the left operand only", "other-only": "the right operand only"}[k]), "%s/sub/%s" % (sub.fq, k))
            except Undecided as e:
                rule.undecided(sub.loc(), sub.fq, t, "subtraction shape not interpretable: %s" % e)
        else:
            rule.undecided(sub.loc(), sub.fq, t, "subtraction shape not interpretable")


# --------------------------------------------------------------------------------------------- R-C13-3/4
def modulus_sites(repo):
    """registry name -> (module, function/global description, literal node)"""
    out = {}
    sj = repo.module("pysnark.snarkjsbackend")
    zk = repo.module("pysnark.zkinterface.backend")
    op = repo.module("pysnark.qaptools.options")

    def get_modulus_binding(m):
        fi = m.functions.get("get_modulus")
        if fi is None:
            raise AnalysisError("%s: get_modulus not found" % m.name)
        rets = [n for n in ast.walk(fi.node) if isinstance(n, ast.Return)]
        if len(rets) != 1 or not isinstance(rets[0].value, ast.Name):
            return None
        return rets[0].value.id

    def toplevel_value(m, name):
        for n in m.tree.body:
            if isinstance(n, ast.Assign) and any(norm(t) == name for t in n.targets):
                return n
        return None

    b = get_modulus_binding(sj)
    out["snarkjs"] = (sj, b, toplevel_value(sj, b) if b else None)
    b = get_modulus_binding(zk)
    out["zkinterface"] = (zk, b, toplevel_value(zk, b) if b else None)
    qb = repo.module("pysnark.qaptools.backend")
    b = get_modulus_binding(qb)
    out["qaptools"] = (op, b, toplevel_value(op, b) if b else None)
    for nm, mn in (("zkifbellman", "pysnark.zkinterface.backendbellman"),
                   ("zkifbulletproofs", "pysnark.zkinterface.backendbulletproofs")):
        m = repo.module(mn)
        calls = [n for n in m.tree.body if isinstance(n, ast.Expr) and isinstance(n.value, ast.Call)
                 and norm(n.value.func).endswith("set_modulus")]
        out[nm] = (m, "set_modulus", calls)
    return out


def _field_tables(zk):
    """module-level tables  NAME = {"curve": <int literal>, ...}  of the zkinterface backend"""
    out = {}
    for s in zk.tree.body:
        if isinstance(s, ast.Assign) and len(s.targets) == 1 and isinstance(s.targets[0], ast.Name) and isinstance(s.value, ast.Dict) \
                and s.value.keys and all(isinstance(k, ast.Constant) and isinstance(k.value, str) for k in s.value.keys):
            vals = {k.value: int_literal(v) for k, v in zip(s.value.keys, s.value.values)}
            if all(v is not None for v in vals.values()):
                out[s.targets[0].id] = vals
    return out


def modulus_value(node, repo):
    """the integer a modulus expression denotes: a literal, TABLE["name"], or a field name that set_modulus() looks up in a
    module-level table of the zkinterface backend"""
    v = int_literal(node)
    if v is not None or node is None:
        return v
    zk = repo.modules.get("pysnark.zkinterface.backend")
    if zk is None:
        return None
    tabs = _field_tables(zk)
    if isinstance(node, ast.Subscript) and isinstance(node.value, ast.Name) and node.value.id in tabs and isinstance(node.slice, ast.Constant):
        return tabs[node.value.id].get(node.slice.value)
    if isinstance(node, ast.Constant) and isinstance(node.value, str):
        sm = zk.functions.get("set_modulus")
        if sm is not None and sm.params:
            p_ = sm.params[0]
            for x in ast.walk(sm.node):
                if isinstance(x, ast.Subscript) and isinstance(x.value, ast.Name) and x.value.id in tabs and norm(x.slice) == p_:
                    return tabs[x.value.id].get(node.value)
                if isinstance(x, ast.Call) and isinstance(x.func, ast.Attribute) and x.func.attr == "get" and isinstance(x.func.value, ast.Name) \
                        and x.func.value.id in tabs and x.args and norm(x.args[0]) == p_:
                    return tabs[x.func.value.id].get(node.value)
    return None


def moduli(repo, rule):
    sites = modulus_sites(repo)
    for nm, (m, binding, node) in sorted(sites.items()):
        curve, want = CURVE_OF_BACKEND[nm]
        if binding == "set_modulus":
            calls = node
            if len(calls) != 1:
                rule.violation("%s:1" % m.relpath, m.name, "%d set_modulus calls" % len(calls),
                               "derived backend must install its field exactly once at import", "%s/count" % nm)
                continue
            lit = modulus_value(calls[0].value.args[0], repo) if calls[0].value.args else None
            where = "%s:%s" % (m.relpath, calls[0].lineno)
        else:
            if node is None:
                rule.undecided("%s:1" % m.relpath, m.name, "modulus binding %s" % binding, "literal not found at module level")
                continue
            lit = modulus_value(node.value, repo)
            where = "%s:%s" % (m.relpath, node.lineno)
        if lit is None:
            rule.undecided(where, m.name, "modulus of %s" % nm, "not an integer literal")
            continue
        prime = is_prime(lit)
        term = "%s: modulus literal %d (%d bits), prime=%s, table: %s" % (nm, lit, lit.bit_length(), prime, curve)
        if lit == want and prime:
            rule.ok(where, m.name, term)
        else:
            rule.violation(where, m.name, term, "modulus of backend `%s` is not the scalar-field order of %s%s" % (
                nm, curve, "" if prime else " (and is not prime)"), "%s/modulus" % nm)
    # set_modulus updates both globals
    zk = repo.module("pysnark.zkinterface.backend")
    sm = zk.functions.get("set_modulus")
    if sm is not None:
        gl = set()
        for n in ast.walk(sm.node):
            if isinstance(n, ast.Global):
                gl.update(n.names)
        assigned = {norm(t) for n in ast.walk(sm.node) if isinstance(n, ast.Assign) for t in n.targets}
        derived = [n for n in zk.tree.body if isinstance(n, ast.Assign) and any("modulus" in norm(x) for x in ast.walk(n.value)
                   if isinstance(x, ast.Name)) and norm(n.targets[0]) != "modulus"]
        need = {"modulus"} | {norm(d.targets[0]) for d in derived}
        if need <= assigned and need <= gl:
            rule.ok(sm.loc(), sm.fq, "updates %s" % sorted(need), "the field switch updates every global derived from the modulus")
        else:
            rule.violation(sm.loc(), sm.fq, "assigned %s, need %s" % (sorted(assigned), sorted(need)),
                           "set_modulus leaves a global derived from the old modulus in place", "set_modulus/globals")


def inverse(repo, rule):
    for nm, mn in (("snarkjs", "pysnark.snarkjsbackend"), ("zkinterface", "pysnark.zkinterface.backend"),
                   ("qaptools", "pysnark.qaptools.backend")):
        m = repo.module(mn)
        fi = m.functions.get("fieldinverse")
        gm = m.functions.get("get_modulus")
        if fi is None or gm is None:
            raise AnalysisError("%s: fieldinverse/get_modulus not found" % mn)
        rets = [n for n in ast.walk(fi.node) if isinstance(n, ast.Return)]
        gr = [n for n in ast.walk(gm.node) if isinstance(n, ast.Return)]
        mod_b = norm(gr[0].value) if gr else None
        from ..flatten import resolve_locals as _rl
        call = _rl(fi.node, rets[0].value) if rets else None        # locals holding the inverse are substituted
        t = norm(call) if call is not None else ""
        inner = None
        if isinstance(call, ast.Call) and norm(call.func) == "int" and call.args and isinstance(call.args[0], ast.Call):
            inner = call.args[0]
        elif isinstance(call, ast.Call):
            inner = call
        ok = inner is not None and norm(inner.func).endswith("invert") and len(inner.args) == 2 \
            and norm(inner.args[0]) == fi.params[0] and norm(inner.args[1]) == mod_b
        if not ok and inner is not None and norm(inner.func) == "pow" and len(inner.args) == 3 and norm(inner.args[0]) == fi.params[0] \
                and norm(inner.args[2]) == mod_b and norm(inner.args[1]).replace(" ", "") in ("-1", "%s-2" % mod_b):
            # Fermat / built-in modular inverse: x^(p-2) mod p (0 for x = 0 mod p) or pow(x, -1, p) (raises for it); the zero case
            # must raise ZeroDivisionError like the other backends: pow(x, -1, p) does, the Fermat form needs a test of the result
            if norm(inner.args[1]).replace(" ", "") == "-1":
                ok = True
            else:
                resname = [norm(a.targets[0]) for a in ast.walk(fi.node) if isinstance(a, ast.Assign) and a.value is not None
                           and norm(_rl(fi.node, a.value)) == norm(inner)]
                ok = any(isinstance(i_, ast.If) and norm(i_.test).replace(" ", "") in ["%s==0" % r_ for r_ in resname] + ["not%s" % r_ for r_ in resname]
                         and any(isinstance(b_, ast.Raise) and "ZeroDivisionError" in norm(b_) for b_ in i_.body) for i_ in ast.walk(fi.node))
        if ok:
            rule.ok(fi.loc(), fi.fq, t, "inverse taken modulo the binding get_modulus() returns (%s)" % mod_b)
        else:
            rule.violation(fi.loc(), fi.fq, t, "fieldinverse does not invert its argument modulo `%s`, the modulus "
                           "get_modulus() reports" % mod_b, "%s/inverse" % nm)
    g = repo.module("pysnark.gmpy")
    # selection: try: from gmpy2 import ... invert ... except ImportError: def invert
    tries = [n for n in g.tree.body if isinstance(n, ast.Try)]
    fb = None
    for t in tries:
        imp = [x for x in t.body if isinstance(x, ast.ImportFrom) and x.module == "gmpy2" and any(a.name == "invert" for a in x.names)]
        for h in t.handlers:
            for x in h.body:
                if isinstance(x, ast.FunctionDef) and x.name == "invert":
                    fb = x
        if imp and fb is not None:
            break
    if fb is None:
        rule.undecided("%s:1" % g.relpath, g.name, "invert", "pure-Python fallback not found in the try/except ImportError form")
        return
    # the fallback may dispatch to helper implementations (`return _invert_pow(x, m)` on new interpreters, a Euclid loop on old
    # ones): every implementation it can return the result of is judged by the same criteria
    sibs = {}
    for t in tries:
        for h in t.handlers:
            for x in h.body:
                if isinstance(x, ast.FunctionDef):
                    sibs[x.name] = x
    for x in ast.walk(fb):
        if isinstance(x, ast.FunctionDef) and x is not fb:
            sibs[x.name] = x
    for x in g.tree.body:
        if isinstance(x, ast.FunctionDef):
            sibs.setdefault(x.name, x)
    fparams = [a.arg for a in fb.args.args][:2]
    delegates = [r.value for r in ast.walk(fb) if isinstance(r, ast.Return) and isinstance(r.value, ast.Call) and isinstance(r.value.func, ast.Name)
                 and r.value.func.id in sibs and r.value.func.id != "invert" and [norm(a) for a in r.value.args] == fparams]
    own_rets = [r for r in ast.walk(fb) if isinstance(r, ast.Return) and r.value is not None and r.value not in delegates]
    if delegates and not own_rets:
        for d in delegates:
            _judge_inverse(rule, g, sibs[d.func.id], "pysnark.gmpy:invert/%s" % d.func.id)
        return
    _judge_inverse(rule, g, fb, "pysnark.gmpy:invert")


def _judge_inverse(rule, g, fb, fq):
    x_, m_ = [a.arg for a in fb.args.args][:2]
    pows = [n for n in ast.walk(fb) if isinstance(n, ast.Call) and norm(n.func) in ("pow", "powmod") and len(n.args) == 3]
    good = [p for p in pows if norm(p.args[0]) in (x_, "%s %% %s" % (x_, m_)) and norm(p.args[1]) in ("%s - 2" % m_, "-1") and norm(p.args[2]) in (m_, "abs(%s)" % m_)]
    builtin = [p for p in good if norm(p.args[1]) == "-1"]
    if builtin:
        # pow(x, -1, m): the interpreter's own extended Euclid; it raises (ValueError) when no inverse exists - no zero result to
        # test - and a handler may only turn that into another exception, never into a value
        hs = [h for t_ in ast.walk(fb) if isinstance(t_, ast.Try) and any(builtin[0] is x for b_ in t_.body for x in ast.walk(b_)) for h in t_.handlers]
        swallow = [h for h in hs if not (h.body and isinstance(h.body[-1], ast.Raise))]
        where = "%s:%s" % (g.relpath, fb.lineno)
        if swallow:
            rule.violation(where, fq, norm(builtin[0]), "the failure of pow(x, -1, m) for a non-invertible argument is swallowed: a value is "
                           "returned where the other backends raise", "gmpy/invert-swallow")
        else:
            rule.ok(where, fq, norm(builtin[0]), "built-in modular inverse; a non-invertible argument raises")
        return
    # the name(s) the power is bound to
    ynames = {norm(a.targets[0]) for a in ast.walk(fb) if isinstance(a, ast.Assign) and len(a.targets) == 1
              and any(x is p_ for p_ in good for x in ast.walk(a.value))}
    zero = [n for n in ast.walk(fb) if isinstance(n, ast.If) and any(norm(n.test) in ("%s == 0" % y_, "not %s" % y_, "0 == %s" % y_) for y_ in ynames)
            and any(isinstance(b, ast.Raise) for b in n.body)]
    if not zero:
        # the other way round: the result is returned only under `y != 0`, and a raise follows
        rets_ = [n for n in ast.walk(fb) if isinstance(n, ast.Return) and n.value is not None]
        guarded_ = [r for r in rets_ if any(isinstance(p_, ast.If) and norm(p_.test) in ("%s != 0" % norm(r.value), norm(r.value), "0 != %s" % norm(r.value))
                                            and any(r is x for st in p_.body for x in ast.walk(st)) for p_ in parents(r))]
        if rets_ and len(guarded_) == len(rets_) and any(isinstance(n, ast.Raise) for n in fb.body):
            zero = guarded_
    where = "%s:%s" % (g.relpath, fb.lineno)
    if good and zero:
        # every power that reaches the result (bound to the result name or returned) is x^(m-2) mod m: an alternative power on
        # some arm (of -x, of abs(x), another exponent) is the inverse of something else for the arguments that take it
        feeds = [n.value for n in ast.walk(fb) if (isinstance(n, ast.Assign) and len(n.targets) == 1 and norm(n.targets[0]) in ynames)
                 or (isinstance(n, ast.Return) and n.value is not None)]
        stray = [p for v in feeds for p in ast.walk(v) if any(p is q for q in pows) and not any(p is q for q in good)]
        if stray:
            rule.violation("%s:%s" % (g.relpath, stray[0].lineno), fq, norm(stray[0]),
                           "on some path the fallback inverse is `%s`, not %s^(%s-2) mod %s: wrong for the arguments taking that path "
                           "(negative / unreduced ones included in the property)" % (norm(stray[0]), x_, m_, m_), "gmpy/invert-arm")
            return
        rule.ok(where, fq, norm(good[0]), "Fermat inverse x^(m-2) mod m (m prime by R-C13-3), zero result raises")
        return
    loops = [n for n in ast.walk(fb) if isinstance(n, ast.While)]
    if loops:
        # extended-Euclid shape: correct only when it starts from the residue of x (non-negative, < m)
        seeds = [norm(a.value) for a in ast.walk(fb) if isinstance(a, ast.Assign) and not any(a in list(ast.walk(l)) for l in loops)]
        reduced = any(("%s %% %s" % (x_, m_)) in t for t in seeds) or any(
            isinstance(a, ast.AugAssign) and isinstance(a.op, ast.Mod) and norm(a.target) == x_ for a in ast.walk(fb))
        if reduced:
            rule.undecided(where, fq, "Euclid-style loop starting from %s %% %s" % (x_, m_),
                           "loop-based inverse: correctness of the loop itself is not decided statically")
        else:
            rule.violation(where, fq, "Euclid-style loop starting from the raw argument: %s" % "; ".join(seeds)[:120],
                           "the fallback inverse runs the Euclidean loop on the unreduced argument: for negative (or >= m) arguments "
                           "the result is not the inverse modulo m", "gmpy/invert-unreduced")
        return
    rule.violation(where, fq, norm(fb.body)[:200],
                   "fallback inverse is neither pow(x, m-2, m) with a zero-result check nor a recognised alternative", "gmpy/invert")


def check(repo, rep, tier):
    rep.explanation = ("Effect analysis of every operator of the three pure-Python linear-combination classes (no store, "
                       "mutating call or alias reaches an operand), an abstract execution of the dictionary merge on the "
                       "three key classes, evaluation of the modulus literals from the ast against the curve table with a "
                       "Miller-Rabin test, and the shape of fieldinverse / the gmpy fallback.")
    rep.trusted = ["curve table in rules/c13.py (scalar-field orders of BN254, BLS12-381, ed25519/ristretto)",
                   "deterministic Miller-Rabin in the checker", "Fermat's little theorem for the pow(x, m-2, m) fallback"]
    rep.not_decided = ["libsnark's C++ linear combinations", "nobackend (not proof-producing; excluded by the property)"]
    r1 = rep.rule("R-C13-1", "linear-combination operators never alter their operands", floor=12)
    immutability(repo, r1)
    r2 = rep.rule("R-C13-2", "merge / scale / negate / subtract compute the field expression", floor=12)
    algebra(repo, r2)
    r3 = rep.rule("R-C13-3", "modulus literals are the curves' prime scalar-field orders", floor=5)
    moduli(repo, r3)
    r4 = rep.rule("R-C13-4", "fieldinverse inverts modulo the reported modulus", floor=4)
    inverse(repo, r4)
