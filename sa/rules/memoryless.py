"""Shared rule: constraint emission is memoryless.

The constraints a gadget emits must depend on its operands and on the *current* guard only.  State that outlives a
call (an attribute planted on a wire object, a module-level table, a new global) and is consulted in a decision makes
emission depend on history: the first use may have happened under a different (false) guard, where the constraints
carry slack and enforce nothing, and the later use then emits nothing.
"""
import ast

from ..flatten import resolve_locals
from ..loader import norm, parents

CORE = ("pysnark.runtime", "pysnark.boolean", "pysnark.fixedpoint", "pysnark.array", "pysnark.pack")
# persistent state that is consulted in decisions by design, with the rule that governs it
SANCTIONED = {
    "guard": "the active guard (restored exactly: guard-discipline rules)",
    "_ignore_errors": "error suppression flag (restored exactly: guard-discipline rules)",
    "ONE": "LinComb.ONE is the guard wire while guarded (restored with the guard)",
    "num_constraints": "emission counter (only ever incremented)",
    "arr": "Array.arr is the user-visible mutable content of an Array",
}
MUTATORS = ("append", "add", "update", "setdefault", "pop", "extend", "insert", "clear", "remove", "popitem", "__setitem__")


def _owner(fi, n):
    own = [p for p in parents(n) if isinstance(p, (ast.FunctionDef, ast.Lambda))]
    return not own or own[0] is fi.node


def persistent_stores(repo):
    """{state name: [(fi, node, how)]} for state written outside constructors in the core modules"""
    out = {}

    def add(name, fi, n, how):
        out.setdefault(name, []).append((fi, n, how))
    for mn in CORE:
        m = repo.module(mn)
        module_names = set(m.bindings)
        for fi in m.functions.values():
            if isinstance(fi.node, ast.Lambda):
                continue
            params = set(fi.params)
            local_fresh = set()
            for n in ast.walk(fi.node):
                if isinstance(n, ast.Assign) and len(n.targets) == 1 and isinstance(n.targets[0], ast.Name):
                    local_fresh.add(n.targets[0].id)
            local_fresh -= params
            globals_decl = {g for n in ast.walk(fi.node) if isinstance(n, ast.Global) for g in n.names}
            for n in ast.walk(fi.node):
                if not _owner(fi, n):
                    continue
                tg = []
                if isinstance(n, ast.Assign):
                    tg = n.targets
                elif isinstance(n, (ast.AugAssign, ast.AnnAssign)):
                    tg = [n.target]
                flat = []
                for t in tg:
                    flat += list(t.elts) if isinstance(t, (ast.Tuple, ast.List)) else [t]
                for x in flat:
                    if isinstance(x, ast.Attribute):
                        base = x.value
                        in_ctor = fi.name == "__init__" and isinstance(base, ast.Name) and fi.params and base.id == fi.params[0]
                        if in_ctor or x.attr == "value":
                            continue          # constructor field / value reduction (R-C04-2)
                        add(x.attr, fi, n, "attribute store %s" % norm(x))
                    elif isinstance(x, ast.Subscript):
                        b = x.value
                        while isinstance(b, ast.Subscript):
                            b = b.value
                        if isinstance(b, ast.Attribute):
                            add(b.attr, fi, n, "item store %s" % norm(x))
                        elif isinstance(b, ast.Name) and b.id in module_names and b.id not in local_fresh and b.id not in params:
                            add(b.id, fi, n, "item store into module-level %s" % norm(x))
                    elif isinstance(x, ast.Name) and x.id in globals_decl:
                        add(x.id, fi, n, "global %s assigned" % x.id)
                if isinstance(n, ast.Call):
                    f = norm(n.func)
                    if f in ("setattr", "object.__setattr__") and len(n.args) >= 2:
                        nm = n.args[1].value if isinstance(n.args[1], ast.Constant) else norm(n.args[1])
                        add(str(nm), fi, n, "setattr")
                    elif isinstance(n.func, ast.Attribute) and n.func.attr in MUTATORS:
                        b = n.func.value
                        if isinstance(b, ast.Attribute) and not norm(b).startswith("backend."):
                            add(b.attr, fi, n, "container mutation %s" % norm(n)[:60])
                        elif isinstance(b, ast.Name) and b.id in module_names and b.id not in local_fresh and b.id not in params:
                            add(b.id, fi, n, "module-level container mutation %s" % norm(n)[:60])
                if isinstance(n, ast.Attribute) and n.attr == "__dict__":
                    add("__dict__", fi, n, "instance dictionary access")
    return out


def decision_reads(repo, names):
    """{name: [(fi, test node)]}: tests (if / conditional expression / while / assert / comprehension filter /
    getattr-with-default / hasattr) in the core modules that read one of the state names"""
    out = {}
    EMITS = ("add_constraint", "PrivVal", "PubVal", "ConstVal", "PrivValBool", "PubValBool", "PrivValFxp", "PubValFxp", "to_bits", "from_bits",
             "assert_", "check_", "if_then_else", "LinComb", "lin_comb", ".lc", "add_guard", "restore_guard", "guarded")
    for mn in CORE:
        m = repo.module(mn)
        for fi in m.functions.values():
            if isinstance(fi.node, ast.Lambda):
                continue
            # the rule is about what is EMITTED: a function that neither allocates, emits, converts nor touches the guard (exit-hook
            # bookkeeping, option parsing) cannot make emission depend on history
            body_txt = norm(fi.node)
            if not any(k in body_txt for k in EMITS):
                continue
            # locals that ARE a piece of persistent state (cache = self.__dict__.setdefault("_bits", {}); tbl = obj._memo):
            # a test on the local is a test on the state (such locals are updated in place, so def-use substitution skips them)
            alias = {}
            for a in ast.walk(fi.node):
                if isinstance(a, ast.Assign) and len(a.targets) == 1 and isinstance(a.targets[0], ast.Name) and _owner(fi, a):
                    for x in ast.walk(a.value):
                        if isinstance(x, ast.Attribute) and x.attr in names and x.attr != "value":
                            alias.setdefault(a.targets[0].id, x.attr)
                        elif isinstance(x, ast.Call) and norm(x.func) == "vars" and "__dict__" in names:
                            alias.setdefault(a.targets[0].id, "__dict__")
                        elif isinstance(x, ast.Constant) and isinstance(x.value, str) and x.value in names and isinstance(a.value, ast.Call):
                            alias.setdefault(a.targets[0].id, x.value)      # known = getattr(self, "_memo", None)
            for n in ast.walk(fi.node):
                if not _owner(fi, n):
                    continue
                tests = []
                if isinstance(n, (ast.If, ast.IfExp, ast.While, ast.Assert)):
                    tests.append(n.test)
                elif isinstance(n, ast.comprehension):
                    tests += n.ifs
                elif isinstance(n, ast.BoolOp):
                    tests += n.values[:-1]
                elif isinstance(n, ast.Try):
                    # try: x.attr ... except AttributeError: a decision on the presence of the attribute
                    if any(h.type is not None and "AttributeError" in norm(h.type) or h.type is not None and "KeyError" in norm(h.type)
                           for h in n.handlers):
                        tests += n.body
                for t in tests:
                    try:
                        rt = resolve_locals(fi.node, t) if isinstance(t, ast.expr) else t
                    except Exception:
                        rt = t
                    for x in ast.walk(rt):
                        nm = None
                        if isinstance(x, ast.Attribute) and x.attr in names:
                            nm = x.attr
                        elif isinstance(x, ast.Name) and x.id in names:
                            nm = x.id
                        elif isinstance(x, ast.Name) and x.id in alias and isinstance(x.ctx, ast.Load):
                            nm = alias[x.id]
                        elif isinstance(x, ast.Constant) and isinstance(x.value, str) and x.value in names:
                            nm = x.value          # getattr(o, "name", d), hasattr, o.__dict__.get("name"), vars(o)["name"]
                        if nm is not None:
                            out.setdefault(nm, []).append((fi, t))
    return out


def rule_memoryless(repo, rule):
    stores = persistent_stores(repo)
    reads = decision_reads(repo, set(stores))
    for name in sorted(stores):
        fi, n, how = stores[name][0]
        where = fi.loc(n)
        sites = "; ".join(sorted({"%s (%s)" % (f.qual, h) for f, _n, h in stores[name]}))[:300]
        if name in SANCTIONED:
            rule.ok(where, fi.fq, "state `%s` written in: %s" % (name, sites), SANCTIONED[name])
            continue
        if {f.qual for f, _n, _h in stores[name]} <= {"add_guard", "restore_guard"} and all(
                rf_.qual in ("add_guard", "restore_guard") for rf_, _t in reads.get(name, [])):
            # a container only add_guard / restore_guard touch: it IS the saved guard state (a stack of it), judged by the
            # guard-discipline rules (save/restore symmetry), not a memo of emitted constraints
            rule.ok(where, fi.fq, "state `%s` written in: %s" % (name, sites), "the saved guard state itself, kept as a stack "
                    "(restored exactly: guard-discipline rules)")
            continue
        if name not in reads:
            rule.note(where, fi.fq, "state `%s` written in: %s" % (name, sites), "persistent state that no decision reads")
            continue
        rf, rt = reads[name][0]
        rule.violation(where, fi.fq, "state `%s` written in: %s; consulted by `%s` in %s" % (name, sites, norm(rt)[:80], rf.qual),
                       "constraint emission depends on state kept from an earlier call (`%s`): the earlier call may have run under a "
                       "different guard or before a mutation, so a later use can skip the constraints it relies on" % name,
                       "memo/%s" % name)
    for name, why in SANCTIONED.items():
        if name not in stores and name != "num_constraints":
            rule.note("-", "-", "state `%s`" % name, "sanctioned state not written in this tree")
