"""C07 - a false guard makes code inert; a true guard is transparent.

R-C07-1  every `raise` governed by a value-dependent test is also governed by a test that is false when
         errors are suppressed (`not ignore_errors()` / the is_guard-elif ignore_errors-else ladder);
R-C07-2  operations that raise on particular values (fieldinverse(0), // and % by 0) with a
         value-dependent operand are dominated by a test excluding the value or use the `+ (v == 0)` idiom;
R-C07-3  under an active guard every checked constraint is emitted through the dummy path
         (v*w = y + dummy, guard*dummy = 0, dummy hinted with v*w - y);
R-C07-4  each is_guard()-selected honest arm has a dummy arm with an equal emission summary;
R-C07-5  lazily evaluated branches of if_then_else run under the condition's wire / its logical complement.
"""
import ast

from ..loader import norm, AnalysisError, parents
from ..efftree import nf, eq_mod_raise, render, always_raises
from .c06 import get_interp, strip_weak, VALUE_MODULES


def _is_ignore_call(n):
    return isinstance(n, ast.Call) and (
        (isinstance(n.func, ast.Name) and n.func.id == "ignore_errors") or
        (isinstance(n.func, ast.Attribute) and n.func.attr == "ignore_errors")) and not n.args


def implies_not_ignore(cond, polarity):
    """Does `cond == polarity` imply that ignore_errors() is false?"""
    if isinstance(cond, ast.UnaryOp) and isinstance(cond.op, ast.Not):
        return implies_not_ignore(cond.operand, not polarity)
    if isinstance(cond, ast.BoolOp):
        if isinstance(cond.op, ast.And) and polarity:
            return any(implies_not_ignore(v, True) for v in cond.values)
        if isinstance(cond.op, ast.Or) and not polarity:
            return any(implies_not_ignore(v, False) for v in cond.values)
        return False
    if _is_ignore_call(cond):
        return polarity is False
    return False


def short_circuit_conds(node):
    """(test, polarity, False) facts that hold whenever `node` is evaluated because of the expression it sits in: the earlier
    operands of an enclosing `and` (true) / `or` (false), the test of an enclosing conditional expression"""
    out = []
    child = node
    for p in parents(node):
        if isinstance(p, ast.BoolOp):
            k = next((i for i, v in enumerate(p.values) if v is child), None)
            if k is not None:
                out += [(v, isinstance(p.op, ast.And), False) for v in p.values[:k]]
        elif isinstance(p, ast.IfExp) and child is not p.test:
            out.append((p.test, child is p.body, False))
        elif isinstance(p, ast.stmt):
            break
        child = p
    return out


def excludes_zero(conds, expr_txt):
    """Some governing condition excludes  <expr> == 0."""
    def atoms(cond, pol):
        if isinstance(cond, ast.UnaryOp) and isinstance(cond.op, ast.Not):
            yield from atoms(cond.operand, not pol)
        elif isinstance(cond, ast.BoolOp):
            if (isinstance(cond.op, ast.And) and pol) or (isinstance(cond.op, ast.Or) and not pol):
                for v in cond.values:
                    yield from atoms(v, pol)
        else:
            yield cond, pol
    for c, pol, _t in conds:
        for a, p in atoms(c, pol):
            if isinstance(a, ast.Compare) and len(a.ops) == 1:
                l, r = norm(a.left), norm(a.comparators[0])
                other = r if l == expr_txt else (l if r == expr_txt else None)
                if other != "0":
                    continue
                if (isinstance(a.ops[0], ast.NotEq) and p) or (isinstance(a.ops[0], ast.Eq) and not p):
                    return True
                if isinstance(a.ops[0], (ast.Gt, ast.Lt)) and p:
                    return True
    return False


def plus_iverson(arg):
    """e + (e == 0)"""
    if isinstance(arg, ast.BinOp) and isinstance(arg.op, ast.Add):
        for a, b in ((arg.left, arg.right), (arg.right, arg.left)):
            if isinstance(b, ast.Compare) and len(b.ops) == 1 and isinstance(b.ops[0], ast.Eq) \
                    and norm(b.left) == norm(a) and norm(b.comparators[0]) == "0":
                return True
    return False


def nonzero_in_every_case(arg):
    """The integer `arg` is non-zero whichever way the tests inside it come out: e + [e == 0] in any spelling
    (`e + (e == 0)`, `e + (1 if e == 0 else 0)`, `e if e != 0 else 1`, ...)."""
    from ..hints import Valuer, all_cases, Undecidable
    from ..poly import P
    res = all_cases(lambda v: v._p(arg), lambda: Valuer({}), max_cases=8)
    if not res:
        return False
    for _desc, p, v in res:
        if isinstance(p, str) or v is None:
            return False
        if p.is_const():
            if p.const_value() == 0:
                return False
            continue
        if not any(p == z or p == -z for z in v.facts.nonzero):
            return False
    return True


def rule_raises(repo, rule, modules, keyprefix=""):
    it = get_interp(repo)
    for key, rec in sorted(it.raise_paths.items()):
        fi, node = rec["fi"], rec["node"]
        if fi.module.name not in modules:
            continue
        tainted_paths = [p for p in rec["paths"] if any(t for _c, _p, t in p)]
        where = fi.loc(node)
        msg = norm(node.exc)[:90] if node.exc is not None else "re-raise"
        if not tainted_paths:
            rule.note(where, fi.fq, "raise " + msg, "not value-dependent (type / public-operand error)")
            continue
        bad = None
        for p in tainted_paths:
            if not any(implies_not_ignore(c, pol) for c, pol, _t in p):
                bad = p
                break
        conds = " & ".join(("" if pol else "not ") + "(" + norm(c) + ")" for c, pol, _t in (bad or tainted_paths[0]))
        if bad is None:
            rule.ok(where, fi.fq, "raise under: " + conds, "suppressed when errors are ignored")
        else:
            tests = [norm(c) for c, pol, t in bad if t]
            rule.violation(where, fi.fq, "raise %s under: %s" % (msg, conds),
                           "value-dependent raise is not suppressed by ignore_errors(): a false guard does not make "
                           "this code inert", keyprefix + "%s/%s" % (fi.fq, tests[-1] if tests else msg))


def rule_implicit(repo, rule, modules):
    it = get_interp(repo)
    for key, rec in sorted(it.div_sites.items()):
        fi, node = rec["fi"], rec["node"]
        if fi is None or fi.module.name not in modules or not rec["base"]:
            continue
        where = fi.loc(node)
        if rec["what"] == "fieldinverse":
            arg = node.args[0] if node.args else None
            txt = norm(arg)
            from ..flatten import resolve_locals as _rl
            ok = plus_iverson(arg) or plus_iverson(_rl(rec["fi"].node, arg)) or excludes_zero(rec["conds"], txt) \
                or (arg is not None and nonzero_in_every_case(_rl(rec["fi"].node, arg)))
        else:
            div = node.right if isinstance(node, ast.BinOp) else None
            txt = norm(div)
            ok = excludes_zero(list(rec["conds"]) + short_circuit_conds(node), txt) or _dominating_zero_raise(fi, node, txt)
        term = "%s with value-dependent operand `%s`" % (rec["what"], txt)
        if ok:
            rule.ok(where, fi.fq, term, "zero excluded by a governing test / `+ (v == 0)` idiom")
        else:
            rule.violation(where, fi.fq, term, "may raise ZeroDivisionError on a secret value with no excluding test",
                           "%s/%s/%s" % (fi.fq, rec["what"], txt))


def _dominating_zero_raise(fi, node, txt):
    """`if <txt> == 0: raise ...` earlier in the same block chain (early exit on zero)."""
    from ..hints import must_conds
    for t, pol in must_conds(fi.node, node):
        if isinstance(t, ast.Compare) and len(t.ops) == 1 and norm(t.left) == txt and norm(t.comparators[0]) == "0" and (
                (isinstance(t.ops[0], ast.Eq) and not pol) or (isinstance(t.ops[0], ast.NotEq) and pol)):
            return True
    return False


def _canon_atom(t, truth, env):
    """canonical text of a test atom with its polarity; (in)equalities of polynomials are sign/side-normalised"""
    from ..poly import poly_of
    if isinstance(t, ast.Compare) and len(t.ops) == 1 and isinstance(t.ops[0], (ast.Eq, ast.NotEq)):
        a, b = poly_of(t.left, env), poly_of(t.comparators[0], env)
        if a is not None and b is not None:
            d = a - b
            txt = min(str(d), str(-d))
            ne = isinstance(t.ops[0], ast.NotEq) == truth
            return "%s %s 0" % (txt, "!=" if ne else "==")
    return ("" if truth else "not ") + norm(t)


def rule_dummy_path(repo, rule):
    fi = repo.fn("pysnark.runtime", "add_constraint")
    it = get_interp(repo)
    guarded_if = None
    top_body = list(fi.node.body)
    # a leading shortcut for LINEAR constraints under a guard:
    #     if guard is not None and (v is LinComb.ZERO or w is LinComb.ZERO): add_constraint_unsafe(guard, y, ZERO)  else: <the rest>
    # One factor being the zero wire (object identity), the constraint reads 0 = y; guard*y = 0 enforces exactly that when the
    # guard is 1 and nothing when it is 0 - the dummy wire of the general form eliminated.
    for n in list(top_body):
        if not (isinstance(n, ast.If) and isinstance(n.test, ast.BoolOp) and isinstance(n.test.op, ast.And) and len(n.test.values) == 2):
            continue
        g_, z_ = n.test.values
        if norm(g_).replace(" ", "") not in ("notguardisNone", "guardisnotNone"):
            g_, z_ = z_, g_
        if norm(g_).replace(" ", "") not in ("notguardisNone", "guardisnotNone"):
            continue
        pv, pw, py = fi.params[:3]
        zs = {norm(x_).replace(" ", "") for x_ in (z_.values if isinstance(z_, ast.BoolOp) and isinstance(z_.op, ast.Or) else [z_])}
        if not zs or not zs <= {"%sisLinComb.ZERO" % pv, "%sisLinComb.ZERO" % pw}:
            continue
        em = [c for s_ in n.body for c in ast.walk(s_) if isinstance(c, ast.Call)]
        shape = [tuple(norm(a) for a in c.args) for c in em if norm(c.func).endswith("add_constraint_unsafe")]
        if len(n.body) == 1 and len(em) == 1 and shape and len(shape[0]) == 3 and set(shape[0][:2]) == {"guard", py} and shape[0][2] == "LinComb.ZERO":
            rule.ok(fi.loc(n), fi.fq, "linear constraint under a guard: add_constraint_unsafe(%s)" % ", ".join(shape[0]),
                    "a factor is the zero wire, so the constraint is 0 = y; guard*y = 0 enforces it exactly when the guard is 1")
            k_ = top_body.index(n)
            top_body[k_:k_ + 1] = list(n.orelse)
        else:
            rule.violation(fi.loc(n), fi.fq, norm(n.body)[:160], "shortcut for linear constraints under a guard does not emit exactly "
                           "guard*y = 0", "add_constraint/linear")
        break
    for n in top_body:
        if isinstance(n, ast.If) and "guard" in norm(n.test) and "None" in norm(n.test):
            guarded_if = n
    value_split = None
    if guarded_if is None:
        # the split may be on the guard's VALUE (`is_guard()`): under a false guard the dummy arm is still taken, which is
        # what this property needs (that the emission then depends on a secret is C06/C09's concern)
        for n in top_body:
            if isinstance(n, ast.If) and norm(n.test) in ("not is_guard()", "is_guard()"):
                guarded_if, value_split = n, norm(n.test)
    if guarded_if is None:
        raise AnalysisError("add_constraint: no test on the guard found")
    t = guarded_if.test
    # which arm is the guarded one?
    arm = guarded_if.body
    if isinstance(t, ast.Compare) and isinstance(t.ops[0], ast.Is):
        arm = guarded_if.orelse
    if isinstance(t, ast.UnaryOp) and isinstance(t.operand, ast.Compare) and isinstance(t.operand.ops[0], ast.IsNot):
        arm = guarded_if.orelse
    if value_split == "is_guard()":
        arm = guarded_if.orelse
    if value_split:
        rule.note(fi.loc(guarded_if), fi.fq, "dummy path selected by `%s`" % value_split, "taken whenever the guard's value is 0")
    if not arm:
        # guard clause: `if guard is None: <unguarded>; return` - the guarded arm is the rest of the function
        other = guarded_if.body if arm is guarded_if.orelse else guarded_if.orelse
        from ..flatten import _terminates
        if other and _terminates(other) and guarded_if in top_body:
            arm = top_body[top_body.index(guarded_if) + 1:]
    calls = [c for s in arm for c in ast.walk(s) if isinstance(c, ast.Call)]
    params = fi.params[:3]
    v, w, y = params
    dummy = None
    from ..flatten import resolve_locals
    for s in arm:
        if isinstance(s, ast.Assign) and isinstance(s.value, ast.Call) and norm(s.value.func).endswith("PrivVal") and s.value.args:
            dummy = (s.targets[0].id, resolve_locals(fi.node, s.value.args[0]))
    where = fi.loc(guarded_if)
    if dummy is None:
        rule.violation(where, fi.fq, norm(arm)[:200], "guarded arm allocates no dummy witness", "add_constraint/dummy")
        return
    dn, hint = dummy
    from ..poly import poly_of, P
    env = {"%s.value" % v: P.sym("v"), "%s.value" % w: P.sym("w"), "%s.value" % y: P.sym("y")}
    hp = poly_of(hint, env)
    want = P.sym("v") * P.sym("w") - P.sym("y")
    if hp is None or hp != want:
        rule.violation(where, fi.fq, "dummy hint `%s`" % norm(hint), "dummy is not hinted with v*w - y",
                       "add_constraint/dummy-hint")
    else:
        rule.ok(where, fi.fq, "dummy hint `%s` == v*w - y" % norm(hint))
    unsafe = [c for c in calls if norm(c.func).endswith("add_constraint_unsafe")]
    shapes = [tuple(norm(a) for a in c.args) for c in unsafe]
    c1 = any(s[0] == v and s[1] == w and s[2] in ("%s + %s" % (y, dn), "%s + %s" % (dn, y)) for s in shapes if len(s) == 3)
    c2 = any(len(s) == 3 and set(s[:2]) == {"guard", dn} and s[2] in ("LinComb.ZERO",) for s in shapes)
    if c1:
        rule.ok(where, fi.fq, "add_constraint_unsafe(%s, %s, %s + %s)" % (v, w, y, dn))
    else:
        rule.violation(where, fi.fq, str(shapes), "guarded arm does not emit v*w = y + dummy", "add_constraint/c1")
    if c2:
        rule.ok(where, fi.fq, "add_constraint_unsafe(guard, %s, ZERO)" % dn)
    else:
        rule.violation(where, fi.fq, str(shapes), "guarded arm does not emit guard*dummy = 0", "add_constraint/c2")
    # transparency of errors: the guarded arm raises only where the unguarded arm raises as well
    from ..hints import atoms_of

    def atoms_for(raise_node, top):
        out = set()
        child = raise_node
        for p_ in parents(raise_node):
            if p_ is fi.node:
                break
            if isinstance(p_, ast.If) and p_ is not top:
                pol = any(child is s_ or any(child is x for x in ast.walk(s_)) for s_ in p_.body)
                for t_, tr in atoms_of(resolve_locals(fi.node, p_.test), pol):
                    out.add(_canon_atom(t_, tr, env))
            child = p_
        return out
    other = guarded_if.orelse if arm is guarded_if.body else guarded_if.body
    un_raises = [x for s in other for x in ast.walk(s) if isinstance(x, ast.Raise)]
    g_raises = [x for s in arm for x in ast.walk(s) if isinstance(x, ast.Raise)]
    un_atoms = [atoms_for(x, guarded_if) for x in un_raises]
    if not g_raises:
        rule.ok(where, fi.fq, "guarded arm raises nothing of its own", "the slack goes into the dummy witness; a true guard then "
                "forces it to 0 exactly where the unguarded arm would have raised")
    for x in g_raises:
        ga = atoms_for(x, guarded_if)
        if any(ua <= ga for ua in un_atoms):
            rule.ok(fi.loc(x), fi.fq, "guarded raise under {%s}" % ", ".join(sorted(ga)), "implies the unguarded arm's raise condition")
        else:
            missing = sorted(min(un_atoms, key=lambda ua: len(ua - ga)) - ga) if un_atoms else ["<the unguarded arm never raises>"]
            rule.violation(fi.loc(x), fi.fq, "guarded raise under {%s}; unguarded raise needs {%s}" % (
                ", ".join(sorted(ga)), "} or {".join(", ".join(sorted(ua)) for ua in un_atoms)),
                "under a true guard add_constraint raises where the same unguarded call does not (missing condition: %s), so "
                "valid guarded code fails - e.g. callers that pass check=False because their identity holds only mod p" % ", ".join(missing),
                "add_constraint/guarded-raise")


def rule_hint_arms(repo, rule, modules):
    it = get_interp(repo)
    seen = set()
    for key, f in sorted(it.tainted_alts.items(), key=lambda kv: str(kv[0])):
        if f["module"].name not in modules or not f["base"]:
            continue
        txt = norm(f["test"])
        if "is_guard()" not in txt:
            continue
        ident = (f["fq"], f["tag"][3])
        if ident in seen:
            continue
        seen.add(ident)
        a, b = nf(f["a"]), nf(f["b"])
        where = "%s:%s" % (f["module"].relpath, f["node"].lineno)
        term = "honest arm [%s]  other arm [%s]" % (render(a)[:200] or "ε", render(b)[:200] or "ε")
        if f["fq"] == "pysnark.runtime:if_guard._if_guard":
            rule.note(where, f["fq"], term, "printing aid (see C06 suppression)")
        elif eq_mod_raise(strip_weak(a), strip_weak(b)):
            rule.ok(where, f["fq"], term)
        else:
            rule.violation(where, f["fq"], term, "dummy-hint arm emits differently from the honest arm",
                           "%s/%s" % ident)


def rule_lazy(repo, rule):
    fi = repo.fn("pysnark.branching", "if_then_else")
    it = get_interp(repo)
    cond = fi.params[0]
    recs = it.call_records.get(fi.fq, [])
    sites = []
    for n in ast.walk(fi.node):
        # guarded(X)(branch)()
        if isinstance(n, ast.Call) and isinstance(n.func, ast.Call) and isinstance(n.func.func, ast.Call) \
                and norm(n.func.func.func).endswith("guarded"):
            sites.append((n, n.func.func.args[0], n.func.args[0] if n.func.args else None))
    if len(sites) < 2:
        rule.undecided(fi.loc(), fi.fq, "guarded(...)(branch)() sites: %d" % len(sites),
                       "lazy-branch idiom not found in this shape")
        return
    accept_true = {"%s.lc" % cond}
    accept_false = {"(~%s).lc" % cond, "1 - %s" % cond, "1 - %s.lc" % cond, "(1 - %s)" % cond,
                    "LinComb.ONE - %s" % cond, "LinComb.ONE_SAFE - %s.lc" % cond}
    # guarded() / add_guard() may take the typed Boolean itself and unwrap it: `if isinstance(c, LinCombBool): c = c.lc` as the
    # first thing done with the condition
    unwraps = False
    for gname in ("guarded", "add_guard"):
        gf = repo.module("pysnark.runtime").functions.get(gname)
        if gf is None or not gf.params:
            continue
        c0 = gf.params[0]
        for s_ in gf.node.body:
            if isinstance(s_, ast.If) and norm(s_.test) in ("isinstance(%s, LinCombBool)" % c0, "isinstance(%s, boolean.LinCombBool)" % c0) \
                    and len(s_.body) == 1 and norm(s_.body[0]) == "%s = %s.lc" % (c0, c0) and not s_.orelse:
                unwraps = True
    if unwraps:
        accept_true.add(cond)
        accept_false |= {"~%s" % cond, "(~%s)" % cond}
    for call, gexpr, branch in sites:
        btxt = norm(branch)
        from ..flatten import resolve_locals as _rl7
        gtxt = norm(_rl7(fi.node, gexpr, keep={cond, fi.params[1], fi.params[2]}))      # a named complement (`nc = ~cond; guarded(nc.lc)`) is the complement
        where = fi.loc(call)
        # kind of the guard expression as computed by the abstract interpreter (cond is a LinCombBool here)
        kinds = set()
        for (cn, fv, args, kwargs, base, conds) in recs:
            if cn is call.func.func and args:
                kinds |= set(args[0].kind)
        is_true_branch = btxt == fi.params[1]
        accept = accept_true if is_true_branch else accept_false
        problems = []
        if kinds and not kinds <= ({"LC", "int", "bool", "LCB"} if unwraps else {"LC", "int", "bool"}):
            problems.append("guard expression has kind %s; add_guard accepts LinComb or int only" % "|".join(sorted(kinds)))
        if gtxt not in accept:
            problems.append("`%s` is not %s of the condition" % (
                gtxt, "the wire" if is_true_branch else "the logical complement"))
        term = "guarded(%s)(%s)()  kinds=%s" % (gtxt, btxt, "|".join(sorted(kinds)) or "?")
        if problems:
            rule.violation(where, fi.fq, term, "; ".join(problems),
                           "if_then_else/%s" % ("true" if is_true_branch else "false"))
        else:
            rule.ok(where, fi.fq, term)


def rule_unguarded_emissions(repo, r6):
    from .c01 import emission_sites, site_results, mentions_guard, RT as _RT
    for fi, call, kind in emission_sites(repo):
        if kind != "direct" or fi.fq == _RT + ":add_constraint":
            continue
        res = site_results(fi, call, (), honest_premise=False)
        if any(not isinstance(p, str) and not p.is_zero() for _pa, cases in res for _d, p, _v in cases):
            # written on the guard wire itself (guard * y = 0), or emitted by code that looks at whether a guard is installed:
            # what matters here is the branch that is not taken, i.e. an installed guard of value 0
            res = site_results(fi, call, (), honest_premise=False, guard_value=0)
        opaque = lambda p: any(str(s_).startswith("?") for s_ in p.symbols())
        bad = [(d, p) for _path, cases in res for d, p, _v in cases if not isinstance(p, str) and not p.is_zero() and not opaque(p)]
        und = [p for _path, cases in res for d, p, _v in cases if isinstance(p, str)] + [
            "not interpretable: v*w - y = %s" % p for _path, cases in res for d, p, _v in cases
            if not isinstance(p, str) and not p.is_zero() and opaque(p)]
        term = norm(call)
        if bad:
            d, p = bad[0]
            r6.violation(fi.loc(call), fi.fq, "%s: v*w - y = %s when {%s}" % (term, p, ", ".join(d)),
                         "this constraint bypasses the guard (add_constraint_unsafe) but is not an identity of its hints for every "
                         "guard value: under a false guard the recorded witness violates it", "%s/%s" % (fi.fq, term[:50]))
        elif und:
            r6.undecided(fi.loc(call), fi.fq, term, und[0])
        else:
            r6.ok(fi.loc(call), fi.fq, term, "identity of the hints on every path, LinComb.ONE taken as the guard wire")


def check(repo, rep, tier):
    rep.explanation = (
        "Guard inertness decided on the code's shape: path conditions of every raise (from the abstract "
        "interpreter's branch stack), zero-exclusion of implicit raisers, the guarded arm of add_constraint, "
        "equality of emission between honest and dummy hint arms, and the guard expressions of if_then_else's "
        "lazily evaluated branches.")
    rep.trusted = ["taint model of sa/absint.py (.value reads)", "accepted suppression idioms listed in rules/c07.py"]
    rep.not_decided = ["'same values and errors as unguarded code' under a true guard (value semantics)",
                       "uniqueness of the selected value (C02)"]
    mods = set(VALUE_MODULES)
    r1 = rep.rule("R-C07-1", "value-dependent raises are suppressible by ignore_errors()", floor=14)
    rule_raises(repo, r1, mods)
    r2 = rep.rule("R-C07-2", "implicit raisers on secret values exclude the raising value", floor=3)
    rule_implicit(repo, r2, mods)
    r3 = rep.rule("R-C07-3", "guarded constraints go through the dummy path", floor=3)
    rule_dummy_path(repo, r3)
    r4 = rep.rule("R-C07-4", "is_guard() hint arms have equal-emission dummy arms", floor=2)
    rule_hint_arms(repo, r4, mods)
    r5 = rep.rule("R-C07-5", "lazy branches of if_then_else run under cond / its complement", floor=1)
    rule_lazy(repo, r5)
    r6 = rep.rule("R-C07-6", "constraints emitted outside the dummy path hold for either guard value", floor=3)
    rule_unguarded_emissions(repo, r6)
    r8 = rep.rule("R-C07-8", "emission is memoryless: no state kept from a (possibly false-guarded) earlier call decides later emission", floor=4)
    from .memoryless import rule_memoryless
    rule_memoryless(repo, r8)
    r7 = rep.rule("R-C07-7", "nested guards: suppression is inherited (or-ed), state restored exactly (shared with C08)", floor=10)
    from .c08 import guard_discipline
    guard_discipline(repo, r7)
