"""C04 - every reported value equals its wire expression on the recorded witness.

The invariant  value == eval(lc)  (mod p) is inductive over constructions and mutations:
R-C04-1  every LinComb(V, L) construction is lock-step: the value term of V equals the value term of L under
         the homomorphism X.value -> <X>, X.lc -> <X>, backend.privval(e) -> e, fieldinverse(c) -> inv(c), ...
         on every path (honest, error-suppressed and guarded alike)
R-C04-2  the only mutation of a `.value` is reduction modulo the active backend's modulus; `.lc` of a value
         object is never re-assigned
R-C04-3  the Boolean / fixed-point wrappers carry no second copy of the value
"""
import ast

from ..hints import Valuer, all_cases, paths_to, Undecidable, pre_assume, replay
from ..loader import norm, AnalysisError, parents
from ..poly import P
from .c01 import base_env

MODULUS_EXPRS = ("backend.get_modulus()", "runtime.backend.get_modulus()", "pysnark.runtime.backend.get_modulus()")


def lincomb_sites(repo):
    out = []
    for m in repo.modules.values():
        if m.name.startswith("pysnark.qaptools") and m.name != "pysnark.qaptools.backend":
            continue
        fns = [f for f in m.functions.values() if not isinstance(f.node, ast.Lambda)]
        claimed = set()
        for fi in fns:
            for c in ast.walk(fi.node):
                if isinstance(c, ast.Call) and norm(c.func) in ("LinComb", "runtime.LinComb", "pysnark.runtime.LinComb") and len(c.args) == 2:
                    owner = [p for p in parents(c) if isinstance(p, (ast.FunctionDef, ast.Lambda))]
                    if owner and owner[0] is fi.node:
                        out.append((m, fi, c))
                        claimed.add(id(c))
        for c in ast.walk(m.tree):
            if isinstance(c, ast.Call) and norm(c.func) in ("LinComb", "runtime.LinComb") and len(c.args) == 2 and id(c) not in claimed:
                if not any(isinstance(p, (ast.FunctionDef, ast.Lambda)) for p in parents(c)):
                    out.append((m, None, c))
    return out


def check(repo, rep, tier):
    rep.explanation = ("Inductive invariant checked construct by construct: for each LinComb(value, lc) construction the "
                       "two arguments are mapped to value terms by path-sensitive def-use substitution and must be the same "
                       "polynomial on every path (including error-suppressed and guarded ones); every store to a `.value` "
                       "must be a reduction modulo the backend's modulus; wrappers store only `.lc`.")
    rep.trusted = ["backends store what they are given and implement a homomorphic algebra (R-C01-4, C13)",
                   "a // c == a * inv(c) (mod p) when c divides a"]
    rep.not_decided = ["values produced inside external provers"]
    r1 = rep.rule("R-C04-1", "LinComb(value, lc) constructions are lock-step on every path", floor=9)
    for m, fi, c in lincomb_sites(repo):
        where = "%s:%s" % (m.relpath, c.lineno)
        fq = fi.fq if fi is not None else m.name + ":<module>"
        if fi is None:
            paths = [None]
        else:
            from ..hints import Path
            paths = paths_to(fi.node, c) or [Path()]
        bad, und, ncases = [], [], 0
        # a construction that follows an accumulating loop is decided by induction over the loop (sa/loopinv.py): the claim
        # is about the state after any number of iterations, which no single pass through the body represents
        if fi is not None and isinstance(fi.node, ast.FunctionDef):
            loops_ = [s for s in fi.node.body if isinstance(s, ast.For)]
            stmt_ = c
            while getattr(stmt_, "_parent", None) is not None and stmt_ not in fi.node.body:
                stmt_ = stmt_._parent
            used_ = {x.id for a in c.args for x in ast.walk(a) if isinstance(x, ast.Name)}
            lp_ = [l for l in loops_ if stmt_ in fi.node.body and fi.node.body.index(l) < fi.node.body.index(stmt_)
                   and used_ & {x.id for s in l.body for x in ast.walk(s) if isinstance(x, ast.Name) and not isinstance(x.ctx, ast.Load)}]
            if len(lp_) == 1:
                from ..loopinv import prove

                def _diff(v, site2):
                    return v._p(site2.args[0]) - v._p(site2.args[1])
                verdict, detail = prove(fi.node, lp_[0], c, _diff, base_env(fi))
                term = "%s after `for %s in %s`" % (norm(c), norm(lp_[0].target), norm(lp_[0].iter)[:40])
                if verdict == "ok":
                    r1.ok(where, fq, term, "lock-step by induction: " + detail)
                    continue
                if verdict == "violation":
                    r1.violation(where, fq, term + "  " + detail, "the value this object reports differs from what its wire expression "
                                 "evaluates to", "%s/%s" % (fq, norm(c)[:70]))
                    continue
        for path in paths:
            def assumptions(path=path):
                v = Valuer(base_env(fi) if fi is not None else {})
                v.uninterp = True
                if path is not None:
                    pre_assume(v, path)
                return v

            def build(v, path=path):
                if path is not None:
                    replay(v, path)
                return v._p(c.args[0]) - v._p(c.args[1])
            for desc, p, v in all_cases(build, assumptions):
                ncases += 1
                if isinstance(p, str):
                    und.append((desc, p))
                elif not p.is_zero():
                    conds = [("" if pol else "not ") + norm(t) for t, pol in (path.conds if path is not None else [])]
                    bad.append((conds + desc, p))
        term = "%s  [%d path(s), %d case(s)]" % (norm(c), len(paths), ncases)
        if bad:
            desc, p = bad[0]
            rule_key = "%s/%s" % (fq, norm(c)[:70])
            r1.violation(where, fq, term + "  when {%s}: value - wire = %s" % ("; ".join(desc)[:200], p),
                         "the value this object reports differs from what its wire expression evaluates to", rule_key)
        elif und:
            r1.undecided(where, fq, term, "; ".join(u for _d, u in und[:2]))
        elif ncases == 0:
            r1.undecided(where, fq, term, "no feasible path")
        else:
            r1.ok(where, fq, term)
    # ---------------- R-C04-2
    r2 = rep.rule("R-C04-2", "only congruence-preserving mutation of .value; no re-assignment of .lc", floor=3)
    modconsts = {}
    for m in repo.modules.values():
        for n in m.tree.body:
            if isinstance(n, ast.Assign) and isinstance(n.targets[0], ast.Name) and norm(n.value) in MODULUS_EXPRS:
                modconsts[(m.name, n.targets[0].id)] = norm(n.value)
    ctor_ok = {"pysnark.runtime:LinComb.__init__", "pysnark.boolean:LinCombBool.__init__", "pysnark.fixedpoint:LinCombFxp.__init__"}
    backend_mods = ("pysnark.snarkjsbackend", "pysnark.zkinterface.", "pysnark.qaptools.", "pysnark.libsnark.", "pysnark.nobackend",
                    "pysnark.gmpy")
    for m in repo.modules.values():
        if m.name.startswith(backend_mods):
            continue
        for fi in m.functions.values():
            if isinstance(fi.node, ast.Lambda):
                continue
            for n in ast.walk(fi.node):
                tg = []
                if isinstance(n, ast.Assign):
                    tg = [(t, n.value, None) for t in n.targets]
                elif isinstance(n, ast.AugAssign):
                    tg = [(n.target, n.value, n.op)]
                for t, v, op in tg:
                    if not (isinstance(t, ast.Attribute) and t.attr in ("value", "lc")):
                        continue
                    owner = [p for p in parents(n) if isinstance(p, (ast.FunctionDef, ast.Lambda))]
                    if owner and owner[0] is not fi.node:
                        continue
                    where = fi.loc(n)
                    if fi.fq in ctor_ok and norm(t.value) == "self":
                        continue
                    if t.attr == "lc":
                        r2.violation(where, fi.fq, norm(n), "re-assigns the wire expression of an existing value object",
                                     "%s/lc/%s" % (fi.fq, norm(t)))
                        continue

                    def is_mod(e, fi=fi):
                        if norm(e) in MODULUS_EXPRS or (isinstance(e, ast.Name) and (m.name, e.id) in modconsts):
                            return True
                        # a local (of this function or of the enclosing one, for a closure) bound once to the modulus
                        from ..flatten import resolve_locals as _rl4
                        f_ = fi
                        while f_ is not None and isinstance(e, ast.Name):
                            if isinstance(f_.node, ast.FunctionDef):
                                r_ = _rl4(f_.node, e)
                                if norm(r_) in MODULUS_EXPRS:
                                    return True
                            f_ = f_.parent
                        return False
                    good = False
                    if op is not None and isinstance(op, ast.Mod) and is_mod(v):
                        good = True
                    if op is None and isinstance(v, ast.BinOp) and isinstance(v.op, ast.Mod) and norm(v.left) == norm(t) and is_mod(v.right):
                        good = True

                    def mult_of_mod(e):
                        if is_mod(e):
                            return True
                        if isinstance(e, ast.BinOp) and isinstance(e.op, ast.Mult):
                            return is_mod(e.left) or is_mod(e.right)
                        return False
                    if op is not None and isinstance(op, (ast.Add, ast.Sub)) and mult_of_mod(v):
                        good = True      # adding a multiple of p keeps the congruence
                    if good:
                        r2.ok(where, fi.fq, norm(n), "reduction modulo the active backend's modulus")
                    else:
                        r2.violation(where, fi.fq, norm(n), "the Python-visible value is changed while the wire expression is not: "
                                     "the reported value drifts from what the proof speaks about", "%s/value/%s" % (fi.fq, norm(n)[:60]))
    # ---------------- R-C04-3
    r3 = rep.rule("R-C04-3", "wrappers store only the wrapped LinComb", floor=2)
    for mod, cn in (("pysnark.boolean", "LinCombBool"), ("pysnark.fixedpoint", "LinCombFxp")):
        ci = repo.cls(mod, cn)
        attrs = set()
        for fi in ci.methods.values():
            for n in ast.walk(fi.node):
                if isinstance(n, (ast.Assign, ast.AugAssign)):
                    for t in (n.targets if isinstance(n, ast.Assign) else [n.target]):
                        if isinstance(t, ast.Attribute) and norm(t.value) == "self":
                            attrs.add(t.attr)
        if attrs == {"lc"}:
            r3.ok("%s:%s" % (ci.module.relpath, ci.node.lineno), ci.fq, "instance attributes: lc")
        else:
            r3.violation("%s:%s" % (ci.module.relpath, ci.node.lineno), ci.fq, "instance attributes: %s" % sorted(attrs),
                         "wrapper keeps state besides the wrapped LinComb (a second copy of the value can drift)", "%s/attrs" % ci.fq)
        init = ci.methods["__init__"]
        st = [n for n in ast.walk(init.node) if isinstance(n, ast.Assign) and norm(n.targets[0]) == "self.lc"]
        if st and any(isinstance(x, ast.Name) and x.id == init.params[1] for x in ast.walk(st[0].value)):
            r3.ok(init.loc(st[0]), init.fq, norm(st[0]))
        else:
            r3.violation(init.loc(), init.fq, norm(st[0]) if st else "", "constructor does not store the LinComb it was given", "%s/init" % ci.fq)
