"""C02 - soundness: necessary structural clauses (uniqueness over all witness completions is solver territory
and is not claimed).

R-C02-1  no dangling witness: every wire allocated by a library operation flows into a constraint-emitting call
R-C02-2  booleanity discipline: every unconstrained Boolean construction LinCombBool(e, False) is justified
         (truth table of the extracted polynomial over Boolean operands stays in {0,1})
R-C02-3  gadget obligations on every completing path (division, zero test, sign test, bitwise operators,
         selection, decomposition, one-hot index)
"""
import ast
import itertools

from ..cfg import CFG, calls_in, own_stmt_part
from ..hints import Valuer, Undecidable, NeedCase
from ..loader import norm, AnalysisError, parents
from ..poly import P, poly_of
from .c06 import get_interp

RT = "pysnark.runtime"
ALLOCATORS = ("PrivVal", "PrivValBool", "PrivValFxp")
EMITTERS = ("add_constraint", "add_constraint_unsafe")
GADGETS = ("assert_zero", "assert_nonzero", "assert_positive", "assert_lt", "assert_le", "assert_eq", "assert_ne", "assert_gt",
           "assert_ge", "assert_range", "check_positive", "check_zero", "check_nonzero", "to_bits")
VALUE_MODULES = ("pysnark.runtime", "pysnark.boolean", "pysnark.fixedpoint", "pysnark.branching", "pysnark.array",
                 "pysnark.linalg", "pysnark.pack", "pysnark.poseidon_hash", "pysnark.ggh_hash")
ALLOCATING_API = {  # functions whose *purpose* is to hand out a fresh wire: the caller constrains it
    "pysnark.runtime:PrivVal", "pysnark.runtime:PubVal", "pysnark.runtime:ConstVal", "pysnark.boolean:PrivValBool",
    "pysnark.boolean:PubValBool", "pysnark.fixedpoint:PrivValFxp", "pysnark.fixedpoint:PubValFxp",
}


def own(fi, node):
    o = [p for p in parents(node) if isinstance(p, (ast.FunctionDef, ast.AsyncFunctionDef, ast.Lambda))]
    return (not o) or o[0] is fi.node


def names_in(node):
    return {x.id for x in ast.walk(node) if isinstance(x, ast.Name)}


def constraining_uses(fi):
    """Names that flow into an emitting / gadget call (args or receiver), closed under local def-use."""
    used = set()
    for c in ast.walk(fi.node):
        if not isinstance(c, ast.Call) or not own(fi, c):
            continue
        short = norm(c.func).split(".")[-1]
        if short in EMITTERS:
            for a in c.args:
                used |= names_in(a)
        elif isinstance(c.func, ast.Attribute) and c.func.attr in GADGETS:
            used |= names_in(c.func.value)
            for a in c.args:
                used |= names_in(a)
        elif short in ("if_then_else", "lin_comb", "vc_glue", "vc_declare_block"):
            for a in c.args:
                used |= names_in(a)
    # products of two wires emit the constraint that ties the product
    for b in ast.walk(fi.node):
        if isinstance(b, ast.BinOp) and isinstance(b.op, ast.Mult) and own(fi, b):
            pass
    # close under assignments  X = f(Y...)  with X used  =>  Y used
    changed = True
    while changed:
        changed = False
        for a in ast.walk(fi.node):
            if isinstance(a, ast.Assign) and own(fi, a):
                tn = set()
                for t in a.targets:
                    tn |= names_in(t)
                if tn & used:
                    new = names_in(a.value) - used
                    if new:
                        used |= new
                        changed = True
            if isinstance(a, ast.AugAssign) and own(fi, a) and names_in(a.target) & used:
                new = names_in(a.value) - used
                if new:
                    used |= new
                    changed = True
    return used


def rule_dangling(repo, rule):
    for m in repo.modules.values():
        if m.name not in VALUE_MODULES:
            continue
        for fi in m.functions.values():
            if isinstance(fi.node, ast.Lambda) or fi.fq in ALLOCATING_API:
                continue
            allocs = [c for c in ast.walk(fi.node) if isinstance(c, ast.Call) and norm(c.func).split(".")[-1] in ALLOCATORS and own(fi, c)]
            if not allocs:
                continue
            used = constraining_uses(fi)
            for c in allocs:
                where = fi.loc(c)
                # where does the allocated wire go?
                p = getattr(c, "_parent", None)
                holder = None
                node = c
                while p is not None and not isinstance(p, ast.stmt):
                    node, p = p, getattr(p, "_parent", None)
                stmt = p
                direct_use = False
                # inside an emitting/gadget call expression?
                for q in parents(c):
                    if isinstance(q, ast.Call) and q is not c:
                        short = norm(q.func).split(".")[-1]
                        if short in EMITTERS or (isinstance(q.func, ast.Attribute) and q.func.attr in GADGETS):
                            direct_use = True
                    if isinstance(q, ast.stmt):
                        break
                if isinstance(stmt, ast.Assign):
                    tn = set()
                    for t in stmt.targets:
                        tn |= names_in(t)
                    holder = tn
                term = "%s in `%s`" % (norm(c)[:60], norm(stmt)[:80] if stmt is not None else "?")
                if direct_use or (holder and holder & used):
                    rule.ok(where, fi.fq, term, "flows into a constraint")
                elif isinstance(stmt, ast.Return):
                    op = fi.name
                    rule.violation(where, fi.fq, term,
                                   "the result is a fresh witness that no constraint mentions: a prover can assign it any value",
                                   "%s/return/%s" % (fi.fq, norm(c)[:50]))
                elif holder:
                    rule.violation(where, fi.fq, term, "allocated witness `%s` never reaches a constraint-emitting call" % sorted(holder)[0],
                                   "%s/unused/%s" % (fi.fq, sorted(holder)[0]))
                else:
                    rule.undecided(where, fi.fq, term, "use of the allocated wire not tracked")


def zero_test_results(fi):
    """Names of the witnesses r of `fi` that its own constraints force to [x == 0]:  x*r = 0  and  x*w = 1 - r  for some
    other witness w (Pinocchio zero test; x is the first parameter)."""
    wits = [norm(a.targets[0]) for a in ast.walk(fi.node) if isinstance(a, ast.Assign) and isinstance(a.value, ast.Call)
            and norm(a.value.func).split(".")[-1] in ("PrivVal", "PrivValBool") and a.value.args and own(fi, a)]
    env = {w: P.sym(w) for w in wits}
    env[fi.params[0]] = P.sym("x")
    env["LinComb.ONE_SAFE"] = P.const(1)
    env["LinComb.ONE"] = P.const(1)
    env["LinComb.ZERO"] = P()
    got = []
    for c in ast.walk(fi.node):
        if isinstance(c, ast.Call) and norm(c.func).split(".")[-1] in EMITTERS and len(c.args) >= 3:
            ps = [poly_of(a, env, strict=True) for a in c.args[:3]]
            if None not in ps:
                got.append(ps[0] * ps[1] - ps[2])
    x = P.sym("x")
    out = set()
    for r in wits:
        if any(p == x * P.sym(r) for p in got) and any(p == x * P.sym(w) - (1 - P.sym(r)) for w in wits if w != r for p in got):
            out.add(r)
    return out


def _returns_bits(repo, fi, call):
    """the callee (a function or static/class method of the same module) returns a literal bit on every return: 0, 1, True,
    False or `1 if c else 0`"""
    name = norm(call.func).split(".")[-1]
    cands = [f for f in fi.module.functions.values() if f.name == name and isinstance(f.node, ast.FunctionDef)]
    if not cands:
        # a helper of another module of the package (LinCombBool.parse_boolean called from runtime.py): the name must be unique
        cands = [f for m_ in repo.modules.values() for f in m_.functions.values() if f.name == name and isinstance(f.node, ast.FunctionDef)]
    if len(cands) != 1:
        return False
    rets = [r for r in ast.walk(cands[0].node) if isinstance(r, ast.Return)]
    def bit(e):
        if isinstance(e, ast.Constant) and e.value in (0, 1, True, False) and e.value is not None:
            return True
        if isinstance(e, ast.IfExp):
            return bit(e.body) and bit(e.orelse)
        if isinstance(e, ast.Call) and norm(e.func) == "int" and len(e.args) == 1 and isinstance(e.args[0], (ast.Compare, ast.BoolOp)):
            return True
        return False
    def guarded_bit(r):
        # `if v == 0 or v == 1: return v`
        if not isinstance(r.value, ast.Name):
            return False
        v = r.value.id
        for p_ in parents(r):
            if isinstance(p_, ast.If) and any(r is x for st in p_.body for x in ast.walk(st)) and norm(p_.test).replace(" ", "") in (
                    "%s==0or%s==1" % (v, v), "%s==1or%s==0" % (v, v), "%sin(0,1)" % v, "%sin[0,1]" % v):
                return True
        return False
    return bool(rets) and all(r.value is not None and (bit(r.value) or guarded_bit(r)) for r in rets)


def rule_boolean(repo, rule):
    sites = []
    for m in repo.modules.values():
        if m.name not in VALUE_MODULES:
            continue
        for fi in m.functions.values():
            if isinstance(fi.node, ast.Lambda):
                continue
            for c in ast.walk(fi.node):
                if isinstance(c, ast.Call) and norm(c.func).split(".")[-1] == "LinCombBool" and own(fi, c):
                    unconstrained = (len(c.args) > 1 and norm(c.args[1]) == "False") or any(
                        k.arg == "constrain" and norm(k.value) == "False" for k in c.keywords)
                    if unconstrained:
                        sites.append((fi, c))
    for fi, c in sites:
        where = fi.loc(c)
        arg = c.args[0]
        if fi.fq == RT + ":LinComb.check_zero":
            if norm(arg) in zero_test_results(fi):
                rule.ok(where, fi.fq, norm(c), "result of the zero test: forced to [self == 0] by the two Pinocchio constraints (R-C02-3)")
            else:
                rule.violation(where, fi.fq, norm(c), "unconstrained Boolean is not the zero-test result", "bool/%s" % fi.fq)
            continue
        # Boolean-valued symbols, path by path: self (a LinCombBool), names bound to `_ensurebool(..)` results and names
        # normalised by `1 if x else 0`; other single assignments are substituted
        from ..hints import paths_to, Path
        paths = paths_to(fi.node, c) or [Path()]
        verdicts = []
        for path in paths:
            boolsyms = {}
            if fi.cls is not None and fi.cls.name == "LinCombBool":
                boolsyms[fi.params[0]] = "self is a LinCombBool"
            # a wire with its own booleanity constraint b*(1-b) = 0 emitted ahead of the construction (on this path)
            explicit_ = {}
            from ..bitnorm import _is_booleanity
            from ..loader import precedes as _prec2
            for st_ in ast.walk(fi.node):
                if isinstance(st_, ast.Expr) and isinstance(st_.value, ast.Call) and own(fi, st_) and _prec2(fi.node, st_, c):
                    for x_ in ast.walk(arg):
                        if isinstance(x_, ast.Name) and _is_booleanity(st_, x_.id) and any(st_ is s2 or any(st_ is y_ for y_ in ast.walk(s2))
                                                                                              for s2 in [fi.node]):
                            # the constraint must lie on this path: no governing test of it may be false here
                            gov_ = [p_ for p_ in parents(st_) if isinstance(p_, ast.If)]
                            if all(any(t_ is g_.test for t_, _pol in path.conds) for g_ in gov_):
                                explicit_[x_.id] = "explicit booleanity constraint %s" % norm(st_.value)[:50]
            env = {k: P.sym(k) for k in boolsyms}
            for step in path.steps:
                if step[0] == "cond":
                    # what the outcome of this test says for certain (not / and-true / or-false are taken apart): a type test for
                    # LinCombBool, or a call of a helper that answers "is a bit" - the operand's wire carries a bit on this path
                    for at_, pol_ in _certain_atoms(step[1], step[2]):
                        nm_ = _bit_fact(repo, fi, at_) if pol_ else None
                        if nm_ is not None and (nm_ not in env or env[nm_] == P.sym(nm_)):
                            boolsyms[nm_] = "a bit on this path (test `%s` holds)" % norm(at_)[:50]
                            env[nm_] = P.sym(nm_)
                if step[0] != "assign":
                    continue
                nm, val = step[1], step[2]
                vt = norm(val)
                if "_ensurebool(" in vt and isinstance(val, (ast.Call, ast.Attribute)):
                    boolsyms[nm] = "converted with _ensurebool"
                    env[nm] = P.sym(nm)
                elif isinstance(val, ast.Call) and _returns_bits(repo, fi, val):
                    boolsyms[nm] = "result of a helper that returns 0 or 1 on every path (or raises)"
                    env[nm] = P.sym(nm)
                elif isinstance(val, ast.IfExp) and norm(val.body) == "1" and norm(val.orelse) == "0":
                    boolsyms[nm] = "normalised to 0/1"
                    env[nm] = P.sym(nm)
                else:
                    try:
                        env[nm] = Valuer(dict(env))._p(val)
                    except (Undecidable, NeedCase):
                        env.pop(nm, None)
                        boolsyms.pop(nm, None)
            for k_, why_ in explicit_.items():
                boolsyms[k_] = why_
                env[k_] = P.sym(k_)
            try:
                p = Valuer(dict(env))._p(arg)
            except (Undecidable, NeedCase) as e:
                verdicts.append(("undecided", "argument not interpretable: %s" % e, None))
                continue
            syms = sorted(p.symbols())
            unknown = [s_ for s_ in syms if s_ not in boolsyms]
            if unknown:
                verdicts.append(("violation", "unconstrained Boolean built from `%s`, which is not known to be Boolean" % unknown[0],
                                 "%s = %s" % (norm(arg), p)))
                continue
            bad = []
            for vals in itertools.product((0, 1), repeat=len(syms)):
                r = p.evaluate(dict(zip(syms, vals)))
                if r not in (0, 1):
                    bad.append((dict(zip(syms, vals)), r))
            term = "%s = %s over Boolean %s" % (norm(arg), p, syms)
            if bad:
                verdicts.append(("violation", "polynomial leaves {0,1} for Boolean operands, and no booleanity constraint is emitted",
                                 term + "; e.g. %s -> %s" % bad[0]))
            else:
                verdicts.append(("ok", "truth table stays in {0,1} (%d rows)" % (2 ** len(syms)), term))
        key = "bool/%s/%s" % (fi.fq, norm(arg)[:40])
        viol = [v for v in verdicts if v[0] == "violation"]
        und = [v for v in verdicts if v[0] == "undecided"]
        if viol:
            rule.violation(where, fi.fq, viol[0][2], viol[0][1], key)
        elif und:
            rule.undecided(where, fi.fq, norm(c), und[0][1])
        else:
            rule.ok(where, fi.fq, verdicts[0][2] + ("  [%d paths]" % len(verdicts) if len(verdicts) > 1 else ""), verdicts[0][1])


def _certain_atoms(test, pol):
    """(atom, polarity) pairs that hold for certain when `test` evaluated to `pol`"""
    if isinstance(test, ast.UnaryOp) and isinstance(test.op, ast.Not):
        yield from _certain_atoms(test.operand, not pol)
    elif isinstance(test, ast.BoolOp) and ((isinstance(test.op, ast.And) and pol) or (isinstance(test.op, ast.Or) and not pol)):
        for v in test.values:
            yield from _certain_atoms(v, pol)
    else:
        yield test, pol


def _implies_bit(e, name):
    """the expression, when true, says that `name` is a LinCombBool or one of the integers 0, 1"""
    if isinstance(e, ast.Call) and norm(e.func) == "isinstance" and len(e.args) == 2 and norm(e.args[0]) == name:
        kinds = e.args[1].elts if isinstance(e.args[1], ast.Tuple) else [e.args[1]]
        return all(norm(k).split(".")[-1] in ("LinCombBool", "bool") for k in kinds)
    if isinstance(e, ast.BoolOp) and isinstance(e.op, ast.Or):
        return all(_implies_bit(v, name) for v in e.values)
    if isinstance(e, ast.BoolOp) and isinstance(e.op, ast.And):
        return any(_implies_bit(v, name) for v in e.values)
    if isinstance(e, ast.Compare) and len(e.ops) == 1 and norm(e.left) == name:
        c = e.comparators[0]
        if isinstance(e.ops[0], (ast.Eq, ast.Is)):
            return isinstance(c, ast.Constant) and c.value in (0, 1) and not isinstance(c.value, float)
        if isinstance(e.ops[0], ast.In) and isinstance(c, (ast.Tuple, ast.List, ast.Set)):
            return all(isinstance(x, ast.Constant) and x.value in (0, 1) and not isinstance(x.value, float) for x in c.elts)
    return False


def _bit_fact(repo, fi, atom):
    """name N such that `atom` being true makes N a bit: isinstance(N, LinCombBool), or PRED(N) for a one-parameter helper of the
    module whose only statement returns an expression that implies it"""
    if isinstance(atom, (ast.BoolOp, ast.Compare)):
        for nm in sorted({x.id for x in ast.walk(atom) if isinstance(x, ast.Name)}):
            if _implies_bit(atom, nm):
                return nm
        return None
    if not isinstance(atom, ast.Call) or atom.keywords:
        return None
    if norm(atom.func) == "isinstance" and len(atom.args) == 2 and isinstance(atom.args[0], ast.Name):
        return atom.args[0].id if _implies_bit(atom, atom.args[0].id) else None
    if isinstance(atom.func, ast.Name) and len(atom.args) == 1 and isinstance(atom.args[0], ast.Name):
        h = repo.module(fi.fq.split(":")[0]).functions.get(atom.func.id)
        if h is None:
            return None
        body = [s for s in h.node.body if not (isinstance(s, ast.Expr) and isinstance(s.value, ast.Constant))]
        ps = [a.arg for a in h.node.args.args]
        if len(body) == 1 and isinstance(body[0], ast.Return) and body[0].value is not None and len(ps) == 1 \
                and _implies_bit(body[0].value, ps[0]):
            return atom.args[0].id
    return None


def _root_of(n):
    r = n
    for p in parents(n):
        r = p
        if isinstance(p, (ast.FunctionDef, ast.AsyncFunctionDef)):
            break
    return r


def _same_arm(a, c):
    """Assignment `a` precedes call `c` in the same statement list chain (no enclosing arm of `a` excludes `c`)."""
    pa = [p for p in parents(a) if isinstance(p, (ast.If, ast.For, ast.While))]
    pc = [p for p in parents(c) if isinstance(p, (ast.If, ast.For, ast.While))]
    from ..loader import precedes
    return all(p in pc for p in pa) and precedes(_root_of(a), a, c)


def on_all_paths(fi, pred, what, rule, key):
    """Some call satisfying `pred` lies on every completing path of fi."""
    cfg = CFG(fi.node)
    nodes = set()
    hit = None
    for n in range(cfg.n):
        st = cfg.stmt[n]
        if st is None:
            continue
        for c in calls_in(own_stmt_part(st, cfg.kind[n])):
            if pred(c):
                nodes.add(n)
                hit = c
    if not nodes:
        rule.violation(fi.loc(), fi.fq, what, "obligation missing: %s" % what, key)
        return None
    return hit, nodes, cfg


def rule_gadgets(repo, rule):
    lc = repo.cls(RT, "LinComb")
    # ------------------------------------------------------------ division
    dm = lc.methods["__divmod__"]
    # the statement list that holds the division constraint (an isinstance arm, or the body after a guard clause)
    class _Scope:
        pass
    arm = None
    cons_calls = [c for c in ast.walk(dm.node) if isinstance(c, ast.Call) and norm(c.func).split(".")[-1] in EMITTERS and not norm(c.func).startswith("backend.") and len(c.args) >= 3]
    if cons_calls:
        st = cons_calls[0]
        while getattr(st, "_parent", None) is not None and not isinstance(st, ast.stmt):
            st = st._parent
        holder = getattr(st, "_parent", None)
        arm = _Scope()
        if isinstance(holder, ast.If) and st in holder.body:
            arm.body = holder.body
        elif isinstance(holder, ast.If):
            arm.body = holder.orelse
        else:
            arm.body = list(getattr(holder, "body", dm.node.body))
        arm.lineno = arm.body[0].lineno
        arm.col_offset = arm.body[0].col_offset
    if arm is None:
        raise AnalysisError("__divmod__: no division constraint found")
    # fresh witnesses of the arm (bound at its top level, or on every branch of a choice inside it: quo = PrivVal(0) / PrivVal(s // d))
    allocs = {norm(a.targets[0]): a for st_ in arm.body for a in ast.walk(st_) if isinstance(a, ast.Assign) and isinstance(a.value, ast.Call)
              and norm(a.value.func) == "PrivVal" and len(a.targets) == 1 and isinstance(a.targets[0], ast.Name)}
    for nm_ in list(allocs):
        binds_ = [a for st_ in arm.body for a in ast.walk(st_) if isinstance(a, ast.Assign) and len(a.targets) == 1 and norm(a.targets[0]) == nm_]
        if not all(isinstance(b_.value, ast.Call) and norm(b_.value.func) == "PrivVal" for b_ in binds_):
            allocs.pop(nm_)
    cons = [c for s in arm.body for c in ast.walk(s) if isinstance(c, ast.Call) and norm(c.func).split(".")[-1] in EMITTERS and not norm(c.func).startswith("backend.") and len(c.args) >= 3]
    divisor = dm.params[1]
    s_ = dm.params[0]
    q = r = None
    if cons:
        v, w, y = cons[0].args[:3]
        env = {k: P.sym(k) for k in list(allocs) + [s_, divisor]}
        pv, pw, py = (poly_of(x, env, strict=True) for x in (v, w, y))
        for cand_q in allocs:
            for cand_r in allocs:
                if cand_q != cand_r and pv is not None and pw is not None and py is not None and \
                        pv * pw == P.sym(cand_q) * P.sym(divisor) and py == P.sym(s_) - P.sym(cand_r):
                    q, r = cand_q, cand_r
    if q is None:
        rule.violation(dm.loc(cons[0]) if cons else dm.loc(), dm.fq, norm(cons[0]) if cons else "no constraint",
                       "division is not tied by  quotient * divisor = dividend - remainder  over two fresh witnesses", "divmod/relation")
    else:
        rule.ok(dm.loc(cons[0]), dm.fq, norm(cons[0]), "%s * %s = %s - %s" % (q, divisor, s_, r))
        # the remainder's window, path by path: the range assertions executed on the way to each return of the arm must pin the
        # remainder to |divisor| consecutive values - [0, d) (d > 0) or (d, 0] (d < 0).  One value more and the prover may
        # shift the quotient by one.
        from ..hints import paths_to as _ptr
        D_ = P.sym(divisor)
        rcalls = [c for s in arm.body for c in ast.walk(s) if isinstance(c, ast.Call) and isinstance(c.func, ast.Attribute)
                  and norm(c.func.value) == r and c.func.attr in ("assert_lt", "assert_le", "assert_gt", "assert_ge", "assert_positive", "assert_range")]
        arm_rets = [n for s2 in arm.body for n in ast.walk(s2) if isinstance(n, ast.Return) and n.value is not None and norm(n.value) != "NotImplemented"]
        windows = {}
        for rt_ in arm_rets:
            for pth in _ptr(dm.node, rt_) or []:
                lo, hi = [], []          # inclusive lower bounds, exclusive upper bounds (polynomials in the divisor)
                for c in rcalls:
                    gov = []
                    ch = c
                    for p_ in parents(c):
                        if isinstance(p_, ast.If):
                            gov.append((p_, any(ch is b_ or any(ch is y_ for y_ in ast.walk(b_)) for b_ in p_.body)))
                        if p_ is dm.node:
                            break
                    if not all(any(t_ is g_.test and pol_ == inb_ for t_, pol_ in pth.conds) for g_, inb_ in gov):
                        continue
                    ps = [poly_of(a_, {divisor: D_}, strict=True) for a_ in c.args]
                    m_ = c.func.attr
                    if m_ == "assert_positive":
                        lo.append(P())
                    elif ps and ps[0] is not None and m_ == "assert_lt":
                        hi.append(ps[0])
                    elif ps and ps[0] is not None and m_ == "assert_le":
                        hi.append(ps[0] + 1)
                    elif ps and ps[0] is not None and m_ == "assert_gt":
                        lo.append(ps[0] + 1)
                    elif ps and ps[0] is not None and m_ == "assert_ge":
                        lo.append(ps[0])
                    elif len(ps) >= 2 and None not in ps[:2] and m_ == "assert_range":
                        lo.append(ps[0])
                        hi.append(ps[1])
                windows.setdefault((tuple(str(x) for x in lo), tuple(str(x) for x in hi)), (lo, hi, rt_))
        for (_kl, _kh), (lo, hi, rt_) in sorted(windows.items()):
            good = (any(l_.is_zero() for l_ in lo) and any(h_ == D_ for h_ in hi)) or \
                   (any(l_ == D_ + 1 for l_ in lo) and any(h_ == P.const(1) for h_ in hi))
            txt = "%s in [%s, %s)" % (r, " / ".join(_kl) or "-inf", " / ".join(_kh) or "+inf")
            if good:
                rule.ok(dm.loc(rt_), dm.fq, txt, "remainder pinned to |divisor| consecutive values")
            else:
                rule.violation(dm.loc(rt_), dm.fq, txt, "range check missing, applied to the wrong value or one value too wide: the remainder is "
                               "not confined to [0, divisor) (or (divisor, 0] for a negative divisor), so the prover may shift the quotient",
                               "divmod/remainder-window")
        if not windows:
            rule.violation(dm.loc(arm), dm.fq, "no return of the secret arm reached", "remainder range not established", "divmod/remainder-window")
        # the relation is over the FIELD: quotient * divisor must not wrap around, so the quotient needs a range bound too
        RANGE = ("assert_positive", "assert_range", "check_positive", "to_bits", "assert_lt", "assert_le", "assert_gt", "assert_ge")
        qhit = [c for s in arm.body for c in ast.walk(s) if isinstance(c, ast.Call) and isinstance(c.func, ast.Attribute)
                and c.func.attr in RANGE and any(isinstance(x, ast.Name) and x.id == q for x in ast.walk(c.func.value))]
        if qhit:
            rule.ok(dm.loc(qhit[0]), dm.fq, norm(qhit[0]), "quotient is range-bounded (no wrap-around of quotient * divisor in the field)")
        else:
            rule.violation(dm.loc(allocs[q]), dm.fq, "%s = %s; no range check on %s" % (q, norm(allocs[q].value), q),
                           "the quotient witness is a free field element: for any remainder r' in [0, divisor) the assignment "
                           "quotient = (dividend - r') * inv(divisor) satisfies every constraint, so the remainder (and quotient) "
                           "is not determined by the operands", "divmod/quotient-range")
        rets = [n for s_ in arm.body for n in ast.walk(s_) if isinstance(n, ast.Return) and n.value is not None and norm(n.value) != "NotImplemented"]
        if rets and norm(rets[0].value).replace(" ", "") in ("(%s,%s)" % (q, r),):
            rule.ok(dm.loc(rets[0]), dm.fq, "returns (quotient, remainder)")
        else:
            rule.violation(dm.loc(), dm.fq, norm(rets[0].value) if rets else "", "does not return the constrained (quotient, remainder)",
                           "divmod/ret")
    # exact division
    td = lc.methods["__truediv__"]
    cons = [c for c in ast.walk(td.node) if isinstance(c, ast.Call) and norm(c.func).split(".")[-1] in EMITTERS and not norm(c.func).startswith("backend.") and len(c.args) >= 3]
    if cons:
        a = [norm(x) for x in cons[0].args[:3]]
        res = {norm(x.targets[0]) for x in ast.walk(td.node) if isinstance(x, ast.Assign) and "PrivVal" in norm(x.value)}
        o_ = td.params[1]
        if set(a[:2]) == {o_} | (res & set(a[:2])) and len(res & set(a[:2])) == 1 and a[2] == td.params[0]:
            rule.ok(td.loc(cons[0]), td.fq, norm(cons[0]), "divisor * result = dividend")
            rets = [n for n in ast.walk(td.node) if isinstance(n, ast.Return) and norm(n.value) in res]
            if not rets:
                rule.violation(td.loc(), td.fq, "return", "does not return the constrained quotient", "truediv/ret")
        else:
            rule.violation(td.loc(cons[0]), td.fq, norm(cons[0]), "exact division is not tied by divisor * result = dividend", "truediv/relation")
    else:
        rule.violation(td.loc(), td.fq, "no constraint", "exact division by a secret emits no constraint", "truediv/none")
    # ------------------------------------------------------------ zero test
    cz = lc.methods["check_zero"]
    env = {}
    hints = {}
    from ..flatten import resolve_locals as _rlz
    for a in cz.node.body:
        if isinstance(a, ast.Assign) and isinstance(a.value, ast.Call) and norm(a.value.func).split(".")[-1] in ("PrivVal", "PrivValBool") \
                and a.value.args:
            env[norm(a.targets[0])] = P.sym(norm(a.targets[0]))
            hints[norm(a.targets[0])] = norm(_rlz(cz.node, a.value.args[0]))
    env[cz.params[0]] = P.sym("x")
    env["LinComb.ONE_SAFE"] = P.const(1)
    env["LinComb.ONE"] = P.const(1)
    env["LinComb.ZERO"] = P()
    cons = [c for c in ast.walk(cz.node) if isinstance(c, ast.Call) and norm(c.func).split(".")[-1] in EMITTERS and len(c.args) >= 3]
    polys = []
    for c in cons:
        ps = [poly_of(x, env, strict=True) for x in c.args[:3]]
        if None not in ps:
            polys.append((c, ps[0] * ps[1] - ps[2]))
    # the result witness is the one the gadget returns (possibly wrapped); the other one is the inverse witness
    rnames = {x.id for r_ in ast.walk(cz.node) if isinstance(r_, ast.Return) and r_.value is not None for x in ast.walk(r_.value)
              if isinstance(x, ast.Name)}
    ret = [k for k in hints if k in rnames]
    if len(ret) != 1:
        ret = [k for k, h in hints.items() if h.startswith("1 if") and "== 0" in h]
    wit = [k for k in hints if k not in ret]
    want = None
    if len(ret) == 1 and len(wit) == 1:
        rr, ww = P.sym(ret[0]), P.sym(wit[0])
        x = P.sym("x")
        want = {"x*w = 1 - ret": x * ww - (1 - rr), "x*ret = 0": x * rr}
        got = [p for _c, p in polys]
        for label, wp in want.items():
            if any(p == wp for p in got):
                c = [c for c, p in polys if p == wp][0]
                rule.ok(cz.loc(c), cz.fq, norm(c), "zero test: " + label)
            else:
                rule.violation(cz.loc(), cz.fq, "constraints: %s" % [str(p) for p in got], "zero test lacks the constraint %s: the "
                               "result is not forced to [x == 0]" % label, "check_zero/%s" % label.replace(" ", ""))
        rets = [n for n in ast.walk(cz.node) if isinstance(n, ast.Return)]
        if rets and (("(%s," % ret[0]) in norm(rets[0].value).replace(" ", "") + "," or norm(rets[0].value) == ret[0]):
            rule.ok(cz.loc(rets[0]), cz.fq, norm(rets[0].value), "returns the constrained result")
        else:
            rule.violation(cz.loc(), cz.fq, norm(rets[0].value) if rets else "", "does not return the constrained result", "check_zero/ret")
    else:
        rule.undecided(cz.loc(), cz.fq, "hints %s" % hints, "zero-test witnesses not identified")
    # ------------------------------------------------------------ non-zero test
    # check_nonzero is the complement of the zero test (`~self.check_zero()`), or a gadget of its own over a result r and an
    # inverse witness w with BOTH  x*w = r  (r = 1 forces x != 0)  and  x*(1 - r) = 0  (x != 0 forces r = 1)
    cnz = lc.methods.get("check_nonzero")
    if cnz is not None:
        rets_ = [r for r in ast.walk(cnz.node) if isinstance(r, ast.Return) and r.value is not None]
        from ..flatten import resolve_locals as _rlnz
        def _zero_test_method(name_, depth_=0):
            """a no-argument method that IS a zero test: check_zero, or one whose every return is the result its own two constraints
            force to [x == 0] (or another such method)"""
            if name_ == "check_zero":
                return True
            h_ = lc.methods.get(name_)
            if h_ is None or depth_ > 2 or len(h_.params) != 1:
                return False
            zr_ = zero_test_results(h_)
            hr_ = [r for r in ast.walk(h_.node) if isinstance(r, ast.Return) and r.value is not None and own(h_, r)]
            def one(e_):
                e_ = _rlnz(h_.node, e_)
                if isinstance(e_, ast.Name):
                    return e_.id in zr_
                if isinstance(e_, ast.Call) and norm(e_.func).split(".")[-1] == "LinCombBool" and e_.args:
                    return norm(e_.args[0]) in zr_
                if isinstance(e_, ast.Call) and isinstance(e_.func, ast.Attribute) and norm(e_.func.value) == h_.params[0] and not e_.args:
                    return _zero_test_method(e_.func.attr, depth_ + 1)
                return False
            return bool(hr_) and all(one(r.value) for r in hr_)

        def _complement_of_zero_test(e_):
            e_ = _rlnz(cnz.node, e_, keep=set(zero_test_results(cnz)))
            if norm(e_).replace(" ", "") == "~(%s==0)" % cnz.params[0]:
                return True
            if isinstance(e_, ast.UnaryOp) and isinstance(e_.op, ast.Invert):
                # the zero test written out in place (a shared helper, inlined): the complement of the result its own two
                # constraints force to [x == 0]
                o_ = e_.operand
                if isinstance(o_, ast.Call) and norm(o_.func).split(".")[-1] == "LinCombBool" and o_.args:
                    o_ = o_.args[0]
                if isinstance(o_, ast.Name) and o_.id in zero_test_results(cnz):
                    return True
            return isinstance(e_, ast.UnaryOp) and isinstance(e_.op, ast.Invert) and isinstance(e_.operand, ast.Call) \
                and isinstance(e_.operand.func, ast.Attribute) and norm(e_.operand.func.value) == cnz.params[0] \
                and not e_.operand.args and not e_.operand.keywords and _zero_test_method(e_.operand.func.attr)
        if rets_ and all(_complement_of_zero_test(r.value) for r in rets_):
            rule.ok(cnz.loc(rets_[0]), cnz.fq, norm(rets_[0].value), "non-zero test = complement of the zero test")
        else:
            envz = {cnz.params[0]: P.sym("x"), "LinComb.ONE_SAFE": P.const(1), "LinComb.ONE": P.const(1), "LinComb.ZERO": P()}
            wz = []
            for a in ast.walk(cnz.node):
                if isinstance(a, ast.Assign) and isinstance(a.value, ast.Call) and norm(a.value.func).split(".")[-1] in ("PrivVal", "PrivValBool") \
                        and len(a.targets) == 1 and isinstance(a.targets[0], ast.Name):
                    wz.append(a.targets[0].id)
                    envz[a.targets[0].id] = P.sym(a.targets[0].id)
            consz = [c for c in ast.walk(cnz.node) if isinstance(c, ast.Call) and norm(c.func).split(".")[-1] in EMITTERS and len(c.args) >= 3]
            gotz = []
            for c in consz:
                ps = [poly_of(x_, envz, strict=True) for x_ in c.args[:3]]
                if None not in ps:
                    gotz.append(ps[0] * ps[1] - ps[2])
            okz = False
            x_ = P.sym("x")
            for r_ in wz:
                for w_ in wz:
                    if r_ == w_:
                        continue
                    rr_, ww_ = P.sym(r_), P.sym(w_)
                    need = [x_ * ww_ - rr_, x_ * (1 - rr_)]
                    if all(any(g == n_ or g == -n_ for g in gotz) for n_ in need):
                        okz = True
            if okz:
                rule.ok(cnz.loc(), cnz.fq, "constraints: %s" % [str(g) for g in gotz], "non-zero test: x*w = r and x*(1 - r) = 0")
            else:
                rule.violation(cnz.loc(), cnz.fq, "constraints: %s" % [str(g) for g in gotz], "the non-zero test is neither the complement of "
                               "the zero test nor the pair x*w = r, x*(1 - r) = 0: its result is not forced to [x != 0] (r = 0 with w = 0 "
                               "must be excluded for x != 0)", "check_nonzero/gadget")
    # ------------------------------------------------------------ the primitive assertions
    # assert_zero / assert_nonzero: with an active guard of value 1 (or none at all) every completing path emits a constraint
    # that says  self = 0  /  self * w = 1 for a fresh witness w.  The emission may be the generic one (add_constraint, which
    # adds the dummy) or one written on the guard wire (guard * self = 0, self * w = guard).
    for mname, label in (("assert_zero", "self = 0"), ("assert_nonzero", "self * w = 1")):
        fm = lc.methods.get(mname)
        if fm is None:
            raise AnalysisError("LinComb.%s not found" % mname)
        penv = {fm.params[0]: P.sym("self"), "LinComb.ONE_SAFE": P.const(1), "LinComb.ONE": P.const(1), "LinComb.ZERO": P(),
                "guard": P.const(1)}
        wits = set()
        for a in ast.walk(fm.node):
            if isinstance(a, ast.Assign) and isinstance(a.value, ast.Call) and norm(a.value.func).split(".")[-1] in ALLOCATORS \
                    and len(a.targets) == 1 and isinstance(a.targets[0], ast.Name):
                wits.add(a.targets[0].id)
                penv[a.targets[0].id] = P.sym("w")
        def _says(c, penv=penv, mname=mname):
            if not (isinstance(c, ast.Call) and norm(c.func).split(".")[-1] in EMITTERS and len(c.args) >= 3):
                return False
            ps = [poly_of(x, penv, strict=True) for x in c.args[:3]]
            if None in ps:
                return False
            p = ps[0] * ps[1] - ps[2]
            s = P.sym("self")
            if mname == "assert_zero":
                return p == s or p == -s
            return p == s * P.sym("w") - 1 or p == 1 - s * P.sym("w")
        r = on_all_paths(fm, _says, "a constraint saying %s" % label, rule, "%s/constraint" % mname)
        if r is not None:
            hit, nodes, cfg = r
            if cfg.exit in cfg.reach_avoiding(cfg.entry, nodes):
                rule.violation(fm.loc(), fm.fq, norm(hit), "a completing path emits no constraint saying %s (for a guard of value 1): "
                               "the assertion is not enforced there" % label, "%s/path" % mname)
            else:
                rule.ok(fm.loc(hit), fm.fq, "%d emission(s), e.g. %s" % (len(nodes), norm(hit)), "every completing path says %s" % label)
    # ------------------------------------------------------------ sign test
    cp = lc.methods["check_positive"]
    cons = [c for c in ast.walk(cp.node) if isinstance(c, ast.Call) and norm(c.func).split(".")[-1] in EMITTERS and not norm(c.func).startswith("backend.") and len(c.args) >= 3]
    retnames = {norm(a.targets[0]) for a in ast.walk(cp.node) if isinstance(a, ast.Assign) and isinstance(a.value, ast.Call)
                and norm(a.value.func).endswith("PrivValBool")}
    bitnames = {norm(a.targets[0]) for a in ast.walk(cp.node) if isinstance(a, ast.Assign) and isinstance(a.value, ast.ListComp)
                and "PrivValBool" in norm(a.value.elt)}
    nonbool_bits = [a for a in ast.walk(cp.node) if isinstance(a, ast.Assign) and isinstance(a.value, ast.ListComp)
                    and norm(a.targets[0]) in bitnames | {"bits"} and "PrivValBool" not in norm(a.value.elt)]
    if nonbool_bits:
        rule.violation(cp.loc(nonbool_bits[0]), cp.fq, norm(nonbool_bits[0])[:90], "an arm builds bits that are not constrained "
                       "Booleans", "check_positive/bits")
    if cons and len(retnames) == 1 and bitnames:
        rn, bn = list(retnames)[0], sorted(bitnames)[0]
        env = {rn: P.sym("b"), cp.params[0]: P.sym("x"), "LinComb.from_bits(%s)" % bn: P.sym("S")}
        ps = [poly_of(x, env, strict=True) for x in cons[0].args[:3]]
        x, b, S = P.sym("x"), P.sym("b"), P.sym("S")
        if None not in ps and ps[0] * ps[1] - ps[2] == 2 * b * x - (x + S + 1 - b):
            rule.ok(cp.loc(cons[0]), cp.fq, norm(cons[0]), "2*b*x = x + S + (1-b): b=1 => S = x, b=0 => S = -x-1, with S a sum of Boolean bits")
        else:
            rule.violation(cp.loc(cons[0]), cp.fq, norm(cons[0]), "sign test constraint is not 2*b*x = x + bits + (1-b)", "check_positive/relation")
        rets = [n for n in ast.walk(cp.node) if isinstance(n, ast.Return)]
        if rets and norm(rets[0].value) == rn:
            rule.ok(cp.loc(rets[0]), cp.fq, "returns the Boolean sign witness")
        else:
            rule.violation(cp.loc(), cp.fq, "return", "does not return the constrained sign bit", "check_positive/ret")
    else:
        rule.violation(cp.loc(), cp.fq, "constraints=%d ret=%s bits=%s" % (len(cons), retnames, bitnames), "sign test does not have a "
                       "Boolean result, Boolean bits and one product constraint", "check_positive/shape")
    # ------------------------------------------------------------ comparisons use the sign/zero tests on the right difference
    # (relation agreement is decided in C05 R-C05-2; here: they go through the gadgets at all)
    for name in ("__lt__", "__le__", "__gt__", "__ge__", "__eq__", "__ne__"):
        f = lc.methods[name]
        rets = [n for n in ast.walk(f.node) if isinstance(n, ast.Return)]
        rets = [r for r in rets if r.value is not None and norm(r.value) != "NotImplemented"]      # deferral to another class
        ok = rets and all(isinstance(r.value, ast.Call) and isinstance(r.value.func, ast.Attribute) and
                          r.value.func.attr in ("check_positive", "check_zero", "check_nonzero") for r in rets)
        if ok:
            rule.ok(f.loc(), f.fq, norm(rets[0].value), "comparison result comes from a constrained test gadget")
        else:
            rule.violation(f.loc(), f.fq, norm(rets[0].value) if rets else "", "comparison result is not produced by a test gadget",
                           "cmp/%s" % name)
    # ------------------------------------------------------------ bitwise
    for name, tt in (("__and__", (0, 0, 0, 1)), ("__or__", (0, 1, 1, 1)), ("__xor__", (0, 1, 1, 0))):
        f = lc.methods[name]
        from ..flatten import arm_stmts
        body = arm_stmts(f.node, "isinstance(%s, LinComb)" % f.params[1])
        if not body:
            rule.violation(f.loc(), f.fq, name, "no secret/secret arm", "bitwise/%s/arm" % name)
            continue
        arm = [body[0]]
        tb = [a for a in body if isinstance(a, ast.Assign) and isinstance(a.value, ast.Call) and norm(a.value.func).endswith(".to_bits")]
        comp = [a for a in body if isinstance(a, ast.Assign) and isinstance(a.value, ast.ListComp)]
        rets = [n for n in body if isinstance(n, ast.Return)]
        # the value returned, with the arm's single-assignment locals substituted:
        #   from_bits([POLY(x, y) for x, y in zip(self.to_bits(), other.to_bits())])       (whatever the locals are called)
        from ..flatten import resolve_locals as _rlb
        rv = _rlb(f.node, rets[0].value, max_depth=6) if rets and rets[0].value is not None else None
        sem = None
        if isinstance(rv, ast.Call) and norm(rv.func).split(".")[-1] == "from_bits" and len(rv.args) == 1 and isinstance(rv.args[0], (ast.ListComp, ast.GeneratorExp)) \
                and len(rv.args[0].generators) == 1:
            g_ = rv.args[0].generators[0]
            if isinstance(g_.iter, ast.Call) and norm(g_.iter.func) == "zip" and len(g_.iter.args) == 2 and isinstance(g_.target, ast.Tuple) \
                    and len(g_.target.elts) == 2 and not g_.ifs:
                srcs_ = sorted(norm(a) for a in g_.iter.args)
                want_ = sorted(["%s.to_bits()" % f.params[0], "%s.to_bits()" % f.params[1]])
                a_, b_ = [norm(e) for e in g_.target.elts]
                p_ = poly_of(rv.args[0].elt, {a_: P.sym("a"), b_: P.sym("b")}, strict=True)
                table_ = tuple(int(p_.evaluate({"a": x, "b": y})) for x in (0, 1) for y in (0, 1)) if p_ is not None else None
                sem = (srcs_ == want_, p_, table_)
        if sem is not None and not (len(tb) == 2 and comp):
            okd, p_, table_ = sem
            if okd and table_ == tt:
                rule.ok(f.loc(rets[0]), f.fq, "per-bit %s over both decompositions" % p_, "truth table %s" % (table_,))
            elif okd:
                rule.violation(f.loc(rets[0]), f.fq, "per-bit %s, table %s" % (p_, table_), "per-bit polynomial does not have the truth "
                               "table of %s %s" % (name, tt), "bitwise/%s/table" % name)
            else:
                rule.violation(f.loc(rets[0]), f.fq, norm(rv)[:100], "secret/secret bitwise operator does not combine the bits of both operands",
                               "bitwise/%s/shape" % name)
        elif len(tb) == 2 and comp and rets and norm(rets[0].value) == "LinComb.from_bits(%s)" % norm(comp[0].targets[0]):
            g = comp[0].value.generators[0]
            srcs = {norm(t.targets[0]) for t in tb}
            zipped = norm(g.iter).replace(" ", "")
            a_, b_ = [norm(e) for e in g.target.elts]
            p = poly_of(comp[0].value.elt, {a_: P.sym("a"), b_: P.sym("b")}, strict=True)
            table = tuple(int(p.evaluate({"a": x, "b": y})) for x in (0, 1) for y in (0, 1)) if p is not None else None
            if table == tt and all(s in zipped for s in srcs) and zipped.startswith("zip(") and not g.ifs:
                rule.ok(f.loc(comp[0]), f.fq, "per-bit %s over both decompositions" % p, "truth table %s" % (table,))
            else:
                rule.violation(f.loc(comp[0]), f.fq, "per-bit %s, table %s" % (p, table), "per-bit polynomial does not have the truth "
                               "table of %s %s" % (name, tt), "bitwise/%s/table" % name)
        else:
            rule.violation(f.loc(arm[0]), f.fq, norm(body)[:100], "secret/secret bitwise operator is not decompose, combine per bit, "
                           "recompose", "bitwise/%s/shape" % name)
    rule_selection(repo, rule)


def _gate_poly(n, env):
    """polynomial of an expression built from + - * and the Boolean gates & | ^ ~ (a&b = ab, a|b = a+b-ab, a^b = a+b-2ab,
    ~a = 1-a); None if something else occurs"""
    if isinstance(n, ast.Name) and n.id in env:
        return env[n.id]
    if isinstance(n, ast.Attribute) and n.attr == "lc":
        return _gate_poly(n.value, env)
    if isinstance(n, ast.Constant) and isinstance(n.value, int):
        return P.const(int(n.value))
    if isinstance(n, ast.UnaryOp):
        v = _gate_poly(n.operand, env)
        if v is None:
            return None
        if isinstance(n.op, ast.USub):
            return -v
        if isinstance(n.op, ast.Invert):
            return P.const(1) - v
        return None
    if isinstance(n, ast.BinOp):
        l, r = _gate_poly(n.left, env), _gate_poly(n.right, env)
        if l is None or r is None:
            return None
        if isinstance(n.op, ast.Add):
            return l + r
        if isinstance(n.op, ast.Sub):
            return l - r
        if isinstance(n.op, ast.Mult):
            return l * r
        if isinstance(n.op, ast.BitAnd):
            return l * r
        if isinstance(n.op, ast.BitOr):
            return l + r - l * r
        if isinstance(n.op, ast.BitXor):
            return l + r - P.const(2) * l * r
        return None
    if isinstance(n, ast.Call) and norm(n.func).split(".")[-1] in ("LinCombBool", "_ensurefxp", "_ensurebool", "_ensurelc") and n.args:
        return _gate_poly(n.args[0], env)
    if isinstance(n, ast.Call) and isinstance(n.func, ast.Attribute) and n.func.attr == "__if_then_else__" and len(n.args) == 2 and not n.keywords:
        # the selection protocol:  X.__if_then_else__(other, cond)  is  X if cond else other
        a, b, c = _gate_poly(n.func.value, env), _gate_poly(n.args[0], env), _gate_poly(n.args[1], env)
        if a is None or b is None or c is None:
            return None
        return b + c * (a - b)
    return None


def rule_selection(repo, rule):
    """if_then_else: a secret condition is Boolean-typed before it selects, and EVERY value returned for a secret
    condition is select(c, t, f) = f + c*(t - f): as a polynomial, or - where both alternatives are Boolean-typed and
    the result is built from logic gates - on all of {0,1}^3."""
    from ..hints import paths_to
    ite = repo.fn("pysnark.branching", "if_then_else")
    c_, t_, f_ = ite.params
    guard = [s for s in ite.node.body if isinstance(s, ast.If) and norm(s.test) == "not isinstance(%s, LinCombBool)" % c_
             and any(isinstance(b, ast.Raise) for b in s.body)]
    rets = [n for n in ast.walk(ite.node) if isinstance(n, ast.Return) and n.value is not None and not any(
        isinstance(p_, (ast.FunctionDef, ast.Lambda)) and p_ is not ite.node for p_ in parents(n))]
    if guard and rets:
        rule.ok(ite.loc(guard[0]), ite.fq, norm(guard[0].test), "a secret condition must be Boolean-typed before it selects")
    else:
        rule.violation(ite.loc(), ite.fq, "no LinCombBool type check before the selection", "selection accepts a condition that is not "
                       "constrained Boolean: cond = 2 selects 2*t - f", "select/type")
    from ..loader import precedes as _prec
    env = {c_: P.sym("c"), t_: P.sym("t"), f_: P.sym("f")}
    want = P.sym("f") + P.sym("c") * (P.sym("t") - P.sym("f"))
    n_sel = 0
    for r in rets:
        if guard and _prec(ite.node, r, guard[0]):
            # public condition / identical alternatives: decided before the type check.  A value handed to the selection protocol
            # of one of the alternatives there is still a selection on the (possibly secret) condition and must be select(c, t, f)
            if "__if_then_else__" in norm(r.value):
                pp = _gate_poly(r.value, dict(env))
                if pp is not None and pp != want:
                    rule.violation(ite.loc(r), ite.fq, "%s = %s" % (norm(r.value), pp), "the selection protocol is asked with the "
                                   "alternatives the wrong way round: X.__if_then_else__(other, cond) is `X if cond else other`",
                                   "select/protocol")
                elif pp is not None:
                    rule.ok(ite.loc(r), ite.fq, norm(r.value), "selection protocol: f + c*(t - f)")
            continue
        v = r.value
        if isinstance(v, ast.ListComp) and isinstance(v.elt, ast.Call) and norm(v.elt.func).endswith("if_then_else") \
                and len(v.elt.args) == 3 and norm(v.elt.args[0]) == c_ and "zip(%s, %s)" % (t_, f_) in norm(v.generators[0].iter).replace(",", ", ").replace("  ", " "):
            rule.ok(ite.loc(r), ite.fq, norm(v)[:90], "element-wise selection over the two lists")
            continue
        # local re-bindings on the way (falsev = _ensurefxp(falsev)) keep the operand's value
        e2 = dict(env)
        for path in paths_to(ite.node, r)[:1]:
            for nm, val in path.assigns:
                gp = _gate_poly(val, e2)
                if gp is not None:
                    e2[nm] = gp
        p = _gate_poly(v, e2)
        n_sel += 1
        uses_gates = any(isinstance(x, ast.BinOp) and isinstance(x.op, (ast.BitAnd, ast.BitOr, ast.BitXor)) or
                         isinstance(x, ast.UnaryOp) and isinstance(x.op, ast.Invert) for x in ast.walk(v))
        if p is None:
            rule.undecided(ite.loc(r), ite.fq, norm(v)[:100], "selection value not interpretable")
        elif p == want:
            rule.ok(ite.loc(r), ite.fq, norm(v), "f + c*(t - f): t when c = 1, f when c = 0")
        elif uses_gates and p.symbols() <= {"c", "t", "f"}:
            rows = [(c, t, f) for c in (0, 1) for t in (0, 1) for f in (0, 1)]
            bad = [(c, t, f, int(p.evaluate({"c": c, "t": t, "f": f}))) for c, t, f in rows
                   if p.evaluate({"c": c, "t": t, "f": f}) != (t if c else f)]
            if bad:
                c, t, f, got = bad[0]
                rule.violation(ite.loc(r), ite.fq, "%s = %s" % (norm(v), p), "Boolean selection has the wrong truth table: for cond=%d, "
                               "true=%d, false=%d it yields %d instead of %d" % (c, t, f, got, t if c else f), "select/formula")
            else:
                rule.ok(ite.loc(r), ite.fq, norm(v), "logic-gate selection with the truth table of select on {0,1}^3")
        else:
            rule.violation(ite.loc(r), ite.fq, "%s = %s" % (norm(v), p), "selection formula is not false + cond*(true - false)",
                           "select/formula")
    if n_sel == 0:
        rule.violation(ite.loc(), ite.fq, "no selection value after the type check", "if_then_else never selects for a secret condition",
                       "select/none")


def check(repo, rep, tier):
    rep.explanation = ("Necessary structural conditions of soundness, each of which, if broken, leaves a result the prover can "
                       "choose freely: def-use of every allocated witness into a constraint-emitting call, truth tables of the "
                       "polynomials behind unconstrained Boolean constructions, and the presence, operands and receivers of "
                       "the constraints / range checks that make up each gadget (as polynomial relations over the gadget's own "
                       "witnesses).")
    rep.trusted = ["Pinocchio zero-test, sign-test and division gadgets are sound when all their listed constraints are present"]
    rep.not_decided = ["uniqueness of results over ALL assignments to auxiliary witnesses in general (algebra over the solution "
                       "set: solver family); decided here only through the per-gadget obligation lists"]
    r1 = rep.rule("R-C02-1", "no dangling witness", floor=12)
    rule_dangling(repo, r1)
    r2 = rep.rule("R-C02-2", "unconstrained Boolean constructions are Boolean-closed polynomials", floor=5)
    rule_boolean(repo, r2)
    r3 = rep.rule("R-C02-3", "gadget obligations", floor=20)
    rule_gadgets(repo, r3)
    r5 = rep.rule("R-C02-5", "emission is memoryless: constraints tie THIS call's operands, never a cached earlier result", floor=4)
    from .memoryless import rule_memoryless
    rule_memoryless(repo, r5)
    r7 = rep.rule("R-C02-7", "hand-written divisions by a power of two bound the remainder by the divisor (shared with C14; expected count 0 "
                  "on the pinned tree)", floor=0)
    from .c14 import rule_rescale_gadgets
    rule_rescale_gadgets(repo, r7)
    r6 = rep.rule("R-C02-6", "under a guard every constraint is enforced on its own: v*w = y + dummy with guard*dummy = 0 per constraint (shared with C07)", floor=3)
    from .c07 import rule_dummy_path
    rule_dummy_path(repo, r6)
    r4 = rep.rule("R-C02-4", "constraints are not emitted under a stale guard: guard state is restored on every exit (shared with C08)", floor=10)
    from .c08 import guard_discipline
    guard_discipline(repo, r4)
    # shared instances
    from .c16 import rule_decomposition
    from .c15 import check_selector, secret_arm
    from ..report import Rule
    tmp = Rule("R-C02-3", "")
    rule_decomposition(repo, tmp)
    ci = repo.cls("pysnark.array", "Array")
    for mn in ("__getitem__", "__setitem__"):
        f = ci.methods[mn]
        arm = secret_arm(f)
        if arm is not None:
            check_selector(f, arm, tmp)
    r3.instances.extend(tmp.instances)
