"""C12 - qaptools equation / wire / I-O files are consistent and split faithfully.

R-C12-1  flush discipline: every path to a reader of a file the backend keeps open for writing passes a
         flush/close of that file after the last unflushed write (ordering on the CFG of prove())
R-C12-2  writer/reader grammar agreement of the record kinds ([function] [ioblock] [external] [glue], equations)
R-C12-3  a public value is written as wire + I/O wire (same value) + linking equation; a private one as wire only
R-C12-4  coefficients are reduced mod p and term lists are concatenated (shared instances of R-C13-2)
R-C12-5  sub-circuit glue pairing: copies carry the caller's value, pairs are (outer, inner), glue is reached
         on every normal path, both blocks use the same randomness, context restored
R-C12-6  differing equation sets of one function name are reported (digest mismatch raises)
R-C12-8  names derived from the per-context counters are unique (every use consumes the counter)
R-C12-7  block members are unit wires: the re-allocation bypass constrains length *and* coefficient
"""
import ast
import re

from ..cfg import CFG, calls_in, own_stmt_part
from ..loader import norm, AnalysisError, parents

QB = "pysnark.qaptools.backend"
QS = "pysnark.qaptools.qapsplit"


def file_kw(call):
    for kw in call.keywords:
        if kw.arg == "file":
            return norm(kw.value)
    return None


def writes_in(fnode, fvar, records_only=False):
    out = [c for c in ast.walk(fnode) if isinstance(c, ast.Call) and norm(c.func) == "print" and file_kw(c) == fvar]
    if records_only:
        # header comment lines ("# ...") are skipped by every reader and always followed by a flushing record write
        out = [c for c in out if not (c.args and isinstance(c.args[0], ast.Constant) and str(c.args[0].value).startswith("#"))]
    return out


def flushes_in(fnode, fvar):
    return [c for c in ast.walk(fnode) if isinstance(c, ast.Call) and norm(c.func) in ("%s.flush" % fvar, "%s.close" % fvar)]


def rule_flush(repo, rule):
    m = repo.module(QB)
    # which module-level file objects stay open for writing?   name -> path getter
    init = m.functions.get("init")
    if init is None:
        raise AnalysisError("qaptools backend init() not found")
    files = {}
    for n in ast.walk(init.node):
        if isinstance(n, ast.Assign) and isinstance(n.value, ast.Call) and norm(n.value.func) == "open" \
                and len(n.value.args) >= 2 and isinstance(n.value.args[1], ast.Constant) and "w" in n.value.args[1].value:
            files[norm(n.targets[0])] = norm(n.value.args[0]).split(".")[-1].replace("()", "")
    if not files:
        raise AnalysisError("no write-mode files opened by init()")
    # readers of those paths anywhere in the package (python-side) : functions opening the same getter without 'w'
    readers = {}
    for mm in repo.modules.values():
        if not mm.name.startswith("pysnark.qaptools"):
            continue
        for fi in mm.functions.values():
            for n in ast.walk(fi.node):
                if isinstance(n, ast.Call) and norm(n.func) == "open" and n.args:
                    getter = norm(n.args[0]).split(".")[-1].replace("()", "")
                    mode = n.args[1].value if len(n.args) > 1 and isinstance(n.args[1], ast.Constant) else "r"
                    if "w" not in mode and "a" not in mode:
                        readers.setdefault(getter, set()).add(fi.fq)
                # external tools receive the path as an argument
                if isinstance(n, ast.Call) and norm(n.func).startswith("subprocess."):
                    for g in ast.walk(n):
                        if isinstance(g, ast.Call) and norm(g.func).split(".")[-1].startswith("get_"):
                            readers.setdefault(norm(g.func).split(".")[-1], set()).add(fi.fq)
    for fvar, getter in sorted(files.items()):
        # unflushed writers
        unflushed = []
        for fi in m.functions.values():
            if isinstance(fi.node, ast.Lambda):
                continue
            ws = [w for w in writes_in(fi.node, fvar, records_only=True) if _owner(w) is fi.node]
            if not ws:
                continue
            cfg = CFG(fi.node)
            fl = set()
            wn = set()
            for n in range(cfg.n):
                st = cfg.stmt[n]
                if st is None:
                    continue
                part = own_stmt_part(st, cfg.kind[n])
                for c in calls_in(part):
                    if norm(c.func) in ("%s.flush" % fvar, "%s.close" % fvar):
                        fl.add(n)
                    if c in ws:
                        wn.add(n)
            for w in wn:
                if w in fl:
                    continue
                reach = cfg.reach_avoiding(w, fl, first_labels=("next", "true", "false", "return"))
                if cfg.exit in reach:
                    unflushed.append(fi)
                    break
        rd = sorted(readers.get(getter, []))
        where = init.loc()
        if not rd:
            rule.note(where, QB, "%s (%s)" % (fvar, getter), "no python-side reader / external consumer found")
            continue
        if not unflushed:
            rule.ok(where, QB, "%s (%s): every writer flushes before returning; readers %s" % (fvar, getter, rd))
            continue
        # every call path to a reader must flush first: check in each backend function calling a reader
        checked = 0
        for fi in m.functions.values():
            if isinstance(fi.node, ast.Lambda):
                continue
            cfg = None
            for s in ast.walk(fi.node):
                if not isinstance(s, ast.Call) or _owner(s) is not fi.node:
                    continue
                tgt = _resolve_reader(repo, m, s, rd)
                if tgt is None:
                    continue
                if cfg is None:
                    cfg = CFG(fi.node)
                rn = [n for n in range(cfg.n) if cfg.stmt[n] is not None and s in calls_in(own_stmt_part(cfg.stmt[n], cfg.kind[n]))]
                fl = {n for n in range(cfg.n) if cfg.stmt[n] is not None and any(
                    norm(c.func) in ("%s.flush" % fvar, "%s.close" % fvar)
                    for c in calls_in(own_stmt_part(cfg.stmt[n], cfg.kind[n])))}
                reach = cfg.reach_avoiding(cfg.entry, fl)
                checked += 1
                w2 = fi.loc(s)
                term = "%s() reads %s; unflushed writers of %s: %s" % (tgt, getter, fvar, sorted(f.qual for f in unflushed))
                if rn and rn[0] in reach:
                    rule.violation(w2, fi.fq, term,
                                   "%s is read back while records written by %s may still sit in the write buffer of `%s` "
                                   "(no flush/close on the path from entry to the read)" % (
                                       getter, ", ".join(sorted(f.qual for f in unflushed)), fvar),
                                   "flush/%s/%s" % (fi.qual, fvar))
                else:
                    rule.ok(w2, fi.fq, term, "flush/close of %s dominates the read" % fvar)
        if not checked:
            rule.note(where, QB, "%s readers %s" % (fvar, rd), "no call of a reader from the backend module")


def _owner(node):
    for p in parents(node):
        if isinstance(p, (ast.FunctionDef, ast.AsyncFunctionDef, ast.Lambda)):
            return p
    return None


def _resolve_reader(repo, m, call, reader_fqs):
    f = norm(call.func)
    parts = f.split(".")
    if len(parts) == 2:
        b = m.bindings.get(parts[0])
        if b and b[0] == "module":
            fq = "%s:%s" % (b[1], parts[1])
            if fq in reader_fqs:
                return fq
    return None


def rule_grammar(repo, rule):
    m = repo.module(QB)
    qs = repo.fn(QS, "qapsplit")
    written = {}
    eqs = []
    for fi in m.functions.values():
        for c in writes_in(fi.node, "qape"):
            if _owner(c) is not fi.node or not c.args:
                continue
            a0 = c.args[0]
            if isinstance(a0, ast.Constant) and isinstance(a0.value, str) and a0.value.startswith("["):
                nf = len(c.args) - 1
                var = any(isinstance(a, ast.Call) and norm(a.func).endswith(".join") for a in c.args[1:])
                written.setdefault(a0.value, []).append((fi, c, nf - (1 if var else 0), var))
            elif isinstance(a0, ast.Constant) and isinstance(a0.value, str) and a0.value.startswith("#"):
                continue
            else:
                eqs.append((fi, c))
    # reader branches
    handled = {}
    from ..flatten import resolutions as _rs0
    for n in ast.walk(qs.node):
        if isinstance(n, ast.If) and isinstance(n.test, ast.Compare) and "toks[0]" in _rs0(qs.node, n.test.left) \
                and isinstance(n.test.comparators[0], ast.Constant):
            tag = n.test.comparators[0].value
            idx = [x.slice.value for b in n.body for x in ast.walk(b) if isinstance(x, ast.Subscript)
                   and norm(x.value) == "toks" and isinstance(x.slice, ast.Constant) and isinstance(x.slice.value, int)]
            sl = [x for b in n.body for x in ast.walk(b) if isinstance(x, ast.Subscript) and norm(x.value) == "toks"
                  and isinstance(x.slice, ast.Slice)]
            handled[tag] = (n, max(idx) if idx else 0, bool(sl))
    if len(written) < 3 or len(handled) < 3:
        raise AnalysisError("record kinds not recovered (written %s, handled %s)" % (sorted(written), sorted(handled)))
    for tag, sites in sorted(written.items()):
        for fi, c, nf, var in sites:
            where = fi.loc(c)
            if tag not in handled:
                rule.violation(where, fi.fq, norm(c)[:100], "record kind %s is written but the splitter has no branch for it "
                               "(it would be parsed as an equation)" % tag, "grammar/%s/unread" % tag)
                continue
            n, mx, sl = handled[tag]
            if mx > nf:
                rule.violation(where, fi.fq, "%s written with %d fields, reader uses toks[%d]" % (tag, nf, mx),
                               "the reader indexes past the fields the writer emits", "grammar/%s/fields" % tag)
            else:
                rule.ok(where, fi.fq, "%s: %d fixed fields%s written; reader uses up to toks[%d]%s" % (
                    tag, nf, " + list" if var else "", mx, " + slice" if sl else ""))
    # equation lines: the context check of contextualize() must see ALL tokens of the line (one function context per equation)
    ctx_calls = [c for c in ast.walk(qs.node) if isinstance(c, ast.Call) and norm(c.func).split(".")[-1] == "contextualize" and c.args]
    in_tag = set()
    for tag, (n, _mx, _sl) in handled.items():
        for b in n.body:
            for x in ast.walk(b):
                in_tag.add(id(x))
    eq_calls = [c for c in ctx_calls if id(c) not in in_tag]
    if not eq_calls:
        rule.violation(qs.loc(), qs.fq, "no contextualize() call for equation lines", "equations are not split into function contexts",
                       "grammar/eq/context")
    for c in eq_calls:
        if "toks" in _rs0(qs.node, c.args[0]):
            rule.ok(qs.loc(c), qs.fq, norm(c), "the whole equation line goes through one context-consistency check")
        else:
            rule.violation(qs.loc(c), qs.fq, norm(c), "only part of an equation line is checked for context consistency: an equation "
                           "that mixes wires of two function contexts is no longer reported and is filed under one of them",
                           "grammar/eq/context-part")
    for tag in sorted(handled):
        if tag not in written:
            rule.note(qs.loc(handled[tag][0]), qs.fq, tag, "handled by the reader but never written by the backend")
    # equations: `lhs * rhs = out .`   tokens are coefficient / ctx-qualified wire pairs; '=' present exactly once
    for fi, c in eqs:
        parts = []
        for a in c.args:
            if isinstance(a, ast.Constant) and isinstance(a.value, str):
                parts.append(a.value)
            elif isinstance(a, ast.BinOp):
                parts.append(" ".join(x.value for x in ast.walk(a) if isinstance(x, ast.Constant) and isinstance(x.value, str)))
            else:
                parts.append("<%s>" % norm(a))
        txt = " ".join(parts)
        where = fi.loc(c)
        if txt.count("=") == 1 and "*" in txt.split("=")[0]:
            rule.ok(where, fi.fq, "equation record: " + txt[:100])
        else:
            rule.violation(where, fi.fq, txt[:120], "equation record is not of the form `A * B = C`", "grammar/eq/%s" % fi.qual)
    # wire names are ctx/name
    for fn in ("privval", "pubval"):
        fi = m.functions.get(fn)
        sid = [n for n in ast.walk(fi.node) if isinstance(n, ast.Assign) and norm(n.targets[0]).startswith("sid")]
        good = all(norm(s.value).replace("'", '"').startswith('vc_ctx + "/') for s in sid) and sid
        if good:
            rule.ok(fi.loc(), fi.fq, "; ".join(norm(s) for s in sid), "wire ids are <context>/<name> (what contextualize() splits on)")
        else:
            rule.violation(fi.loc(), fi.fq, "; ".join(norm(s) for s in sid), "wire id is not <context>/<name>", "grammar/sid/%s" % fn)


def rule_pubtriple(repo, rule):
    m = repo.module(QB)
    pub, prv = repo.fn(QB, "pubval"), repo.fn(QB, "privval")
    v = pub.params[0]
    pw = [c for c in ast.walk(pub.node) if isinstance(c, ast.Call) and norm(c.func) == "printwire"]
    po = [c for c in ast.walk(pub.node) if isinstance(c, ast.Call) and norm(c.func) == "printwireout"]
    eq = writes_in(pub.node, "qape")
    where = pub.loc()
    if len(pw) == 1 and len(po) == 1 and norm(pw[0].args[0]) == v and norm(po[0].args[0]) == v:
        rule.ok(where, pub.fq, "printwire(%s, %s); printwireout(%s, %s)" % (v, norm(pw[0].args[1]), v, norm(po[0].args[1])),
                "wire and I/O wire carry the same value")
    else:
        rule.violation(where, pub.fq, "%s / %s" % ([norm(c) for c in pw], [norm(c) for c in po]),
                       "a public value is not written once to the wire file and once to the I/O file with the same value",
                       "pub/values")
    if len(pw) == 1 and len(po) == 1 and len(eq) == 1:
        names = {norm(a) for a in eq[0].args}
        if norm(pw[0].args[1]) in names and norm(po[0].args[1]) in names and any(
                isinstance(a, ast.Constant) and "=" in str(a.value) for a in eq[0].args):
            coefs = [a.value for a in eq[0].args if isinstance(a, ast.Constant)]
            if "= 1" in coefs and "-1" in coefs and "*" in coefs:
                rule.ok(pub.loc(eq[0]), pub.fq, norm(eq[0])[:100], "linking equation  0 = 1*wire - 1*io")
            else:
                rule.violation(pub.loc(eq[0]), pub.fq, norm(eq[0])[:100], "linking equation does not state wire == io", "pub/eqcoef")
        else:
            rule.violation(pub.loc(eq[0]), pub.fq, norm(eq[0])[:100], "linking equation does not name the wire and its I/O wire",
                           "pub/eq")
    else:
        rule.violation(where, pub.fq, "%d equation writes" % len(eq), "public value is not tied to its I/O wire by one equation",
                       "pub/noeq")
    pw2 = [c for c in ast.walk(prv.node) if isinstance(c, ast.Call) and norm(c.func) == "printwire"]
    po2 = [c for c in ast.walk(prv.node) if isinstance(c, ast.Call) and norm(c.func) == "printwireout"]
    if len(pw2) == 1 and not po2 and norm(pw2[0].args[0]) == prv.params[0]:
        rule.ok(prv.loc(), prv.fq, norm(pw2[0]), "private value: wire file only")
    else:
        rule.violation(prv.loc(), prv.fq, "%s / %s" % ([norm(c) for c in pw2], [norm(c) for c in po2]),
                       "a private value must be written to the wire file only (and exactly once)", "priv/values")
    # wire / io writers flush
    for fn, fvar in (("printwire", "qapv"), ("printwireout", "qapvo")):
        fi = m.functions.get(fn)
        if fi is None:
            continue
        if writes_in(fi.node, fvar) and flushes_in(fi.node, fvar):
            rule.ok(fi.loc(), fi.fq, "print(..., file=%s); %s.flush()" % (fvar, fvar))
        else:
            rule.violation(fi.loc(), fi.fq, norm(fi.node.body)[:100], "%s does not write+flush %s" % (fn, fvar), "flushw/%s" % fn)


def trav_sig(fnode, bind=None):
    """Signature of a recursive structure traversal `def t(.., struct)`: (container classes it descends into, leaf class),
    or None.  Containers are iterated front to back, every element is visited (no filter, no slice), the recursion is on the
    element; the leaf arm applies a function to / yields the leaf itself.  `bind` maps parameter names to argument texts."""
    bind = bind or {}
    params = [a.arg for a in fnode.args.args]
    if not params:
        return None
    sp = params[-1]
    conts, leaf = set(), None

    def types_of(test):
        if isinstance(test, ast.Call) and norm(test.func) == "isinstance" and len(test.args) == 2 and norm(test.args[0]) == sp:
            ts = test.args[1].elts if isinstance(test.args[1], (ast.Tuple, ast.List)) else [test.args[1]]
            return [bind.get(norm(t), norm(t)) for t in ts]
        if isinstance(test, ast.BoolOp) and isinstance(test.op, ast.Or):
            out = []
            for v in test.values:
                t = types_of(v)
                if t is None:
                    return None
                out += t
            return out
        return None

    def recursive_over_struct(stmts):
        """the arm visits every element of `sp` in order through a recursive call"""
        for n in ast.walk(ast.Module(body=stmts, type_ignores=[])):
            it, var, body = None, None, None
            if isinstance(n, (ast.ListComp, ast.GeneratorExp)) and len(n.generators) == 1 and not n.generators[0].ifs:
                it, var, body = n.generators[0].iter, n.generators[0].target, n.elt
            elif isinstance(n, ast.For) and not n.orelse:
                it, var, body = n.iter, n.target, ast.Module(body=n.body, type_ignores=[])
            elif isinstance(n, ast.Call) and norm(n.func) == "map" and len(n.args) == 2 and isinstance(n.args[0], ast.Lambda) \
                    and len(n.args[0].args.args) == 1:
                it, var, body = n.args[1], ast.Name(id=n.args[0].args.args[0].arg, ctx=ast.Store()), n.args[0].body
            if it is None or norm(it) != sp or not isinstance(var, ast.Name):
                continue
            for c in ast.walk(body):
                if isinstance(c, ast.Call) and norm(c.func) == fnode.name and c.args and norm(c.args[-1]) == var.id:
                    return True
        return False

    def walk(stmts):
        nonlocal leaf
        for s in stmts:
            if isinstance(s, ast.If):
                ts = types_of(s.test)
                if ts is None:
                    return False
                if recursive_over_struct(s.body):
                    conts.update(t.split(".")[-1] for t in ts)
                else:
                    uses_leaf = any((isinstance(x, ast.Call) and any(norm(a) == sp for a in x.args)) or
                                    (isinstance(x, (ast.Yield, ast.Return)) and x.value is not None and norm(x.value) == sp)
                                    for b in s.body for x in ast.walk(b))
                    if not uses_leaf or len(ts) != 1 or leaf is not None:
                        return False
                    leaf = ts[0]
                if s.orelse and not walk(s.orelse):
                    return False
            elif isinstance(s, (ast.Return, ast.Expr)):
                v = s.value
                if v is None or norm(v) == sp or isinstance(v, ast.Constant):
                    continue        # other leaves are handed back unchanged / ignored
                return False
            else:
                return False
        return True
    body = [s for s in fnode.body if not (isinstance(s, ast.Expr) and isinstance(s.value, ast.Constant))]
    if not walk(body) or not conts or leaf is None:
        return None
    return (tuple(sorted(conts)), leaf.split(".")[-1])


def rule_glue(repo, rule):
    m = repo.module(QB)
    sub = m.functions.get("subqap.subqap_.subqap__")
    if sub is None:
        raise AnalysisError("subqap__ not found")
    # what is handed to the user's function is not trusted afterwards: the wrapped function may mutate its (list) arguments
    # in place, so the structures passed to it must not be read again to decide what is glued
    fncalls = [n for n in ast.walk(sub.node) if isinstance(n, ast.Call) and norm(n.func) == "fn" and _owner(n) is sub.node]
    if fncalls:
        fc_ = fncalls[0]
        passed = {x.id for a_ in list(fc_.args) + [k.value for k in fc_.keywords] for x in ast.walk(a_) if isinstance(x, ast.Name)}
        passed -= {"kwargs"}
        order_ = {id(x): i for i, x in enumerate(ast.walk(sub.node))}
        stmt_of = fc_
        while getattr(stmt_of, "_parent", None) is not None and not isinstance(stmt_of, ast.stmt):
            stmt_of = stmt_of._parent
        later = [x for st_ in sub.node.body[sub.node.body.index(stmt_of) + 1:] if stmt_of in sub.node.body for x in ast.walk(st_)
                 if isinstance(x, ast.Name) and isinstance(x.ctx, ast.Load) and x.id in passed]
        if later:
            rule.violation(sub.loc(later[0]), sub.fq, "`%s` is passed to the wrapped function and read again afterwards" % later[0].id,
                           "the structure handed to the sub-circuit function is read after the call to pair caller and callee wires: "
                           "a function that mutates a list argument in place changes which wires are paired (or how many)",
                           "glue/escaped/%s" % later[0].id)
        else:
            rule.ok(sub.loc(fc_), sub.fq, norm(fc_)[:80], "nothing passed to the wrapped function is read after the call")
    # the copy helpers are whatever callables subqap__ hands to for_each_in: nested closures, module-level functions,
    # or bound methods `obj.meth` of a local collector object `obj = C()`
    closures = {}
    selfmap = {}
    for n in ast.walk(sub.node):
        if isinstance(n, ast.Call) and norm(n.func) == "for_each_in" and len(n.args) == 3:
            ref = n.args[1]
            if isinstance(ref, ast.Name):
                f = sub.children.get(ref.id)
                if f is None:
                    b = m.bindings.get(ref.id)
                    f = b[1] if b and b[0] == "def" else None
                if f is not None:
                    closures[norm(ref)] = f
            elif isinstance(ref, ast.Attribute) and isinstance(ref.value, ast.Name):
                ctor = [a for a in ast.walk(sub.node) if isinstance(a, ast.Assign) and len(a.targets) == 1 and norm(a.targets[0]) == ref.value.id
                        and isinstance(a.value, ast.Call) and isinstance(a.value.func, ast.Name) and a.value.func.id in m.classes]
                if len(ctor) == 1:
                    f = m.classes[ctor[0].value.func.id].methods.get(ref.attr)
                    if f is not None and f.params:
                        closures[norm(ref)] = f
                        selfmap[norm(ref)] = (f.params[0], ref.value.id)
    for name, f in sub.children.items():
        closures.setdefault(name, f)
    info = {}
    for name, f in closures.items():
        ps = f.params[1:] if name in selfmap else f.params
        p = ps[0] if ps else None
        alloc = [n for n in ast.walk(f.node) if isinstance(n, ast.Assign) and isinstance(n.value, ast.Call)
                 and norm(n.value.func).endswith("PrivVal")]
        app = [c for c in ast.walk(f.node) if isinstance(c, ast.Call) and norm(c.func).endswith(".append") and c.args
               and isinstance(c.args[0], ast.Tuple) and len(c.args[0].elts) == 2]
        if not alloc or not app:
            continue
        if len(alloc) > 1 and len(app) == 1:
            # a copy helper that handles several kinds of wire-carrying values (LinComb, LinCombBool, LinCombFxp): judged path by
            # path.  On each path exactly one fresh wire is allocated, hinted with the value of the operand's own wire W (the
            # operand itself or its .lc); the pair appended is (W, fresh) or (fresh, W) - the same way round on every path;
            # what is returned is the fresh wire or a wrapper of the operand's type around it that adds no constraint.
            from ..hints import paths_to as _pt12
            orders, problems_ = set(), []
            for pth in _pt12(f.node, app[0]):
                envp = {}
                fresh = None
                for st in pth.steps:
                    if st[0] != "assign":
                        continue
                    envp[st[1]] = st[2]
                    if isinstance(st[2], ast.Call) and norm(st[2].func).endswith("PrivVal"):
                        if fresh is not None:
                            problems_.append("two wires allocated on one path")
                        fresh = (st[1], st[2])

                def res(e, depth=0):
                    while isinstance(e, ast.Name) and e.id in envp and depth < 6 and not (fresh and e.id == fresh[0]):
                        e = envp[e.id]
                        depth += 1
                    return e
                a0, a1 = (res(x) for x in app[0].args[0].elts)
                if fresh is None:
                    problems_.append("no wire allocated on a path that records a pair")
                    continue
                hint = norm(fresh[1].args[0]) if fresh[1].args else ""
                sides = [norm(a0), norm(a1)]
                if fresh[0] not in sides:
                    problems_.append("the pair does not contain the fresh wire")
                    continue
                w = sides[1 - sides.index(fresh[0])]
                if w not in (p, "%s.lc" % p):
                    problems_.append("the pair ties the copy to `%s`, not to the operand's wire" % w)
                if hint != "%s.value" % w:
                    problems_.append("the copy is hinted with `%s`, not with the value of `%s`" % (hint, w))
                orders.add(("orig", "copy") if sides.index(fresh[0]) == 1 else ("copy", "orig"))
            lst = norm(app[0].func.value)
            same_val = not problems_ and len(orders) == 1
            if same_val:
                rule.ok(f.loc(), f.fq, "%d kinds of operand: fresh wire hinted with the operand wire's value, paired %s" % (
                    len(alloc), "/".join(next(iter(orders)))), "copy is hinted with the original's value (every path)")
                info[name] = (f, "orig", "copy", next(iter(orders)), True, lst)
            else:
                rule.violation(f.loc(), f.fq, "; ".join(sorted(set(problems_)) or ["pairs are appended in different orders on different paths"]),
                               "the copy in the other context does not carry the original's value", "glue/value/%s" % name)
            continue
        a = alloc[0]
        same_val = a.value.args and norm(a.value.args[0]) == "%s.value" % p
        ret = norm(a.targets[0])
        order = tuple(norm(e) for e in app[0].args[0].elts)
        lst = norm(app[0].func.value)
        if name in selfmap and lst.startswith(selfmap[name][0] + "."):
            lst = selfmap[name][1] + lst[len(selfmap[name][0]):]      # self.pairs is <obj>.pairs at the call site
        info[name] = (f, p, ret, order, same_val, lst)
        if same_val:
            rule.ok(f.loc(), f.fq, norm(a), "copy is hinted with the original's value")
        else:
            rule.violation(f.loc(a), f.fq, norm(a), "the copy in the other context does not carry the original's value",
                           "glue/value/%s" % name)
    # how are the closures used
    uses = {}
    for n in ast.walk(sub.node):
        if isinstance(n, ast.Call) and norm(n.func) == "for_each_in" and len(n.args) == 3 and norm(n.args[1]) in info:
            src = norm(n.args[2])
            # the arguments may reach the copy helper through a bound signature:
            #   bound = sig.bind(*args, **kwargs);  for name, val in bound.arguments.items(): ... for_each_in(C, copy, val)
            for lp_ in [p_ for p_ in parents(n) if isinstance(p_, ast.For)]:
                tn = {x.id for x in ast.walk(lp_.target) if isinstance(x, ast.Name)}
                it_ = norm(lp_.iter)
                mm = re.match(r"^(?:list\()?(\w+)\.arguments\.items\(\)\)?$", it_)
                if src in tn and mm:
                    bdef = [a_ for a_ in ast.walk(sub.node) if isinstance(a_, ast.Assign) and len(a_.targets) == 1 and norm(a_.targets[0]) == mm.group(1)]
                    if len(bdef) == 1 and re.match(r"^\w+\.bind\(\*args(, \*\*kwargs)?\)$", norm(bdef[0].value)):
                        src = "args"
            uses[norm(n.args[1])] = (n, src)
    if not info:
        # second way of writing it: the copies are made by a pure copy function, and the pairs are formed afterwards by
        # walking the original and the copied structure side by side:  zip(T(x), T(for_each_in(C, copy, x)))
        from ..flatten import resolve_locals as _rl12
        gcalls = [c for c in ast.walk(sub.node) if isinstance(c, ast.Call) and norm(c.func) == "vc_glue" and len(c.args) == 3 and _owner(c) is sub.node]
        fe = m.functions.get("for_each_in")
        if gcalls and fe is not None:
            lst_txt = norm(gcalls[0].args[2])
            e = _rl12(sub.node, gcalls[0].args[2], max_depth=6)
            parts = []

            def split(x):
                if isinstance(x, ast.BinOp) and isinstance(x.op, ast.Add):
                    split(x.left)
                    split(x.right)
                else:
                    parts.append(x)
            split(e)
            for k_, part in enumerate(parts):
                z = part
                if isinstance(z, ast.Call) and norm(z.func) in ("list", "tuple") and len(z.args) == 1:
                    z = z.args[0]
                if not (isinstance(z, ast.Call) and norm(z.func) == "zip" and len(z.args) == 2 and all(
                        isinstance(a_, ast.Call) and len(a_.args) == 1 and isinstance(a_.func, ast.Name) for a_ in z.args)
                        and norm(z.args[0].func) == norm(z.args[1].func)):
                    continue
                tfi = m.functions.get(norm(z.args[0].func))
                xa, xb = z.args[0].args[0], z.args[1].args[0]
                fcall, orig, order = None, None, None
                for a_, b_, od in ((xa, xb, ("copy", "orig")), (xb, xa, ("orig", "copy"))):
                    if isinstance(a_, ast.Call) and norm(a_.func) == "for_each_in" and len(a_.args) == 3 and norm(a_.args[2]) == norm(b_):
                        fcall, orig, order = a_, b_, od
                if tfi is None or fcall is None:
                    continue
                cf = closures.get(norm(fcall.args[1]))
                sig_t = trav_sig(tfi.node)
                sig_f = trav_sig(fe.node, {fe.params[0]: norm(fcall.args[0])})
                key = "zip#%d" % k_
                if sig_t is None or sig_f is None or sig_t != sig_f:
                    rule.violation(sub.loc(gcalls[0]), sub.fq, "%s walks %s, for_each_in walks %s" % (tfi.name, sig_t, sig_f),
                                   "the pairs are formed by walking the original and the copied structure side by side, but the two "
                                   "traversals do not visit the same elements in the same order", "glue/traversal/%s" % tfi.name)
                    continue
                if cf is None:
                    continue
                rets_ = [r_ for r_ in ast.walk(cf.node) if isinstance(r_, ast.Return) and r_.value is not None]
                p_ = cf.params[0] if cf.params else None
                same_val = len(rets_) == 1 and isinstance(rets_[0].value, ast.Call) and norm(rets_[0].value.func).endswith("PrivVal") \
                    and rets_[0].value.args and norm(rets_[0].value.args[0]) == "%s.value" % p_
                info[key] = (cf, "orig", "copy", order, same_val, lst_txt)
                if same_val:
                    rule.ok(cf.loc(), cf.fq, norm(rets_[0].value), "copy is hinted with the original's value")
                else:
                    rule.violation(cf.loc(), cf.fq, norm(cf.node.body[-1])[:80], "the copy in the other context does not carry the original's value",
                                   "glue/value/%s" % cf.name)
                # the for_each_in call as it stands in the function (the resolved copy is a clone)
                site = [n for n in ast.walk(sub.node) if isinstance(n, ast.Call) and norm(n) == norm(_rl12(sub.node, n, max_depth=0))
                        and norm(n.func) == "for_each_in" and len(n.args) == 3 and norm(_rl12(sub.node, n, max_depth=6)) == norm(fcall)]
                if site:
                    uses[key] = (site[0], "args" if norm(_rl12(sub.node, site[0].args[2], max_depth=6)) == "args" else "<ret>")
                rule.ok(sub.loc(gcalls[0]), sub.fq, "%s and for_each_in both walk %s in order" % (tfi.name, sig_t), "pairs are formed element by element")
    fncall = [n for n in ast.walk(sub.node) if isinstance(n, ast.Call) and norm(n.func) == "fn" and _owner(n) is sub.node]
    cfg = CFG(sub.node)
    dom = cfg.dominators()

    def node_of(call):
        # a copy made inside a loop over the (possibly empty) collection of arguments is ordered by its loop
        loops_ = [p_ for p_ in parents(call) if isinstance(p_, ast.For) and _owner(p_) is sub.node]
        if loops_:
            for n in range(cfg.n):
                if cfg.stmt[n] is loops_[-1] and cfg.kind[n] == "loop":
                    return n
        for n in range(cfg.n):
            st = cfg.stmt[n]
            if st is not None and call in calls_in(own_stmt_part(st, cfg.kind[n])):
                return n
        return None
    named = {}
    for c in ast.walk(sub.node):
        if isinstance(c, ast.Call) and _owner(c) is sub.node and norm(c.func) in ("enterfn", "continuefn", "vc_glue"):
            named[norm(c.func)] = c
    arg_use = [(k, v) for k, v in uses.items() if v[1] == "args"]
    ret_var = None
    for n in ast.walk(sub.node):
        if isinstance(n, ast.Assign) and fncall and n.value is fncall[0]:
            ret_var = norm(n.targets[0])
    ret_use = [(k, v) for k, v in uses.items() if v[1] == ret_var or v[1] == "<ret>"]
    where = sub.loc()
    if not (arg_use and ret_use and fncall and all(k in named for k in ("enterfn", "continuefn", "vc_glue"))):
        rule.undecided(where, sub.fq, "uses=%s named=%s" % (sorted(uses), sorted(named)), "sub-circuit wrapper not in the expected shape")
        return
    seq = [("enterfn", named["enterfn"]), ("copy arguments", arg_use[0][1][0]), ("fn(...)", fncall[0]),
           ("continuefn", named["continuefn"]), ("copy results", ret_use[0][1][0]), ("vc_glue", named["vc_glue"])]
    nodes = [(lab, node_of(c)) for lab, c in seq]
    ok = all(n is not None for _l, n in nodes)
    for (l1, n1), (l2, n2) in zip(nodes, nodes[1:]):
        if not ok or not (n1 in dom[n2] and n1 != n2):
            rule.violation(where, sub.fq, " < ".join(l for l, _n in nodes), "`%s` does not precede `%s` on every path" % (l1, l2),
                           "glue/order/%s" % l2.split("(")[0].replace(" ", "-"))
            ok = False
            break
    if ok:
        rule.ok(where, sub.fq, " < ".join(l for l, _n in nodes), "context switches bracket the copies; glue after both")
        # glue reached on all normal paths
        gl = nodes[-1][1]
        reach = cfg.reach_avoiding(cfg.entry, {gl})
        if cfg.exit in reach:
            rule.violation(where, sub.fq, "a normal return bypasses vc_glue", "sub-circuit call can return without tying its "
                           "blocks to the caller", "glue/bypass")
        else:
            rule.ok(where, sub.fq, "vc_glue on every normal path to return")
    # orientation
    fa = info[arg_use[0][0]]
    fr = info[ret_use[0][0]]
    if fa[3] == (fa[1], fa[2]):
        rule.ok(fa[0].loc(), fa[0].fq, "argument pair (%s, %s) = (outer, inner)" % fa[3])
    else:
        rule.violation(fa[0].loc(), fa[0].fq, "pair %s" % (fa[3],), "argument pair must be (caller wire, callee copy)", "glue/orient/args")
    if fr[3] == (fr[2], fr[1]):
        rule.ok(fr[0].loc(), fr[0].fq, "result pair (%s, %s) = (outer, inner)" % fr[3])
    else:
        rule.violation(fr[0].loc(), fr[0].fq, "pair %s" % (fr[3],), "result pair must be (caller copy, callee wire)", "glue/orient/rets")
    g = named["vc_glue"]
    if len(g.args) == 3 and norm(g.args[2]) == fa[5] == fr[5]:
        oldv, newv = norm(g.args[0]), norm(g.args[1])
        rule.ok(sub.loc(g), sub.fq, norm(g), "all arguments and results (one list) glued between %s and %s" % (oldv, newv))
    else:
        rule.violation(sub.loc(g), sub.fq, norm(g), "vc_glue does not receive the list both copy helpers append to", "glue/list")
    # vc_glue body
    vg = repo.fn(QB, "vc_glue")
    decl = [c for c in ast.walk(vg.node) if isinstance(c, ast.Call) and norm(c.func) == "vc_declare_block"]
    c1, c2, vals = vg.params[:3]
    if len(decl) == 2 and len(decl[0].args) == 3 and len(decl[1].args) == 3:
        same_rnd = norm(decl[0].args[2]) == norm(decl[1].args[2])
        def _canon_comp(e):
            """text of a one-generator comprehension with its own variable called x"""
            if isinstance(e, (ast.ListComp, ast.GeneratorExp)) and len(e.generators) == 1 and isinstance(e.generators[0].target, ast.Name):
                from ..flatten import _Rename
                from ..loader import clone as _clone
                e = _Rename({e.generators[0].target.id: "x"}).visit(_clone(e))
            return norm(e).replace(" ", "")
        sides = (_canon_comp(decl[0].args[1]), _canon_comp(decl[1].args[1]))
        want = ("[x[0]forxin%s]" % vals, "[x[1]forxin%s]" % vals)
        if same_rnd:
            rule.ok(vg.loc(decl[0]), vg.fq, "both blocks declared with randomness `%s`" % norm(decl[0].args[2]))
        else:
            rule.violation(vg.loc(decl[1]), vg.fq, "%s vs %s" % (norm(decl[0].args[2]), norm(decl[1].args[2])),
                           "paired blocks use different randomness: their commitments cannot be compared", "glue/rnd")
        if sides == want:
            rule.ok(vg.loc(decl[0]), vg.fq, "block 1 lists x[0] (outer), block 2 lists x[1] (inner)")
        else:
            rule.violation(vg.loc(decl[0]), vg.fq, str(sides), "blocks do not list the outer / inner members of each pair", "glue/sides")
        # contexts switched before each declaration, restored afterwards
        body = vg.node.body
        ctx_assign = [(i, norm(s.value)) for i, s in enumerate(body) if isinstance(s, ast.Assign) and norm(s.targets[0]) == "vc_ctx"]
        di = [i for i, s in enumerate(body) if any(c in decl for c in calls_in(s))]
        seqok = len(ctx_assign) >= 3 and len(di) == 2 and ctx_assign[0][1] == c1 and ctx_assign[0][0] < di[0] \
            and ctx_assign[1][1] == c2 and di[0] < ctx_assign[1][0] < di[1] and ctx_assign[-1][0] > di[1]
        bak = [norm(s.targets[0]) for s in body if isinstance(s, ast.Assign) and norm(s.value) == "vc_ctx"]
        if seqok and bak and ctx_assign[-1][1] == bak[0]:
            rule.ok(vg.loc(), vg.fq, "vc_ctx = %s; declare; vc_ctx = %s; declare; vc_ctx = %s" % (c1, c2, bak[0]))
        else:
            rule.violation(vg.loc(), vg.fq, str(ctx_assign), "blocks are not declared in their own contexts with the context "
                           "restored afterwards", "glue/ctx")
        gw = [c for c in writes_in(vg.node, "qape") if c.args and isinstance(c.args[0], ast.Constant) and c.args[0].value == "[glue]"]
        from ..flatten import resolve_locals as _rl

        def cp(e):
            return norm(_rl(vg.node, e, copies_only=True))
        if gw and [cp(a) for a in gw[0].args[1:]] == [c1, cp(decl[0].args[0]), c2, cp(decl[1].args[0])]:
            rule.ok(vg.loc(gw[0]), vg.fq, norm(gw[0])[:90])
        else:
            rule.violation(vg.loc(), vg.fq, norm(gw[0]) if gw else "none", "[glue] record does not name (ctx1, block1, ctx2, block2)",
                           "glue/record")
    else:
        rule.undecided(vg.loc(), vg.fq, "%d vc_declare_block calls" % len(decl), "vc_glue not in the two-block shape")


def rule_file_names(repo, rule):
    """Equation files, keys and block files are looked up by function / block name.  The consistency check of qapsplit is keyed by
    the NAME, so two names that map to one file silently overwrite each other's artefacts.  Every one-parameter path helper of
    qaptools/options.py must therefore use its parameter as it is (or through an injective spelling)."""
    m = repo.modules.get("pysnark.qaptools.options")
    if m is None:
        raise AnalysisError("pysnark.qaptools.options not found")
    from ..flatten import resolve_locals
    LOSSY = ("sub", "replace", "translate", "lower", "upper", "casefold", "strip", "hash", "format", "basename", "split", "encode", "title")
    INJECTIVE = ("str", "quote", "quote_plus", "hexlify", "b64encode", "urlsafe_b64encode", "repr")
    for fi in sorted(m.functions.values(), key=lambda f: f.node.lineno):
        if not isinstance(fi.node, ast.FunctionDef) or len(fi.params) != 1 or not fi.name.startswith("get_"):
            continue
        p = fi.params[0]
        rets = [r for r in ast.walk(fi.node) if isinstance(r, ast.Return) and r.value is not None]
        if not rets:
            continue
        for r in rets:
            e = resolve_locals(fi.node, r.value)
            comps = [b for b in ast.walk(e) if isinstance(b, ast.BinOp) and isinstance(b.op, ast.Add) and isinstance(b.left, ast.Constant)
                     and isinstance(b.left.value, str)]
            if not comps:
                continue
            x = comps[0].right
            names = {n.id for n in ast.walk(x) if isinstance(n, ast.Name)}
            # the component may be re-bound step by step (nm = str(nm) ...): judge every call that the parameter flows through
            tainted = {p}
            grew = True
            while grew:
                grew = False
                for a_ in ast.walk(fi.node):
                    if isinstance(a_, ast.Assign) and len(a_.targets) == 1 and isinstance(a_.targets[0], ast.Name) and a_.targets[0].id not in tainted \
                            and any(isinstance(n, ast.Name) and n.id in tainted for n in ast.walk(a_.value)):
                        tainted.add(a_.targets[0].id)
                        grew = True
            flows = [c for c in list(ast.walk(fi.node)) + list(ast.walk(x)) if isinstance(c, ast.Call) and any(
                isinstance(n, ast.Name) and n.id in names | tainted for a in c.args for n in ast.walk(a))]
            lossy = [c for c in flows if norm(c.func).split(".")[-1] in LOSSY] + [
                s for s in ast.walk(x) if isinstance(s, ast.Subscript)]
            unknown = [c for c in flows if norm(c.func).split(".")[-1] not in LOSSY + INJECTIVE + ("join", "ValueError", "TypeError")]
            term = "%s: %s" % (fi.name, norm(comps[0])[:80])
            if lossy:
                rule.violation(fi.loc(r), fi.fq, term, "the name is rewritten by `%s` before it becomes a file name: different "
                               "function / block names can map to the same file, and nothing detects the clash" % norm(lossy[0])[:50],
                               "fname/%s" % fi.name)
            elif unknown:
                rule.undecided(fi.loc(r), fi.fq, term, "name passes through `%s`" % norm(unknown[0].func))
            elif p in names or any(isinstance(n, ast.Name) and n.id == p for c in flows for n in ast.walk(c)):
                rule.ok(fi.loc(r), fi.fq, term, "the name itself (distinct names, distinct files)")
            else:
                rule.undecided(fi.loc(r), fi.fq, term, "file-name component does not mention the parameter")


def rule_unique_names(repo, rule):
    """Wire and block names are built from per-context counters: every name taken from a counter must consume it
    (an increment of the same counter in the same statement list), otherwise two wires / blocks of one context share
    a name and the files become ambiguous."""
    import re
    m = repo.module(QB)
    EXC = {"enterfn": "the call name uses the caller's counter, which continuefn() advances when control returns to the caller"}
    for fi in m.functions.values():
        if isinstance(fi.node, ast.Lambda):
            continue
        lists = [fi.node.body] + [getattr(n, f) for n in ast.walk(fi.node) for f in ("body", "orelse") if isinstance(n, (ast.If, ast.For, ast.While, ast.With))
                                  and isinstance(getattr(n, f, None), list)]
        for stmts in lists:
            uses = {}
            incs = {}
            for s_ in stmts:
                if isinstance(s_, (ast.If, ast.For, ast.While, ast.With, ast.FunctionDef, ast.Try)):
                    continue
                if isinstance(s_, ast.AugAssign) and isinstance(s_.op, ast.Add) and re.match(r"^vc_(io)?ctr\[", norm(s_.target)):
                    incs[norm(s_.target)] = incs.get(norm(s_.target), 0) + 1
                    continue
                for c in ast.walk(s_):
                    if isinstance(c, ast.Call) and norm(c.func) == "str" and c.args and re.match(r"^vc_(io)?ctr\[", norm(c.args[0])):
                        uses.setdefault(norm(c.args[0]), []).append(s_)
            for k, ss in uses.items():
                where = fi.loc(ss[0])
                term = "%s: %d name(s) taken from %s, %d increment(s)" % (fi.qual, len(ss), k, incs.get(k, 0))
                if incs.get(k, 0) >= len(ss):
                    rule.ok(where, fi.fq, term)
                elif fi.qual in EXC:
                    cf = m.functions.get("continuefn")
                    ok = cf is not None and any(isinstance(x, ast.AugAssign) and norm(x.target).startswith("vc_ctr[") for x in ast.walk(cf.node))
                    if ok:
                        rule.ok(where, fi.fq, term, EXC[fi.qual])
                    else:
                        rule.violation(where, fi.fq, term, "call names are taken from a counter nobody advances", "names/%s" % fi.qual)
                else:
                    rule.violation(where, fi.fq, term, "a name is derived from %s without consuming the counter: the next wire / block of "
                                   "the same context gets the same name" % k, "names/%s/%s" % (fi.qual, k))


def rule_qualified_names(repo, rule):
    """The counters are kept PER CONTEXT, so a number taken from one identifies something only together with that context.
    Every composite name built around `str(vc_ctr[K])` / `str(vc_ioctr[K])` (wire ids, names of new contexts) must contain the
    context K itself in the same concatenation; a bare counter value (block names) is fine where the record carries the context
    next to it.  Otherwise two contexts at the same counter value produce the same global name (two calls of a function from
    different callers share one context: its wires are written twice, its equations doubled)."""
    import re
    m = repo.module(QB)
    n = 0
    for fi in m.functions.values():
        if isinstance(fi.node, ast.Lambda):
            continue
        seen = set()
        for e in ast.walk(fi.node):
            if not (isinstance(e, ast.BinOp) and isinstance(e.op, ast.Add)) or id(e) in seen:
                continue
            if not any(own is fi.node for own in [p for p in parents(e) if isinstance(p, (ast.FunctionDef, ast.Lambda))][:1]):
                continue
            parts = []

            def flat(x):
                if isinstance(x, ast.BinOp) and isinstance(x.op, ast.Add):
                    seen.add(id(x))
                    flat(x.left)
                    flat(x.right)
                else:
                    parts.append(x)
            flat(e)
            ctrs = [p_ for p_ in parts if isinstance(p_, ast.Call) and norm(p_.func) == "str" and p_.args
                    and re.match(r"^vc_(io)?ctr\[", norm(p_.args[0])) and isinstance(p_.args[0], ast.Subscript)]
            if not ctrs or len(parts) < 2:
                continue
            n += 1
            key = norm(ctrs[0].args[0].slice)
            term = "%s: %s" % (fi.qual, norm(e)[:90])
            if any(norm(p_) == key for p_ in parts):
                rule.ok(fi.loc(e), fi.fq, term, "the name contains the context `%s` whose counter it uses" % key)
            else:
                rule.violation(fi.loc(e), fi.fq, term, "a global name is built from the per-context counter of `%s` without the context "
                               "itself: the same counter value in another context yields the same name" % key, "names/unqualified/%s" % fi.qual)
    return n


def rule_digest(repo, rule):
    qs = repo.fn(QS, "qapsplit")
    raises = [n for n in ast.walk(qs.node) if isinstance(n, ast.Raise)]
    found = None
    for r in raises:
        for p in parents(r):
            if isinstance(p, ast.If) and any(isinstance(c, ast.Compare) and isinstance(c.ops[0], ast.NotEq) and
                                             ("hs" in norm(c) or "hash" in norm(c).lower() or "hexs" in norm(c))
                                             for c in ast.walk(p.test)):
                found = (r, p)
    if found:
        rule.ok(qs.loc(found[0]), qs.fq, "if %s: raise" % norm(found[1].test)[:80], "differing digests of one function name are reported")
    else:
        rule.violation(qs.loc(), qs.fq, "no raise under a digest comparison", "calls of one function with different equation "
                       "sets are not reported", "digest/raise")
    gq = repo.fn(QS, "getqap")
    from ..flatten import resolve_locals
    rets = [n for n in ast.walk(gq.node) if isinstance(n, ast.Return)]
    t = norm(resolve_locals(gq.node, rets[0].value)) if rets else ""
    if "blocks[" in t and "eqs[" in t:
        rule.ok(gq.loc(), gq.fq, t[:100], "digest input covers the block declarations and the equations of the context")
    else:
        rule.violation(gq.loc(), gq.fq, t[:100], "digest input does not cover both the block declarations and the equations",
                       "digest/cover")
    qh = repo.fn(QS, "qaphash")
    q_ = qh.params[0]
    folds = [n for n in ast.walk(qh.node) if isinstance(n, ast.AugAssign) and isinstance(n.op, (ast.BitXor, ast.Add, ast.BitOr, ast.BitAnd))
             and any(isinstance(p_, ast.For) for p_ in parents(n))]
    upd = [c for c in ast.walk(qh.node) if isinstance(c, ast.Call) and norm(c.func).endswith(".update")
           and any(isinstance(p_, ast.For) and norm(p_.iter) in (q_, "sorted(%s)" % q_) for p_ in parents(c))]
    whole = [c for c in ast.walk(qh.node) if isinstance(c, ast.Call) and ("md5" in norm(c.func) or "sha" in norm(c.func) or norm(c.func).endswith(".update"))
             and c.args and "join(" in norm(c.args[0]) and q_ in norm(c.args[0])]
    if folds:
        rule.violation(qh.loc(folds[0]), qh.fq, norm(folds[0]), "per-line digests are folded with a commutative, self-cancelling operator: "
                       "function bodies that differ by lines occurring an even number of times get the same signature", "digest/fold")
    elif upd or whole:
        rule.ok(qh.loc(), qh.fq, norm((upd or whole)[0])[:80], "one running hash over every line: different line multisets give different digests "
                "(up to hash collisions)")
    else:
        rule.violation(qh.loc(), qh.fq, norm(qh.node.body)[:100], "digest does not cover every line", "digest/lines")


def rule_members(repo, rule):
    """The block lists exactly the members it was given, in order: every re-binding of the member list inside
    vc_declare_block is an element-wise map (same length, same order); the [ioblock] record and the return value use it."""
    vdb = repo.fn(QB, "vc_declare_block")
    members = vdb.params[1] if len(vdb.params) > 1 else None
    if members is None:
        raise AnalysisError("vc_declare_block has no member-list parameter")
    ok = True
    n = 0
    for a in ast.walk(vdb.node):
        tg = []
        if isinstance(a, ast.Assign):
            tg = a.targets
        elif isinstance(a, ast.AugAssign):
            tg = [a.target]
        if not any(isinstance(t, ast.Name) and t.id == members for t in tg):
            if isinstance(a, ast.Call) and isinstance(a.func, ast.Attribute) and norm(a.func.value) == members \
                    and a.func.attr in ("remove", "pop", "clear", "sort", "reverse", "insert", "append", "extend"):
                rule.violation(vdb.loc(a), vdb.fq, norm(a), "the member list of a block is changed in place", "members/mutate")
                ok = False
            continue
        n += 1
        v = a.value
        elementwise = False
        if isinstance(v, ast.ListComp) and len(v.generators) == 1 and not v.generators[0].ifs and norm(v.generators[0].iter) == members:
            elementwise = True
        if isinstance(v, ast.Call) and norm(v.func) == "list" and len(v.args) == 1 and isinstance(v.args[0], ast.Call) \
                and norm(v.args[0].func) == "map" and len(v.args[0].args) == 2 and norm(v.args[0].args[1]) == members:
            elementwise = True
        if elementwise:
            rule.ok(vdb.loc(a), vdb.fq, norm(a)[:90], "element-wise map: same members, same order")
        else:
            rule.violation(vdb.loc(a), vdb.fq, norm(a)[:100], "the member list is rebuilt in a way that can drop, merge or reorder members: "
                           "paired blocks of a sub-circuit call then no longer line up member by member", "members/rebuild")
            ok = False
    rec = [c for c in writes_in(vdb.node, "qape") if c.args and isinstance(c.args[0], ast.Constant) and c.args[0].value == "[ioblock]"]
    from ..flatten import resolve_locals as _rlm
    rec_args = [_rlm(vdb.node, a_) for a_ in rec[0].args] if rec else []       # a token list built under a local name is that list
    if rec and any(isinstance(x, (ast.ListComp, ast.GeneratorExp)) and norm(x.generators[0].iter) == members and not x.generators[0].ifs
                   for a_ in rec_args for x in ast.walk(a_)):
        rule.ok(vdb.loc(rec[0]), vdb.fq, norm(rec[0])[:90], "[ioblock] lists every member")
    else:
        rule.violation(vdb.loc(), vdb.fq, norm(rec[0])[:90] if rec else "no [ioblock] record", "the [ioblock] record does not list every member "
                       "of the block", "members/record")


def rule_unit(repo, rule):
    vdb = repo.fn(QB, "vc_declare_block")
    m = repo.module(QB)
    es = None
    members = vdb.params[1] if len(vdb.params) > 1 else None
    for n in ast.walk(vdb.node):
        # vcs = [F(x) for x in vcs] : F is applied to every block member
        if isinstance(n, ast.ListComp) and len(n.generators) == 1 and norm(n.generators[0].iter) == members \
                and isinstance(n.elt, ast.Call) and isinstance(n.elt.func, ast.Name) and len(n.elt.args) == 1 \
                and norm(n.elt.args[0]) == norm(n.generators[0].target):
            es = vdb.children.get(n.elt.func.id)
            if es is None:
                b = m.bindings.get(n.elt.func.id)
                es = b[1] if b and b[0] == "def" else None
    from ..flatten import resolve_locals as _rl

    def fn_of(name):
        f_ = vdb.children.get(name)
        if f_ is None:
            b_ = m.bindings.get(name)
            f_ = b_[1] if b_ and b_[0] == "def" else None
        return f_

    def pure_value(call):
        """the expression a call of a straight-line helper `def h(p): a = ..; return E` stands for (locals resolved,
        argument substituted), or None"""
        if not (isinstance(call, ast.Call) and isinstance(call.func, ast.Name) and len(call.args) == 1 and not call.keywords):
            return None
        f_ = fn_of(call.func.id)
        if f_ is None or len(f_.params) != 1:
            return None
        body = [s for s in f_.node.body if not (isinstance(s, ast.Expr) and isinstance(s.value, ast.Constant))]
        if not body or not isinstance(body[-1], ast.Return) or body[-1].value is None or not all(
                isinstance(s, ast.Assign) and len(s.targets) == 1 and isinstance(s.targets[0], ast.Name) for s in body[:-1]):
            return None
        from ..flatten import _Subst
        return _Subst({f_.params[0]: call.args[0]}).visit(_rl(f_.node, body[-1].value))
    if es is None:
        es = vdb.children.get("ensure_single")
    if es is None:
        # written in place:  [x if UNIT(x) else FRESH(x) for x in members]
        for n in ast.walk(vdb.node):
            if isinstance(n, ast.ListComp) and len(n.generators) == 1 and norm(n.generators[0].iter) == members \
                    and not n.generators[0].ifs and isinstance(n.elt, ast.IfExp) and isinstance(n.generators[0].target, ast.Name):
                x = n.generators[0].target.id
                keep, other, t = n.elt.body, n.elt.orelse, n.elt.test
                if norm(other) == x and norm(keep) != x:
                    keep, other, t = other, keep, ast.UnaryOp(op=ast.Not(), operand=t)
                if norm(keep) != x:
                    continue
                tv = t
                if isinstance(t, ast.Call):
                    tv = pure_value(t) or t
                conj = tv.values if isinstance(tv, ast.BoolOp) and isinstance(tv.op, ast.And) else [tv]
                txts = [norm(c).replace(" ", "") for c in conj]
                has_len = any(c in ("len(%s.lc.sig)==1" % x, "1==len(%s.lc.sig)" % x) for c in txts)
                has_coef = any(c in ("%s.lc.sig[0][0]==1" % x, "1==%s.lc.sig[0][0]" % x, "%s.lc.sig[0][0]%%vc_p==1" % x) for c in txts)
                term = "bypass when `%s`" % norm(tv)
                if has_len and has_coef:
                    rule.ok(vdb.loc(n), vdb.fq, term, "only exact unit wires bypass re-allocation")
                else:
                    rule.violation(vdb.loc(n), vdb.fq, term,
                                   "a member whose linear combination is c*wire (c != 1) or a constant bypasses re-allocation: the block "
                                   "lists the wire (value w) while the member's value is c*w, so paired blocks do not carry equal values",
                                   "unit/bypass")
                fr_ = fn_of(other.func.id) if isinstance(other, ast.Call) and isinstance(other.func, ast.Name) and len(other.args) == 1 \
                    and norm(other.args[0]) == x else None
                if fr_ is not None and len(fr_.params) == 1:
                    p_ = fr_.params[0]
                    txt = norm(fr_.node.body)
                    rets_ = [r_ for r_ in ast.walk(fr_.node) if isinstance(r_, ast.Return) and r_.value is not None]
                    alloc_ = [a_ for a_ in ast.walk(fr_.node) if isinstance(a_, ast.Assign) and norm(a_.value).endswith("PrivVal(%s.value)" % p_)]
                    tied_ = alloc_ and "%s.assert_eq(%s)" % (norm(alloc_[0].targets[0]), p_) in txt and len(rets_) == 1 \
                        and norm(rets_[0].value) == norm(alloc_[0].targets[0])
                    if tied_:
                        rule.ok(fr_.loc(), fr_.fq, "otherwise: fresh wire with the member's value, constrained equal")
                    else:
                        rule.violation(fr_.loc(), fr_.fq, txt[:100], "re-allocated member is not constrained equal to the original", "unit/realloc")
                else:
                    rule.undecided(vdb.loc(n), vdb.fq, norm(other)[:60], "re-allocation arm not interpretable")
                return
        rule.undecided(vdb.loc(), vdb.fq, "ensure_single", "helper not found")
        return
    x = es.params[0]
    # the record lists  x.lc.sig[0][1]  (the *name* of the single term): which expression is written?
    uses_name_only = any("sig[0][1]" in norm(c) for c in writes_in(vdb.node, "qape"))
    bypass = [n for n in es.node.body if isinstance(n, ast.If) and any(isinstance(b, ast.Return) and norm(b.value) == x for b in n.body)]
    if not bypass:
        rule.ok(es.loc(), es.fq, "no bypass: every member is re-allocated and tied by assert_eq")
        return
    t = _rl(es.node, bypass[0].test)
    conj = t.values if isinstance(t, ast.BoolOp) and isinstance(t.op, ast.And) else [t]
    txts = [norm(c).replace(" ", "") for c in conj]
    has_len = any(c in ("len(%s.lc.sig)==1" % x, "1==len(%s.lc.sig)" % x) for c in txts)
    has_coef = any(c in ("%s.lc.sig[0][0]==1" % x, "1==%s.lc.sig[0][0]" % x, "%s.lc.sig[0][0]%%vc_p==1" % x) for c in txts)
    # the unit-wire test as a method of the term class:  x.lc.M() is not None  with
    #     def M(self): if len(self.sig) != 1: return None ; ((v, c),) = self.sig.items() ; return v if c == 1 else None
    # answers the wire exactly for "one term with coefficient one" (coefficients are kept reduced by the constructor)
    for c_ in txts:
        import re as _re7
        m_ = _re7.fullmatch(r"%s\.lc\.(\w+)\(\)isnotNone" % x, c_) or _re7.fullmatch(r"not%s\.lc\.(\w+)\(\)isNone" % x, c_)
        sigc = m.classes.get("Sig")
        um = sigc.methods.get(m_.group(1)) if (m_ and sigc) else None
        if um is not None and len(um.params) == 1:
            ub = [norm(s).replace(" ", "").replace("\n", "") for s in um.node.body if not (isinstance(s, ast.Expr) and isinstance(s.value, ast.Constant))]
            sp = um.params[0]
            if len(ub) == 3 and ub[0] in ("iflen(%s.sig)!=1:returnNone" % sp, "ifnotlen(%s.sig)==1:returnNone" % sp) \
                    and _re7.fullmatch(r"\(?\((\w+),(\w+)\),\)?=%s\.sig\.items\(\)" % sp, ub[1]):
                v_, k_ = _re7.fullmatch(r"\(?\((\w+),(\w+)\),\)?=%s\.sig\.items\(\)" % sp, ub[1]).groups()
                if ub[2] in ("return%sif%s==1elseNone" % (v_, k_), "returnNoneif%s!=1else%s" % (k_, v_)):
                    has_len = has_coef = True
                    if any("lc.%s()" % m_.group(1) in norm(c2) for c2 in writes_in(vdb.node, "qape")):
                        uses_name_only = True
    term = "bypass when `%s`; block record lists the term's wire name%s" % (norm(t), "" if uses_name_only else " (?)")
    if has_len and has_coef:
        rule.ok(es.loc(bypass[0]), es.fq, term, "only exact unit wires bypass re-allocation")
    else:
        rule.violation(es.loc(bypass[0]), es.fq, term,
                       "a member whose linear combination is c*wire (c != 1) or a constant bypasses re-allocation: the block "
                       "lists the wire (value w) while the member's value is c*w, so paired blocks do not carry equal values",
                       "unit/bypass")
    rest = [s for s in es.node.body if s is not bypass[0]]
    txt = norm(rest)
    if "PrivVal(%s.value)" % x in txt and "assert_eq(%s)" % x in txt:
        rule.ok(es.loc(), es.fq, "otherwise: fresh wire with the member's value, constrained equal")
    else:
        rule.violation(es.loc(), es.fq, txt[:100], "re-allocated member is not constrained equal to the original", "unit/realloc")


def check(repo, rep, tier):
    rep.explanation = ("Ordering (flush before read-back) on the CFG of prove(), grammar agreement between the print() "
                       "calls that write pysnark_eqs and the token indices the splitter/schedule readers use, the "
                       "wire/I-O/equation triple of pubval, the glue protocol of @subqap (dominance order of context "
                       "switches and copies, pair orientation, shared randomness), the digest mismatch report and the "
                       "unit-wire condition of block members.")
    rep.trusted = ["buffered file semantics: data written with print(file=f) is visible to another open() of the path only "
                   "after f.flush()/f.close()"]
    rep.not_decided = ["satisfaction of the equations by the wire values (C01 through this backend)",
                       "collision-freeness of the 40-bit digest", "behaviour of the external qaptools binaries"]
    r1 = rep.rule("R-C12-1", "flush before read-back", floor=1)
    rule_flush(repo, r1)
    r2 = rep.rule("R-C12-2", "writer/reader grammar agreement", floor=8)
    rule_grammar(repo, r2)
    r3 = rep.rule("R-C12-3", "public value = wire + I/O wire + linking equation", floor=4)
    rule_pubtriple(repo, r3)
    r4 = rep.rule("R-C12-4", "coefficients reduced mod p; term lists concatenated", floor=3)
    from .c13 import algebra
    from ..report import Rule
    tmp = Rule("R-C13-2", "")
    algebra(repo, tmp)
    for i in tmp.instances:
        if "qaptools" in i.construct:
            i.rule = "R-C12-4"
            if i.key:
                i.key = i.key.replace("R-C13-2", "R-C12-4")
            r4.instances.append(i)
    r5 = rep.rule("R-C12-5", "sub-circuit glue pairing", floor=8)
    rule_glue(repo, r5)
    r8 = rep.rule("R-C12-8", "wire / block names taken from a counter consume it (names are unique per context)", floor=5)
    rule_unique_names(repo, r8)
    r11 = rep.rule("R-C12-11", "names built from a per-context counter contain the context (globally unique wire and call names)", floor=3)
    rule_qualified_names(repo, r11)
    r6 = rep.rule("R-C12-6", "inconsistent function bodies are reported", floor=3)
    rule_digest(repo, r6)
    r10 = rep.rule("R-C12-10", "records shared through tables are keyed by the value itself, never by hash(value)", floor=2)
    from .hashkeys import rule_no_hash_keys
    rule_no_hash_keys(repo, r10, (QB, QS))
    r9 = rep.rule("R-C12-9", "a block lists exactly the members it is given, in order", floor=2)
    rule_members(repo, r9)
    r12 = rep.rule("R-C12-12", "per-function / per-block files are named injectively (the name itself is the file-name component)", floor=4)
    rule_file_names(repo, r12)
    r7 = rep.rule("R-C12-7", "block members are unit wires", floor=2)
    rule_unit(repo, r7)
